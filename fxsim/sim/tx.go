package sim

import (
	"fmt"
	"math/big"

	abci "github.com/cometbft/cometbft/abci/types"
	"github.com/cosmos/cosmos-sdk/client"
	cryptotypes "github.com/cosmos/cosmos-sdk/crypto/types"
	sdk "github.com/cosmos/cosmos-sdk/types"
	"github.com/cosmos/cosmos-sdk/types/tx/signing"
	authsigning "github.com/cosmos/cosmos-sdk/x/auth/signing"
	"github.com/ethereum/go-ethereum/common"
	ethtypes "github.com/ethereum/go-ethereum/core/types"
	evmtypes "github.com/evmos/ethermint/x/evm/types"

	fxtypes "github.com/functionx/fx-core/v8/types"
)

var EvmChainID = big.NewInt(530)

// AccNumSeq reads account number and sequence from committed state (0,0 if unknown).
func (w *World) AccNumSeq(addr sdk.AccAddress) (uint64, uint64) {
	acc := w.App.AccountKeeper.GetAccount(w.Ctx(), addr)
	if acc == nil {
		return 0, 0
	}
	return acc.GetAccountNumber(), acc.GetSequence()
}

// SignCosmos builds and signs a Cosmos tx (SIGN_MODE_DIRECT) with the key's current
// sequence plus seqOffset (for several txs of one signer in one block).
func (w *World) SignCosmos(k *Key, seqOffset uint64, gas uint64, msgs ...sdk.Msg) ([]byte, error) {
	txCfg := w.App.GetTxConfig()
	b := txCfg.NewTxBuilder()
	if err := b.SetMsgs(msgs...); err != nil {
		return nil, err
	}
	if gas == 0 {
		gas = 3_000_000
	}
	b.SetGasLimit(gas)
	b.SetFeeAmount(sdk.NewCoins())
	num, seq := w.AccNumSeq(k.Acc())
	seq += seqOffset
	return signBuilder(txCfg, b, k.Priv, num, seq)
}

func signBuilder(txCfg client.TxConfig, b client.TxBuilder, priv cryptotypes.PrivKey, num, seq uint64) ([]byte, error) {
	mode := signing.SignMode_SIGN_MODE_DIRECT
	sig := signing.SignatureV2{PubKey: priv.PubKey(), Data: &signing.SingleSignatureData{SignMode: mode}, Sequence: seq}
	if err := b.SetSignatures(sig); err != nil {
		return nil, err
	}
	signerData := authsigning.SignerData{
		ChainID: ChainID, AccountNumber: num, Sequence: seq, PubKey: priv.PubKey(),
		Address: sdk.AccAddress(priv.PubKey().Address()).String(),
	}
	bz, err := authsigning.GetSignBytesAdapter(sdk.Context{}.WithChainID(ChainID), txCfg.SignModeHandler(), mode, signerData, b.GetTx())
	if err != nil {
		return nil, err
	}
	s, err := priv.Sign(bz)
	if err != nil {
		return nil, err
	}
	sig.Data = &signing.SingleSignatureData{SignMode: mode, Signature: s}
	if err := b.SetSignatures(sig); err != nil {
		return nil, err
	}
	return txCfg.TxEncoder()(b.GetTx())
}

// EthNonce returns the EVM nonce (= account sequence) of addr.
func (w *World) EthNonce(addr common.Address) uint64 {
	return w.App.EvmKeeper.GetNonce(w.Ctx(), addr)
}

// SignEth builds a signed legacy EVM transaction wrapped as a Cosmos tx.
// to == nil creates a contract.
func (w *World) SignEth(k *Key, nonceOffset uint64, to *common.Address, value *big.Int, gas uint64, data []byte) ([]byte, common.Hash, error) {
	if value == nil {
		value = big.NewInt(0)
	}
	nonce := w.EthNonce(k.Hex()) + nonceOffset
	msg := evmtypes.NewTx(EvmChainID, nonce, to, value, gas, big.NewInt(0), nil, nil, data, nil)
	msg.From = k.Hex().Bytes()
	signer := ethtypes.LatestSignerForChainID(EvmChainID)
	tx := msg.AsTransaction()
	h := signer.Hash(tx)
	sig, err := k.signHash(h.Bytes())
	if err != nil {
		return nil, common.Hash{}, err
	}
	tx, err = tx.WithSignature(signer, sig)
	if err != nil {
		return nil, common.Hash{}, err
	}
	msg.FromEthereumTx(tx)
	msg.From = k.Hex().Bytes()
	b := w.App.GetTxConfig().NewTxBuilder()
	cosmosTx, err := msg.BuildTx(b, fxtypes.DefaultDenom)
	if err != nil {
		return nil, common.Hash{}, err
	}
	bz, err := w.App.GetTxConfig().TxEncoder()(cosmosTx)
	return bz, tx.Hash(), err
}

func (k *Key) signHash(h []byte) ([]byte, error) {
	return ethSign(h, k)
}

// TxResult is the outcome of one delivered tx.
type TxResult struct {
	VmError   string // EVM transactions: non-empty when execution failed (the Cosmos tx code stays 0)
	Ret       []byte // EVM return data
	IsEth     bool
	Code      uint32
	Codespace string
	Log       string
	GasUsed   int64
	Events    []abci.Event
	Data      []byte
}

func (r *TxResult) OK() bool { return r != nil && r.Code == 0 && r.VmError == "" }

func FromExec(r *abci.ExecTxResult) *TxResult {
	t := &TxResult{Code: r.Code, Codespace: r.Codespace, Log: r.Log, GasUsed: r.GasUsed, Events: r.Events, Data: r.Data}
	if r.Code == 0 && len(r.Data) > 0 {
		var md sdk.TxMsgData
		if err := md.Unmarshal(r.Data); err == nil {
			for _, a := range md.MsgResponses {
				if a.TypeUrl == "/ethermint.evm.v1.MsgEthereumTxResponse" {
					var er evmtypes.MsgEthereumTxResponse
					if er.Unmarshal(a.Value) == nil {
						t.IsEth = true
						t.VmError = er.VmError
						t.Ret = er.Ret
					}
				}
			}
		}
	}
	return t
}

func (r *TxResult) String() string {
	if r == nil {
		return "<nil>"
	}
	if r.Code == 0 && r.VmError == "" {
		return "ok"
	}
	if r.Code == 0 {
		return fmt.Sprintf("evm-fail(%s ret=%x)", r.VmError, trunc(r.Ret, 100))
	}
	l := r.Log
	if len(l) > 160 {
		l = l[:160]
	}
	return fmt.Sprintf("fail(%s/%d: %s)", r.Codespace, r.Code, l)
}

// EventAttr returns the values of attribute key over all events of the given type.
func (r *TxResult) EventAttr(typ, key string) []string {
	var out []string
	for _, e := range r.Events {
		if e.Type != typ {
			continue
		}
		for _, a := range e.Attributes {
			if a.Key == key {
				out = append(out, a.Value)
			}
		}
	}
	return out
}

func (r *TxResult) HasEvent(typ string) bool {
	for _, e := range r.Events {
		if e.Type == typ {
			return true
		}
	}
	return false
}

func trunc(b []byte, n int) []byte {
	if len(b) > n {
		return b[:n]
	}
	return b
}
