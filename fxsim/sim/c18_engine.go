package sim

import (
	"encoding/hex"
	"fmt"
	"math/rand/v2"
	"strings"
	"time"

	sdk "github.com/cosmos/cosmos-sdk/types"
	authtypes "github.com/cosmos/cosmos-sdk/x/auth/types"
	"github.com/ethereum/go-ethereum/common"
	ethcrypto "github.com/ethereum/go-ethereum/crypto"

	cctypes "github.com/functionx/fx-core/v8/x/crosschain/types"
)

// ---------------------------------------------------------------------------------------
// C18 engine: "a tolerated failed sub-step leaves none of its own partial effects".
//
// A bridge world (BridgeEngine: oracles, external-chain model, FX + three module-owned
// coins, claims through real transactions) plus a hand-assembled callee contract whose
// behaviour is selected by the call data (c18_callee.go). Boundaries:
//
//	(a) c18_att.go   observed external event whose handler fails
//	(b) c18_call.go  inbound bridge call whose token conversion / contract call fails
//	(c) c18_gov.go   passed proposal whose j-th message fails
//	(d) IBC error acknowledgement: checked by the IBC engine (error-ack-no-effects)
//
// Oracle everywhere: from one committed state the same input runs through the real code on
// branches with the failure provoked at different depths; all failing variants must leave
// identical stores (modulo the keys that encode the injected fault itself, computed as the
// difference of the two pre-states), and the state must differ from the pre-state only by
// the designated outcome.

type C18Engine struct{ B BridgeEngine }

func (C18Engine) Name() string { return "c18" }

type c18Callee struct {
	Addr common.Address
	OK   bool
}

type c18St struct {
	run       *Run
	Callees   []*c18Callee
	Viol      []Violation
	Queue     []Step // follow-up steps of a multi-step scenario (generation mode)
	pre       Dump   // committed state before the current step (for committed-path judgements)
	preView   *ChainView
	pred      *c18Pred          // keeper-path prediction for the single executeClaim of the current block
	badEvents map[uint64]string // external event nonce -> failing kind (c18_ext)
	uniq      int
}

var c18Cur *c18St

func c18st(r *Run) *c18St {
	if c18Cur == nil || c18Cur.run != r {
		panic("c18 state of another run")
	}
	return c18Cur
}

var c18ExtraTokens = []string{"DAI", "USDC"}

func init() {
	RegisterEngine([]string{"C18-main"}, func() Engine { return C18Engine{} })
	levels["C18"] = levelInfo{"fault_enumeration", "seeded generation of bridge/governance histories (one run = one PRNG seed = one world + one sequence of steps); at every tolerated-failure boundary reached the failure point is ENUMERATED on branches of the same committed state: (b) inbound bridge call: callee mode words {no action, every single action, all actions} x endings {revert, revert with data, invalid opcode, endless loop}, the BridgeCallMaxGasLimit ladder over a callee that would otherwise succeed (every limit = one cut point), every token pair of the call disabled in turn (first, middle, last of up to four tokens), receiver contract / EOA / memo send-call-to, refund address equal / different / unfunded, execution through the keeper and through an EVM message to the executeClaim precompile; (c) proposals of n messages of one type with the invalid (or reverting / out-of-gas contract call) message at every position j, against the invalid message alone and a message-less proposal, and scenarios of 2-3 proposals ending in the SAME block in the orders {fails-late, passes, fails-first} (LP, PL, LPF, LFP, PLF, PFL, FLP, FPL, LLP, LPP, LPL, PLP) against the same block with the failing proposals failing first / replaced by message-less ones, on branches and through real blocks; (a) every failing attestation handler (existing bridge token, FX with wrong decimals, unknown oracle-set nonce) against a claim whose handler only parks a pending record; plus the same inputs through real transactions in the committed history. Every pair (failing variant, reference failure) is one evaluation of the equal-stores oracle; every failing variant one evaluation of the designated-outcome-only oracle. distinct = hash of (step shapes, tx success); non-trivial = at least one late-failure vs first-failure store comparison was made"}
}

// ---------------------------------------------------------------------------------------
// configuration

func (e C18Engine) GenConfig(rng *rand.Rand, prop string, tier string) RunConfig {
	rc := e.B.GenConfig(rng, "C18", tier)
	rc.World.Chains = rc.World.Chains[:1]
	rc.World.Chains[0].Oracles = 1 + rng.IntN(3)
	rc.World.Chains[0].SignedWindow = 10_000
	rc.World.Chains[0].BridgeCallMaxGas = []uint64{30_000_000, 30_000_000, 3_000_000, 400_000}[rng.IntN(4)]
	rc.World.Validators = 1 + rng.IntN(3)
	rc.World.ValStakeFX = nil
	for i := 0; i < rc.World.Validators; i++ {
		rc.World.ValStakeFX = append(rc.World.ValStakeFX, int64(500_000+rng.IntN(1_000_000)))
	}
	rc.World.Users = 3
	rc.World.NoInflation = true
	rc.World.GovVotingSec = int64(300 + rng.IntN(600))
	rc.World.GovDepositSec = rc.World.GovVotingSec
	rc.Faults = nil
	rc.Steps = 34 + rng.IntN(14)
	if tier == "thorough" {
		rc.Steps = 45 + rng.IntN(40)
	}
	base := map[string]int{"call": 40, "commit": 14, "att": 8, "gov": 14, "govcommit": 5, "toggle": 4, "fund": 4, "tick": 3, "gasparam": 2, "govmulti": 12, "govmulticommit": 7}
	rc.Weights = map[string]int{}
	for _, k := range sortedKeys(base) {
		f := []int{1, 1, 1, 2, 3}[rng.IntN(5)]
		if rng.IntN(2) == 0 {
			rc.Weights[k] = base[k] * f
		} else {
			rc.Weights[k] = (base[k] + f - 1) / f
		}
	}
	return rc
}

// ---------------------------------------------------------------------------------------
// init & setup

func (e C18Engine) Init(r *Run) error {
	if err := e.B.Init(r); err != nil {
		return err
	}
	st := bst(r)
	c18Cur = &c18St{run: r, badEvents: map[uint64]string{}}
	c := st.Chains[0]
	for _, sym := range c18ExtraTokens {
		c.Tokens = append(c.Tokens, &TokenInfo{Symbol: sym, Base: strings.ToLower(sym), Contract: tokenContract(c.Name, sym), Kind: "module"})
	}
	if !r.Replay {
		st.Setup = e.setupSteps(r)
	}
	return nil
}

func (e C18Engine) setupSteps(r *Run) []Step {
	st := bst(r)
	c := st.Chains[0]
	w := r.W
	var out []Step
	var bonds []Tx
	for i := 0; i < c.Cfg.Oracles; i++ {
		amt := FX(c.Cfg.DelegateThresholdFX)
		bonds = append(bonds, Tx{K: "bond", S: KeyName("oracle", c.oracleKey(w, i).Idx), A: A("chain", c.Name, "o", i, "amount", amt.String(), "val", r.Rng.IntN(r.Cfg.World.Validators))})
	}
	out = append(out, Step{Kind: "block", DtMs: 5000, N: 1, Txs: bonds})
	out = append(out, Step{Kind: "ext", A: A("chain", c.Name, "op", "init")})
	out = append(out, Step{Kind: "gov", A: A("what", "register_coin", "symbol", "USDT", "decimals", 6)})
	for _, sym := range c18ExtraTokens {
		out = append(out, Step{Kind: "gov", A: A("what", "register_coin", "symbol", sym, "decimals", 18)})
	}
	for _, t := range c.Tokens {
		out = append(out, Step{Kind: "ext", A: A("chain", c.Name, "op", "add_token", "symbol", t.Symbol)})
	}
	// a few deposits so that users hold bridged coins (funded refund addresses)
	for u := 0; u < st.NUsers; u++ {
		for _, t := range c.Tokens {
			if t.Kind == "fx" {
				continue
			}
			out = append(out, Step{Kind: "ext", A: A("chain", c.Name, "op", "send_to_fx", "symbol", t.Symbol, "user", u, "amount", 50_000+r.Rng.IntN(50_000), "target", "")})
		}
	}
	out = append(out, Step{Kind: "block", DtMs: 5000, N: 1, Txs: []Tx{{K: "c18_catchup", S: "user/0"}}})
	out = append(out, Step{Kind: "block", DtMs: 5000, N: 1, Txs: []Tx{{K: "c18_confirm_sets", S: "user/0"}, {K: "execute_claim_all", S: "user/0"}}})
	out = append(out, Step{Kind: "c18_deploy", A: A("deployer", "user/0", "val", r.Rng.IntN(r.Cfg.World.Validators))})
	return out
}

// ---------------------------------------------------------------------------------------
// names -> addresses

// c18Addr resolves "callee/i", "module/<name>" or a key name "role/idx" to a 20-byte address.
func c18Addr(r *Run, name string) (common.Address, bool) {
	st := c18st(r)
	if strings.HasPrefix(name, "callee/") {
		_, i := ParseKeyName(name)
		if i < 0 || i >= len(st.Callees) || !st.Callees[i].OK {
			return common.Address{}, false
		}
		return st.Callees[i].Addr, true
	}
	if name == "" || !strings.Contains(name, "/") {
		return common.Address{}, false
	}
	if strings.HasPrefix(name, "module/") {
		return common.BytesToAddress(authtypes.NewModuleAddress(name[len("module/"):])), true
	}
	return r.W.KeyByName(name).Hex(), true
}

// ---------------------------------------------------------------------------------------
// apply

// expandTxs turns helper intents into concrete ones (functions of the committed state only).
func (e C18Engine) expandTxs(r *Run, in []Tx) []Tx {
	st := bst(r)
	c := st.Chains[0]
	w := r.W
	var txs []Tx
	for _, t := range in {
		switch t.K {
		case "execute_claim_all":
			v := w.ViewChain(w.Ctx(), c.Name)
			for _, n := range v.SortedPending() {
				txs = append(txs, Tx{K: "execute_claim", S: t.S, A: A("chain", c.Name, "n", n), Gas: 8_000_000})
			}
		case "c18_catchup": // every online oracle claims everything it has not claimed yet
			v := w.ViewChain(w.Ctx(), c.Name)
			for i := range c.Oracles {
				ob := c.oracleKey(w, i).Bech()
				or, ok := v.Oracles[ob]
				if !ok || !or.Online {
					continue
				}
				for n := v.EffectiveOracleNonce(ob) + 1; n <= c.Ext.EventNonce; n++ {
					txs = append(txs, Tx{K: "claim", S: KeyName("bridger", c.bridgerKey(w, i).Idx), A: A("chain", c.Name, "o", i, "n", n)})
				}
			}
		case "c18_confirm_sets":
			v := w.ViewChain(w.Ctx(), c.Name)
			for i := range c.Oracles {
				ob := c.oracleKey(w, i).Bech()
				if _, ok := v.Oracles[ob]; !ok {
					continue
				}
				for _, os := range v.OracleSets {
					if _, done := v.SetConfirms[os.Nonce][ob]; !done {
						txs = append(txs, Tx{K: "confirm", S: KeyName("bridger", c.bridgerKey(w, i).Idx), A: A("chain", c.Name, "o", i, "type", "oracleset", "nonce", os.Nonce)})
					}
				}
				for _, bc := range v.Calls {
					if _, done := v.CallConfirms[bc.Nonce][ob]; !done {
						txs = append(txs, Tx{K: "confirm", S: KeyName("bridger", c.bridgerKey(w, i).Idx), A: A("chain", c.Name, "o", i, "type", "bridgecall", "nonce", bc.Nonce)})
					}
				}
			}
		default:
			txs = append(txs, t)
		}
	}
	return txs
}

func (e C18Engine) Apply(r *Run, s *Step) *Outcome {
	st := bst(r)
	cs := c18st(r)
	w := r.W
	cs.pre, cs.preView = nil, nil
	switch s.Kind {
	case "block":
		s2 := *s
		s2.Txs = e.expandTxs(r, s.Txs)
		cs.pred = nil
		for _, t := range s2.Txs {
			if t.K == "execute_claim" || t.K == "claim" {
				cs.pre = w.Dump()
				cs.preView = w.ViewChain(w.Ctx(), st.Chains[0].Name)
				break
			}
		}
		if len(s2.Txs) == 1 && s2.Txs[0].K == "execute_claim" {
			cs.pred = e.predictExecute(r, s2.Txs[0].A.Str("chain"), s2.Txs[0].A.U64("n"))
		}
		return e.B.Apply(r, &s2)
	case "c18_deploy":
		st.Chk.before(r, s)
		o := &Outcome{Extra: map[string]string{}}
		e.applyDeploy(r, s, o)
		return o
	case "c18_call":
		st.Chk.before(r, s)
		o := &Outcome{Extra: map[string]string{}}
		e.applyCall(r, s, o)
		return o
	case "c18_att":
		st.Chk.before(r, s)
		o := &Outcome{Extra: map[string]string{}}
		e.applyAtt(r, s, o)
		return o
	case "c18_ext":
		st.Chk.before(r, s)
		o := &Outcome{Extra: map[string]string{}}
		e.applyExtBad(r, s, o)
		return o
	case "c18_gov":
		st.Chk.before(r, s)
		o := &Outcome{Extra: map[string]string{}}
		e.applyGovBranch(r, s, o)
		return o
	case "c18_params":
		st.Chk.before(r, s)
		o := &Outcome{Extra: map[string]string{}}
		if ch := st.chain(s.A.Str("chain")); ch != nil {
			p := ch.keeper(w).GetParams(w.Ctx())
			p.BridgeCallMaxGasLimit = s.A.U64("gas")
			t0 := w.Now
			gr := w.PassProposal("c18 params", []sdk.Msg{&cctypes.MsgUpdateParams{ChainName: ch.Name, Authority: w.GovAuthority(), Params: p}}, 5*time.Second)
			r.SimTimeMs += w.Now.Sub(t0).Milliseconds()
			o.Halt, o.Note = gr.Halt, gr.Status+" "+gr.Note
			r.Probe("gov-" + strings.ToLower(gr.Status) + ":bridge-call-max-gas")
		}
		return o
	case "c18_govmulti":
		st.Chk.before(r, s)
		o := &Outcome{Extra: map[string]string{}}
		e.applyGovMulti(r, s, o)
		return o
	case "c18_govpass":
		st.Chk.before(r, s)
		o := &Outcome{Extra: map[string]string{}}
		e.applyGovCommit(r, s, o)
		return o
	}
	return e.B.Apply(r, s)
}

func (e C18Engine) calleeEnv(r *Run, val int) c18CalleeEnv {
	w := r.W
	st := bst(r)
	c := st.Chains[0]
	env := c18CalleeEnv{Tokens: map[string]common.Address{}, Sink: w.Key("sink", 0).Hex(), Chain: c.Name}
	if val >= len(w.Vals) || val < 0 {
		val = 0
	}
	env.ValOp = w.Key("val", val).Val().String()
	ctx := w.Ctx()
	for sym, denom := range map[string]string{"WFX": "FX", "USDT": "usdt", "DAI": "dai", "USDC": "usdc"} {
		if pair, ok := w.App.Erc20Keeper.GetTokenPair(ctx, denom); ok {
			env.Tokens[sym] = common.HexToAddress(pair.Erc20Address)
		}
	}
	return env
}

func (e C18Engine) applyDeploy(r *Run, s *Step, o *Outcome) {
	w := r.W
	cs := c18st(r)
	ce := &c18Callee{}
	cs.Callees = append(cs.Callees, ce)
	code, err := c18CalleeCode(e.calleeEnv(r, s.A.Int("val")))
	if err != nil {
		o.Note = "assemble: " + err.Error()
		return
	}
	depName := s.A.Str("deployer")
	if !strings.Contains(depName, "/") {
		o.Note = "no deployer"
		return
	}
	dep := w.KeyByName(depName)
	addr := ethcrypto.CreateAddress(dep.Hex(), w.EthNonce(dep.Hex()))
	ce.Addr = addr
	txs := []Tx{
		{K: "eth_call", S: depName, A: A("to", "", "data", hex.EncodeToString(InitCode(code)), "value", "0"), Gas: 5_000_000},
		{K: "bank_send", S: depName, A: A("to", c18AccOf(addr), "denom", "FX", "amount", FX(100).String())},
	}
	br := w.DeliverBlock(txs, 5*time.Second, 0)
	o.Txs, o.Halt = br.Out, br.Halt
	r.SimTimeMs += 5000
	ce.OK = br.Halt == nil && len(br.Out) == 2 && br.Out[0].Res.OK() && br.Out[1].Res.OK() && w.App.EvmKeeper.IsContract(w.Ctx(), addr)
	if !ce.OK {
		o.Note = "deploy failed"
	} else {
		o.Note = "callee at " + addr.Hex()
		r.Probe("callee-deployed")
	}
}

// ---------------------------------------------------------------------------------------
// check

func (e C18Engine) Check(r *Run, s *Step, o *Outcome) []Violation {
	st := bst(r)
	cs := c18st(r)
	if o != nil && o.Halt != nil {
		r.Foreign = "halt:" + o.Halt.Site
		return nil
	}
	ctx := r.W.Ctx()
	st.Chk.post = map[string]*ChainView{}
	for _, ch := range st.Chains {
		st.Chk.post[ch.Name] = r.W.ViewChain(ctx, ch.Name)
	}
	if o != nil && s.Kind == "block" && cs.pre != nil {
		e.judgeCommittedBlock(r, s, o)
	}
	vs := cs.Viol
	cs.Viol = nil
	return c18Dedup(vs)
}

func (e C18Engine) Finish(r *Run) []Violation { return nil }

func c18Dedup(vs []Violation) []Violation {
	seen := map[string]bool{}
	var out []Violation
	for _, v := range vs {
		if !seen[v.ID()] {
			seen[v.ID()] = true
			out = append(out, v)
		}
	}
	return out
}

func (cs *c18St) violate(inv, site, format string, a ...interface{}) {
	cs.Viol = append(cs.Viol, Violation{Invariant: inv, Site: site, Message: fmt.Sprintf(format, a...)})
}

func c18DiffText(d []DiffEntry, max int) string {
	var sb strings.Builder
	for i, e := range d {
		if i == max {
			fmt.Fprintf(&sb, " … (%d keys)", len(d))
			break
		}
		sb.WriteString(" [" + e.String() + "]")
	}
	return sb.String()
}
