package sim

import (
	"math/big"

	"github.com/ethereum/go-ethereum/common"
)

// SoftTokenRuntime is a minimal externally-owned ERC-20 written with the assembler: a
// transfer / transferFrom that cannot be honoured RETURNS FALSE instead of reverting
// (the style of early mainnet tokens). Everything that converts such a token must look
// at the returned flag, not only at the absence of a revert.
//
// storage: balance[a] at slot a; allowance[o][s] at keccak(o,s); total supply at 2^200.
func SoftTokenRuntime(name, symbol string, decimals uint8) []byte {
	const (
		opSUB    = 0x03
		opLT     = 0x10
		opEQ     = 0x14
		opKECCAK = 0x20
		opDUP2   = 0x81
	)
	mask := new(big.Int).Sub(new(big.Int).Lsh(big.NewInt(1), 160), big.NewInt(1))
	tsSlot := new(big.Int).Lsh(big.NewInt(1), 200)
	a := NewAsm()
	arg := func(i int) { a.Push(uint64(4 + 32*i)).Op(opCALLDATALOAD) }
	addrArg := func(i int) { arg(i); a.PushBig(mask).Op(opAND) }
	ret := func() { a.Push(0).Op(opMSTORE).Push(32).Push(0).Op(opRETURN) } // returns top of stack as one word
	retBool := func(v uint64) { a.Push(v); ret() }
	str := func(s string) {
		b := make([]byte, 32)
		copy(b, s)
		a.Push(0x20).Push(0).Op(opMSTORE)
		a.Push(uint64(len(s))).Push(0x20).Op(opMSTORE)
		a.PushBig(new(big.Int).SetBytes(b)).Push(0x40).Op(opMSTORE)
		a.Push(0x60).Push(0).Op(opRETURN)
	}
	// allowance slot of (mem[0x00], mem[0x20]) -> stack
	alSlot := func() { a.Push(0x40).Push(0).Op(opKECCAK) }
	// registers: mem[0x80]=from mem[0xa0]=to mem[0xc0]=amount
	ld := func(off uint64) { a.Push(off).Op(opMLOAD) }
	st := func(off uint64) { a.Push(off).Op(opMSTORE) }

	sels := []struct {
		sel uint64
		l   string
	}{
		{0x06fdde03, "name"}, {0x95d89b41, "symbol"}, {0x313ce567, "decimals"}, {0x18160ddd, "totalSupply"},
		{0x70a08231, "balanceOf"}, {0xa9059cbb, "transfer"}, {0x23b872dd, "transferFrom"}, {0x095ea7b3, "approve"},
		{0xdd62ed3e, "allowance"}, {0x40c10f19, "mint"}, {0x41c0e1b5, "kill"},
	}
	a.Push(0).Op(opCALLDATALOAD).Push(224).Op(opSHR)
	for _, s := range sels {
		a.Op(opDUP1).Push(s.sel).Op(opEQ).JumpI(s.l)
	}
	a.Push(0).Push(0).Op(opREVERT)

	a.Label("name")
	str(name)
	a.Label("symbol")
	str(symbol)
	a.Label("decimals")
	retBool(uint64(decimals))
	a.Label("totalSupply")
	a.PushBig(tsSlot).Op(opSLOAD)
	ret()
	a.Label("balanceOf")
	addrArg(0)
	a.Op(opSLOAD)
	ret()
	a.Label("allowance")
	addrArg(0)
	a.Push(0).Op(opMSTORE)
	addrArg(1)
	a.Push(0x20).Op(opMSTORE)
	alSlot()
	a.Op(opSLOAD)
	ret()
	a.Label("approve")
	a.Op(opCALLER).Push(0).Op(opMSTORE)
	addrArg(0)
	a.Push(0x20).Op(opMSTORE)
	arg(1)
	alSlot()
	a.Op(opSSTORE)
	retBool(1)
	a.Label("mint")
	// balance[to] += amt ; total += amt
	addrArg(0)
	a.Op(opDUP1, opSLOAD)
	arg(1)
	a.Op(opADD, opSWAP1, opSSTORE)
	a.PushBig(tsSlot).Op(opSLOAD)
	arg(1)
	a.Op(opADD).PushBig(tsSlot).Op(opSSTORE)
	a.Op(opSTOP)

	a.Label("kill")
	a.Op(opCALLER, 0xff) // SELFDESTRUCT(caller)

	a.Label("transfer")
	a.Op(opCALLER)
	st(0x80)
	addrArg(0)
	st(0xa0)
	arg(1)
	st(0xc0)
	a.Jump("move")

	a.Label("transferFrom")
	addrArg(0)
	st(0x80)
	addrArg(1)
	st(0xa0)
	arg(2)
	st(0xc0)
	// allowance check: al < amt -> false
	ld(0x80)
	a.Push(0).Op(opMSTORE)
	a.Op(opCALLER).Push(0x20).Op(opMSTORE)
	ld(0xc0)
	alSlot()
	a.Op(opSLOAD) // [al, amt]
	a.Op(opLT)    // al < amt
	a.JumpI("fail")
	// balance check before spending the allowance
	ld(0xc0)
	ld(0x80)
	a.Op(opSLOAD, opLT)
	a.JumpI("fail")
	// allowance -= amt
	ld(0xc0)
	alSlot()
	a.Op(opSLOAD, opSUB) // al - amt
	alSlot()
	a.Op(opSSTORE)
	a.Jump("move")

	a.Label("move")
	// bal[from] < amt -> false
	ld(0xc0)
	ld(0x80)
	a.Op(opSLOAD, opLT)
	a.JumpI("fail")
	ld(0xc0)
	ld(0x80)
	a.Op(opSLOAD, opSUB) // bal - amt
	ld(0x80)
	a.Op(opSSTORE)
	ld(0xc0)
	ld(0xa0)
	a.Op(opSLOAD, opADD)
	ld(0xa0)
	a.Op(opSSTORE)
	retBool(1)

	a.Label("fail")
	retBool(0)
	_ = opDUP2
	return a.Bytes()
}

// softTokenAddr: the soft token is the first contract user/2 creates.
func softTokenInit(name, symbol string, decimals uint8) []byte {
	return InitCode(SoftTokenRuntime(name, symbol, decimals))
}

var _ = common.Address{}
