package sim

// GOV/MIGRATE engine (properties C14, C15, C16).
//
// gov_engine.go  world (own genesis patch: legacy secp256k1 accounts, extra denoms, gov burn
//                flags), signers, delivery, engine plumbing (GenConfig/Init/Gen/Apply/Check/Finish)
// gov_msgs.go    tx kinds (g_*) and the message "spec" mini language shared by all three properties
// gov_view.go    read-only snapshot of governance state + shared generator of gov/stake traffic
// gov_c15.go     deposit ledger, activation / period / quorum / atomicity oracles
// gov_c16.go     authority-bearing message enumeration, wrong-authority grid, CAS scenarios
// gov_c14.go     account migration: portfolios, refusals, residue scan, maturation liveness

import (
	"crypto/sha256"
	"encoding/json"
	"fmt"
	"math/rand/v2"
	"sort"
	"strings"
	"time"

	sdkmath "cosmossdk.io/math"
	dbm "github.com/cosmos/cosmos-db"
	"github.com/cosmos/cosmos-sdk/crypto/keys/secp256k1"
	cryptotypes "github.com/cosmos/cosmos-sdk/crypto/types"
	sdk "github.com/cosmos/cosmos-sdk/types"
	authtypes "github.com/cosmos/cosmos-sdk/x/auth/types"
	vestingtypes "github.com/cosmos/cosmos-sdk/x/auth/vesting/types"
	banktypes "github.com/cosmos/cosmos-sdk/x/bank/types"
	govv1 "github.com/cosmos/cosmos-sdk/x/gov/types/v1"

	fxtypes "github.com/functionx/fx-core/v8/types"
)

type GovEngine struct{}

func (GovEngine) Name() string { return "gov" }

// GovSt is the engine's model state.
type GovSt struct {
	Setup     []Step // pending setup steps (generation mode only)
	panicSeen map[uint64]bool
	NUser     int
	NVal      int
	NLeg      int // legacy (cosmos secp256k1) accounts leg/0..NLeg-1, funded at genesis
	Uniq      int // generator-side counter for unique markers / fresh key indices
	C15       *c15Model
	C16       *c16State
	C14       *c14Model
}

func gst(r *Run) *GovSt { return r.St.(*GovSt) }

func init() {
	RegisterEngine([]string{"C14", "C15", "C16"}, func() Engine { return GovEngine{} })
	gen := "seeded generation of histories (one run = one PRNG seed = one world configuration + one sequence of steps); "
	levels["C14"] = levelInfo{"exploration", gen + "distinct = hash of the (step shape, per-tx success) sequence; non-trivial = at least one MsgMigrateAccount was accepted or had to be refused for a reason named by the property"}
	levels["C15"] = levelInfo{"exploration", gen + "distinct = shape hash; non-trivial = at least one proposal ended (refund/burn judged) or entered its voting period (threshold judged)"}
	levels["C16"] = levelInfo{"fault_enumeration", "exhaustive over the grid {sdk.Msg types registered on the app's interface registry whose cosmos.msg.v1.signer is `authority` (enumerated at run time by protoreflect; crosschain types x every chain name)} x {payload shapes per type: hand-written valid, zero value with only the authority set, and degenerate-but-valid forms aimed at existing objects (delete-existing / delete-missing custom params, no-op / delete-form / repeated-key store updates, existing alias, empty lists)} x {authority classes: user key, other module account, validator-prefixed, upper-case, hex, empty} x {entry paths: signed tx, authz MsgExec (with and without grant), governance proposal, direct msg-router call}; every run covers a contiguous window of the grid (offset drawn from the seed) injected at random points of a seeded governance history, so a batch covers every cell many times; probes `msg:<type url>` list the enumerated types, `cell:<class>/<path>` the grid; non-trivial = at least one injection was judged; plus compare-and-set scenarios for MsgUpdateStore (fresh / stale / partially stale / the same key twice inside one message, stale and correctly chained / two competing passed proposals in both orders) and positive controls (same payload, governance authority, passed proposal)"}
}

// ---------------------------------------------------------------------------------------
// configuration

func (GovEngine) GenConfig(rng *rand.Rand, prop string, tier string) RunConfig {
	cfg := DefaultConfig()
	cfg.Validators = 2 + rng.IntN(3)
	cfg.ValStakeFX = nil
	for i := 0; i < cfg.Validators; i++ {
		cfg.ValStakeFX = append(cfg.ValStakeFX, int64(100_000+rng.IntN(900_000)))
	}
	cfg.Users = 5 + rng.IntN(3)
	cfg.UserFundFX = 10_000_000
	c := DefaultChainCfg("eth")
	c.Oracles = 1
	cfg.Chains = []ChainCfg{c}
	cfg.UnbondingSec = int64(600 + rng.IntN(3000))
	cfg.GovMinDepositFX = int64([]int{100, 500, 1000, 3000}[rng.IntN(4)])
	cfg.GovDepositSec = int64(300 + rng.IntN(3000))
	cfg.GovVotingSec = int64(300 + rng.IntN(3000))
	cfg.GovQuorumPct = int64([]int{5, 10, 25, 33, 40, 50}[rng.IntN(6)])
	cfg.NoInflation = true
	rc := RunConfig{World: cfg, Steps: 40 + rng.IntN(50), Weights: map[string]int{}, Knobs: map[string]string{}}
	if tier == "thorough" {
		rc.Steps = 60 + rng.IntN(120)
	}
	k := rc.Knobs
	k["burn_quorum"] = fmt.Sprint(rng.IntN(2))
	k["burn_veto"] = fmt.Sprint(rng.IntN(2))
	k["burn_prevote"] = fmt.Sprint(rng.IntN(2))
	k["min_initial_ratio"] = []string{"0", "0", "0.1", "0.5"}[rng.IntN(4)]
	k["legacy"] = "0"
	base := map[string]int{"submit": 10, "deposit": 15, "vote": 20, "time": 15, "stake": 8, "donate": 3, "custom": 4}
	switch prop {
	case "C15":
		cfg.NoInflation = rng.IntN(4) != 0
	case "C16":
		base = map[string]int{"submit": 5, "deposit": 5, "vote": 8, "time": 6, "stake": 4, "custom": 1, "inject": 30, "cas": 5, "positive": 6}
		rc.Steps = 25 + rng.IntN(25)
		k["grid_offset"] = fmt.Sprint(rng.IntN(1 << 20))
	case "C14":
		cfg.NoInflation = rng.IntN(5) == 0
		nLeg := 3 + rng.IntN(4)
		k["legacy"] = fmt.Sprint(nLeg)
		// some legacy sources are vesting accounts at genesis: idx:kind(d=delayed,c=continuous):end(sec after genesis):locked FX
		var vest []string
		for i := 1; i < nLeg; i++ {
			if rng.IntN(3) == 0 {
				end := []int{60, 400, 3000, 100_000, 5_000_000}[rng.IntN(5)]
				vest = append(vest, fmt.Sprintf("%d:%s:%d:%d", i, []string{"d", "c"}[rng.IntN(2)], end, []int{1, 1000, 400_000, 1_000_000}[rng.IntN(4)]))
			}
		}
		k["vest"] = strings.Join(vest, ",")
		base = map[string]int{"submit": 6, "deposit": 6, "vote": 8, "time": 10, "stake": 25, "migrate": 14, "custom": 0, "donate": 0}
		rc.Steps = 45 + rng.IntN(45)
	}
	rc.World = cfg
	for _, kk := range sortedKeysG(base) {
		v := base[kk]
		f := []int{1, 1, 1, 2, 3}[rng.IntN(5)]
		if rng.IntN(2) == 0 {
			rc.Weights[kk] = v * f
		} else {
			rc.Weights[kk] = (v + f - 1) / f
		}
	}
	return rc
}

func sortedKeysG[V any](m map[string]V) []string {
	ks := make([]string, 0, len(m))
	for k := range m {
		ks = append(ks, k)
	}
	sort.Strings(ks)
	return ks
}

// ---------------------------------------------------------------------------------------
// world with a patched genesis

var govExtraDenoms = []string{"usdt", "ibc/27394FB092D2ECCD56123C74F36E4C1F926001CEADA9CA97EA622B25F41E5EB2"}

func newGovWorld(rc RunConfig) (*World, error) {
	cfg := rc.World
	w := &World{Cfg: cfg, keys: map[string]*Key{}, AbsentVals: map[int]bool{}}
	w.DB = dbm.NewMemDB()
	w.App = NewApp(w.DB, cfg.NodeOpts)
	gen, err := w.buildGenesis()
	if err != nil {
		return nil, err
	}
	if gen, err = patchGovGenesis(w, gen, rc); err != nil {
		return nil, err
	}
	if err := w.InitChain(gen); err != nil {
		return nil, err
	}
	if _, halt := w.RunBlock(nil, 5*time.Second); halt != nil {
		return nil, fmt.Errorf("first block: %s %s", halt.Phase, halt.Msg)
	}
	return w, nil
}

func patchGovGenesis(w *World, gen []byte, rc RunConfig) ([]byte, error) {
	var gs map[string]json.RawMessage
	if err := json.Unmarshal(gen, &gs); err != nil {
		return nil, err
	}
	cdc := w.App.AppCodec()
	// gov: burn flags and initial-deposit ratio
	var govGen govv1.GenesisState
	cdc.MustUnmarshalJSON(gs["gov"], &govGen)
	govGen.Params.BurnVoteQuorum = rc.Knob("burn_quorum") == "1"
	govGen.Params.BurnVoteVeto = rc.Knob("burn_veto") == "1"
	govGen.Params.BurnProposalDepositPrevote = rc.Knob("burn_prevote") == "1"
	if v := rc.Knob("min_initial_ratio"); v != "" {
		govGen.Params.MinInitialDepositRatio = sdkmath.LegacyMustNewDecFromStr(v).String()
	}
	gs["gov"] = cdc.MustMarshalJSON(&govGen)
	// legacy accounts + extra denoms
	var authGen authtypes.GenesisState
	cdc.MustUnmarshalJSON(gs[authtypes.ModuleName], &authGen)
	accs, err := authtypes.UnpackAccounts(authGen.Accounts)
	if err != nil {
		return nil, err
	}
	var bankGen banktypes.GenesisState
	cdc.MustUnmarshalJSON(gs[banktypes.ModuleName], &bankGen)
	extra := func(i int) sdk.Coins {
		cs := sdk.NewCoins(sdk.NewCoin(fxtypes.DefaultDenom, FX(1_000_000)))
		for j, d := range govExtraDenoms {
			if (i+j)%3 != 0 {
				cs = cs.Add(sdk.NewCoin(d, sdkmath.NewInt(int64(1000*(i+1)+j))))
			}
		}
		return cs
	}
	vest := map[int][]string{}
	for _, v := range strings.Split(rc.Knob("vest"), ",") {
		if f := strings.Split(v, ":"); len(f) == 4 {
			var i int
			fmt.Sscan(f[0], &i)
			vest[i] = f
		}
	}
	for i := 0; i < rc.KnobInt("legacy", 0); i++ {
		a := gsign(w, KeyName("leg", i)).Addr
		base := authtypes.NewBaseAccount(a, nil, 0, 0)
		if f, ok := vest[i]; ok {
			var end, amt int64
			fmt.Sscan(f[2], &end)
			fmt.Sscan(f[3], &amt)
			locked := sdk.NewCoins(sdk.NewCoin(fxtypes.DefaultDenom, FX(amt)))
			bva, err := vestingtypes.NewBaseVestingAccount(base, locked, GenesisTime.Unix()+end)
			if err != nil {
				return nil, err
			}
			if f[1] == "d" {
				accs = append(accs, vestingtypes.NewDelayedVestingAccountRaw(bva))
			} else {
				accs = append(accs, vestingtypes.NewContinuousVestingAccountRaw(bva, GenesisTime.Unix()))
			}
		} else {
			accs = append(accs, base)
		}
		bankGen.Balances = append(bankGen.Balances, banktypes.Balance{Address: a.String(), Coins: extra(i)})
	}
	if rc.KnobInt("legacy", 0) > 0 {
		for i := 0; i < w.Cfg.Users; i++ { // users hold the extra denoms too (targets may be "used")
			for bi := range bankGen.Balances {
				if bankGen.Balances[bi].Address == w.Key("user", i).Bech() {
					bankGen.Balances[bi].Coins = bankGen.Balances[bi].Coins.Add(sdk.NewCoin(govExtraDenoms[0], sdkmath.NewInt(int64(777+i))))
				}
			}
		}
	}
	packed, err := authtypes.PackAccounts(accs)
	if err != nil {
		return nil, err
	}
	authGen.Accounts = packed
	gs[authtypes.ModuleName] = cdc.MustMarshalJSON(&authGen)
	bankGen.Supply = sdk.Coins{}
	gs[banktypes.ModuleName] = cdc.MustMarshalJSON(&bankGen)
	return json.Marshal(gs)
}

// ---------------------------------------------------------------------------------------
// signers: role "leg" is a cosmos secp256k1 key (the only kind x/migrate accepts as source),
// every other role is the framework's eth_secp256k1 key.

type gSigner struct {
	Priv cryptotypes.PrivKey
	Addr sdk.AccAddress
}

func gsign(w *World, name string) gSigner {
	role, idx := ParseKeyName(name)
	if role == "leg" {
		h := sha256.Sum256([]byte(fmt.Sprintf("fxsim/leg/%d", idx)))
		sk := &secp256k1.PrivKey{Key: h[:]}
		return gSigner{Priv: sk, Addr: sdk.AccAddress(sk.PubKey().Address())}
	}
	k := w.Key(role, idx)
	return gSigner{Priv: k.Priv, Addr: k.Acc()}
}

// gaddr resolves "role/idx", "mod:<module name>" or a literal bech32 address.
func gaddr(w *World, s string) (sdk.AccAddress, error) {
	switch {
	case strings.HasPrefix(s, "mod:"):
		return authtypes.NewModuleAddress(s[4:]), nil
	case strings.Contains(s, "/"):
		return gsign(w, s).Addr, nil
	}
	return sdk.AccAddressFromBech32(s)
}

func gmustAddr(w *World, s string) sdk.AccAddress {
	a, err := gaddr(w, s)
	if err != nil {
		panic(err) // builders run under safeBuild
	}
	return a
}

func (w *World) gSignTx(s gSigner, seqOffset, gas uint64, msgs ...sdk.Msg) ([]byte, error) {
	txCfg := w.App.GetTxConfig()
	b := txCfg.NewTxBuilder()
	if err := b.SetMsgs(msgs...); err != nil {
		return nil, err
	}
	if gas == 0 {
		gas = 5_000_000
	}
	b.SetGasLimit(gas)
	b.SetFeeAmount(sdk.NewCoins())
	num, seq := w.AccNumSeq(s.Addr)
	return signBuilder(txCfg, b, s.Priv, num, seq+seqOffset)
}

// govDeliver is DeliverBlock with the engine's signer resolution (legacy keys).
func govDeliver(w *World, txs []Tx, dt time.Duration, extraBlocks int) *BlockResult {
	br := &BlockResult{}
	var raws [][]byte
	var idx []int
	seqOff := map[string]uint64{}
	for i := range txs {
		t := &txs[i]
		oc := TxOutcome{Tx: t}
		b, ok := txBuilders[t.K]
		if !ok {
			oc.Note = "unknown tx kind " + t.K
			br.Out = append(br.Out, oc)
			continue
		}
		built, err := safeBuild(b, w, t)
		if err == nil && built.Eth {
			err = fmt.Errorf("eth tx not supported by the gov engine")
		}
		var raw []byte
		if err == nil {
			raw, err = w.gSignTx(gsign(w, t.S), seqOff[t.S], t.Gas, built.Msgs...)
		}
		if err != nil {
			oc.Note = "build: " + err.Error()
			br.Out = append(br.Out, oc)
			continue
		}
		seqOff[t.S]++
		oc.Built, oc.Bytes = true, raw
		br.Out = append(br.Out, oc)
		raws = append(raws, raw)
		idx = append(idx, len(br.Out)-1)
	}
	resp, halt := w.RunBlock(raws, dt)
	if halt != nil {
		br.Halt = halt
		return br
	}
	for ri, r := range resp.TxResults {
		br.Out[idx[ri]].Res = FromExec(r)
	}
	for i := 0; i < extraBlocks; i++ {
		if _, halt := w.RunBlock(nil, dt); halt != nil {
			br.Halt = halt
			return br
		}
	}
	return br
}

// ---------------------------------------------------------------------------------------
// engine plumbing

func (e GovEngine) Init(r *Run) error {
	w, err := newGovWorld(r.Cfg)
	if err != nil {
		return err
	}
	r.W = w
	st := &GovSt{NUser: r.Cfg.World.Users, NVal: r.Cfg.World.Validators, NLeg: r.Cfg.KnobInt("legacy", 0)}
	r.St = st
	st.C15 = newC15(r)
	switch r.Prop {
	case "C16":
		st.C16 = newC16(r)
	case "C14":
		st.C14 = newC14(r)
	}
	if !r.Replay {
		st.Setup = e.setupSteps(r)
	}
	return nil
}

// setupSteps: delegations by users (so that delegators carry voting power), then property
// specific preparation.
func (e GovEngine) setupSteps(r *Run) []Step {
	st := gst(r)
	rng := r.Rng
	var out []Step
	var dels []Tx
	for u := 0; u < st.NUser; u++ {
		if rng.IntN(3) == 0 {
			continue
		}
		dels = append(dels, Tx{K: "g_delegate", S: KeyName("user", u), A: A("val", rng.IntN(st.NVal), "amount", FX(int64(1000+rng.IntN(400_000))).String())})
	}
	// the community pool needs funds for spend proposals (no inflation in most runs)
	dels = append(dels, Tx{K: "g_fundpool", S: KeyName("user", 0), A: A("amount", FX(int64(10_000+rng.IntN(200_000))).String())})
	out = append(out, Step{Kind: "block", DtMs: 5000, N: 1, Txs: dels})
	if st.C14 != nil {
		out = append(out, st.C14.setupSteps(r)...)
	}
	if (r.Prop == "C15" || r.Cfg.Knob("c07_engine") == "gov") && rng.IntN(4) == 0 {
		// prelude: a passed proposal whose handler PANICS (recovered by the executor, recorded as the failure
		// reason). Governance first overwrites the eth bridge's approved-oracle record with bytes that do not
		// decode (a raw store update is allowed to do that), then proposes a new oracle list: the handler reads
		// the record. Nothing else in a governance world reads it.
		cur := gstoreGet(r.W, "eth", "38")
		yes := func(id int) Step {
			var votes []Tx
			for i := 0; i < st.NVal; i++ {
				votes = append(votes, Tx{K: "g_vote", S: KeyName("val", i), A: A("id", id, "opts", "1")})
			}
			return Step{Kind: "block", DtMs: 5000, N: 1, Txs: votes}
		}
		dep := FX(r.Cfg.World.GovMinDepositFX).String()
		wait := Step{Kind: "block", DtMs: (r.Cfg.World.GovVotingSec + 20) * 1000, N: 2}
		out = append(out,
			Step{Kind: "block", DtMs: 5000, N: 1, Txs: []Tx{{K: "g_submit", S: KeyName("user", 0), A: A("spec", gitem("store", "space", "eth", "key", "38", "old", cur, "new", "ffff"), "deposit", dep, "title", "overwrite")}}},
			yes(1), wait,
			Step{Kind: "block", DtMs: 5000, N: 1, Txs: []Tx{{K: "g_submit", S: KeyName("user", 0), A: A("spec", gitem("ccoracles", "chain", "eth", "n", 2), "deposit", dep, "title", "oracles")}}},
			yes(2), wait)
		// ... and a raw store update over three store spaces that passes, followed by one whose stated old values are
		// stale in all three (every space now holds a different value): the recorded failure names what was found
		out = append(out,
			Step{Kind: "block", DtMs: 5000, N: 1, Txs: []Tx{{K: "g_submit", S: KeyName("user", 0), A: A("spec", gitem("store", "space", "migrate|erc20|bsc", "key", "f7a1|f7a2|f7a3", "old", "||", "new", "a1a1|b2b2b2|c3"), "deposit", dep, "title", "three-spaces")}}},
			yes(3), wait,
			Step{Kind: "block", DtMs: 5000, N: 1, Txs: []Tx{{K: "g_submit", S: KeyName("user", 0), A: A("spec", gitem("store", "space", "migrate|erc20|bsc", "key", "f7a1|f7a2|f7a3", "old", "00|00|00", "new", "01|02|03"), "deposit", dep, "title", "three-spaces-stale")}}},
			yes(4), wait)
		r.Probe("gov-prelude-panicking-handler")
	}
	return out
}

func (e GovEngine) Gen(r *Run) Step {
	st := gst(r)
	if len(st.Setup) > 0 {
		s := st.Setup[0]
		st.Setup = st.Setup[1:]
		return s
	}
	for try := 0; try < 20; try++ {
		kind := Weighted(r.Rng, r.Cfg.Weights)
		if s, ok := e.genKind(r, kind); ok {
			return s
		}
	}
	return Step{Kind: "block", DtMs: 5000, N: 1}
}

func (e GovEngine) genKind(r *Run, kind string) (Step, bool) {
	st := gst(r)
	switch kind {
	case "inject", "cas", "positive":
		if st.C16 != nil {
			return st.C16.gen(r, kind)
		}
	case "migrate":
		if st.C14 != nil {
			return st.C14.genMigrate(r)
		}
	case "stake":
		if st.C14 != nil {
			return st.C14.genStake(r)
		}
		return genGovTraffic(r, kind)
	default:
		return genGovTraffic(r, kind)
	}
	return Step{}, false
}

func (e GovEngine) Apply(r *Run, s *Step) *Outcome {
	st := gst(r)
	w := r.W
	o := &Outcome{Extra: map[string]string{}}
	st.C15.before(r, s)
	if st.C14 != nil {
		st.C14.before(r, s)
	}
	t0 := w.Now
	switch s.Kind {
	case "block":
		n := s.N
		if n < 1 {
			n = 1
		}
		dt := time.Duration(s.DtMs) * time.Millisecond
		if dt <= 0 {
			dt = 5 * time.Second
		}
		if st.C16 != nil {
			st.C16.mirror(func(tw *World) *HaltInfo { return govDeliver(tw, cloneTxs(s.Txs), dt, n-1).Halt })
		}
		br := govDeliver(w, s.Txs, dt, n-1)
		o.Txs, o.Halt = br.Out, br.Halt
	case "govpass": // a whole proposal (submit by val/0, all validators vote yes, wait) from a spec
		msgs, err := gspecMsgs(w, s.A.Str("spec"), w.GovAuthority())
		if err != nil {
			o.Note = "spec: " + err.Error()
			break
		}
		if st.C16 != nil {
			st.C16.mirror(func(tw *World) *HaltInfo {
				if tm, err := gspecMsgs(tw, s.A.Str("spec"), tw.GovAuthority()); err == nil {
					return tw.PassProposal("p:"+s.A.Str("spec"), tm, 5*time.Second).Halt
				}
				return nil
			})
		}
		gr := w.PassProposal("p:"+s.A.Str("spec"), msgs, 5*time.Second)
		o.Halt = gr.Halt
		o.Note = gr.Status + " " + gr.Note
		o.Extra["status"] = gr.Status
	case "inject", "cas", "positive":
		if st.C16 != nil {
			st.C16.apply(r, s, o)
		}
	default:
		o.Note = "unknown step kind"
	}
	r.SimTimeMs += w.Now.Sub(t0).Milliseconds()
	return o
}

func (e GovEngine) Check(r *Run, s *Step, o *Outcome) []Violation {
	st := gst(r)
	if o != nil && o.Halt != nil {
		r.Foreign = "halt:" + o.Halt.Site
		return nil
	}
	// reach: a passed proposal whose handler panicked (recovered by the executor)
	if gv := readGovView(r.W, r.W.Ctx()); gv != nil {
		for _, id := range gv.IDs {
			if p := gv.Props[id]; p.Status == govv1.StatusFailed && strings.Contains(strings.ToLower(p.Failed), "panic") && !st.panicSeen[id] {
				if st.panicSeen == nil {
					st.panicSeen = map[uint64]bool{}
				}
				st.panicSeen[id] = true
				r.Probe("gov-handler-panicked-and-was-recovered")
			}
		}
	}
	// the deposit ledger runs for every property (it also feeds the generator)
	vs15 := st.C15.check(r, s, o)
	switch r.Prop {
	case "C15":
		return vs15
	case "C16":
		return st.C16.check(r, s, o)
	case "C14":
		return st.C14.check(r, s, o)
	}
	return nil
}

func (e GovEngine) Finish(r *Run) []Violation {
	st := gst(r)
	switch r.Prop {
	case "C14":
		return st.C14.finish(r)
	case "C16":
		return st.C16.finish(r)
	}
	return nil
}

func gviol(inv, site, format string, a ...interface{}) Violation {
	return Violation{Invariant: inv, Site: site, Message: fmt.Sprintf(format, a...)}
}
