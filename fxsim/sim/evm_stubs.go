package sim
