package sim

type c08Model struct{}

func newC08() *c08Model                                               { return &c08Model{} }
func (m *c08Model) before(r *Run, s *Step)                            {}
func (m *c08Model) check(r *Run, s *Step, o *Outcome) []Violation     { return nil }
func (e EvmEngine) genC08(r *Run) Step                                { return Step{Kind: "block", DtMs: 5000, N: 1} }
