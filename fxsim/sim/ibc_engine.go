package sim

import (
	"crypto/sha256"
	"encoding/hex"
	"encoding/json"
	"fmt"
	"math/big"
	"math/rand/v2"
	"sort"
	"strconv"
	"strings"
	"time"

	sdkmath "cosmossdk.io/math"
	sdk "github.com/cosmos/cosmos-sdk/types"
	"github.com/cosmos/cosmos-sdk/types/bech32"
	authtypes "github.com/cosmos/cosmos-sdk/x/auth/types"
	transfertypes "github.com/cosmos/ibc-go/v8/modules/apps/transfer/types"
	"github.com/ethereum/go-ethereum/common"

	fxtypes "github.com/functionx/fx-core/v8/types"
	cctypes "github.com/functionx/fx-core/v8/x/crosschain/types"
	erc20types "github.com/functionx/fx-core/v8/x/erc20/types"
)

// ---------------------------------------------------------------------------------------
// IBC engine (C19): two loop-back channel pairs over 09-localhost, a seeded relayer that
// relays / delays / drops / duplicates / reorders real MsgRecvPacket, MsgAcknowledgement and
// MsgTimeout transactions, users that start ICS-20 transfers from Cosmos accounts and from the
// EVM (crossChain precompile with an IBC target), and governance that registers token pairs.

type IbcEngine struct{}

func (IbcEngine) Name() string { return "ibc" }

func init() {
	RegisterEngine([]string{"C19", "C18-ibc"}, func() Engine { return IbcEngine{} })
	levels["C19"] = levelInfo{"exploration", "seeded generation of IBC histories (one run = one PRNG seed = one world configuration: validators, users, voucher registration mode, EVM transfer timeout, enabled relayer faults, action weights + one sequence of steps: ICS-20 transfers from Cosmos accounts and from the EVM over two 09-localhost loop-back channel pairs with drawn denoms / receivers / amounts / memos / timeouts, and relayer decisions relay / delay / drop / duplicate / reorder / forge for MsgRecvPacket, MsgAcknowledgement, MsgTimeout, clock jumps); distinct = hash of the (step shape, per-tx success) sequence; non-trivial = at least one packet was settled (acknowledged or timed out) during the run"}
	levels["C18-ibc"] = levelInfo{"exploration", ibcC18Rule}
}

const ibcC18Rule = "IBC boundary of C18 on the IBC engine's world: seeded histories of ICS-20 packets (native FX returning home, vouchers credited as ERC-20 of a module-owned or an externally owned token pair) whose memo is a call to a recorder contract that fails late (REVERT after its writes, REVERT with data, INVALID opcode, out of gas, with and without value), next to calls that succeed, malformed memos and senders without account; every failing call must give an error acknowledgement and the full store dump before/after the relay block must be equal except IBC core's receipt/ack keys; distinct = hash of (step shapes, tx success); non-trivial = at least one packet with a failing memo call was received and judged"

// ibcMemoType is the Any type URL of the memo call packet.
const ibcMemoType = "/fx.ibc.applications.transfer.v1.IbcCallEvmPacket"

type ibcTxFact struct {
	Tx       *Tx
	Res      *TxResult
	Pkt      *ibcPacket
	Class    string // what happened, see classify
	MustFail string // reason why IBC core has to reject this relay tx ("" = may succeed)
	Memo     *ibcMemo
	Credit   string // description of the expected credit (for messages)
}

type ibcStepFacts struct {
	Pre         Dump
	RelayOnly   bool
	Height      int64
	Time        time.Time
	CalleeCount uint64
	Txs         []ibcTxFact
	Viol        []Violation // violations found while attributing results
	Touched     []common.Address
}

type IbcSt struct {
	Pkts  map[string]*ibcPacket
	Order []string
	Setup []Step
	NUser int
	Chans []string // all channel ids of the run (pair k = channel-2k / channel-2k+1)
	C18   bool

	Callee    common.Address
	HasCallee bool
	Token     common.Address // own FIP20 proxy (native ERC-20 token pair once registered)
	HasToken  bool
	WFX       common.Address

	Tokens    []common.Address
	ERC       map[common.Address]map[common.Address]*big.Int
	Supply    map[common.Address]*big.Int
	FX        map[common.Address]*big.Int
	Holders   []common.Address
	holderSet map[common.Address]bool
	System    []common.Address // module / contract accounts judged at every step
	Sweep     bool

	Callers map[common.Address]string // memo-call CALLER -> "port/channel|sender"
	Last    *ibcStepFacts

	// generator memory (never read by Apply / Check)
	FundedInt map[string]bool
}

func ibcState(r *Run) *IbcSt { return r.St.(*IbcSt) }

var ibcFaultKinds = []string{"packet-loss", "dup-recv", "dup-ack", "dup-timeout", "reorder", "clock-jump", "forged-ack", "tamper-recv", "early-timeout"}

func (IbcEngine) GenConfig(rng *rand.Rand, prop string, tier string) RunConfig {
	cfg := DefaultConfig()
	cfg.Validators = 1 + rng.IntN(3)
	cfg.ValStakeFX = nil
	for i := 0; i < cfg.Validators; i++ {
		cfg.ValStakeFX = append(cfg.ValStakeFX, int64(500_000+rng.IntN(1_000_000)))
	}
	cfg.Users = 3 + rng.IntN(3)
	cfg.GovVotingSec = int64(120 + rng.IntN(600))
	cfg.GovDepositSec = cfg.GovVotingSec
	cfg.NoInflation = true
	rc := RunConfig{World: cfg, Steps: 45 + rng.IntN(60), Weights: map[string]int{}, Knobs: map[string]string{}}
	if tier == "thorough" {
		rc.Steps = 60 + rng.IntN(140)
	}
	rc.Knobs["v3"] = []string{"base", "base", "alias", "none"}[rng.IntN(4)]
	// some runs open seven channel pairs (ids up to channel-13) and steer EVM-started transfers
	// so that (channel-1, seq 1y) and (channel-1x, seq y) are in flight together
	rc.Knobs["pairs"] = []string{"2", "2", "7"}[rng.IntN(3)]
	rc.Knobs["ibc_timeout_s"] = []string{"30", "600", "43200"}[rng.IntN(3)]
	for _, f := range ibcFaultKinds {
		if rng.IntN(100) < 55 {
			rc.Faults = append(rc.Faults, f)
		}
	}
	base := map[string]int{"xfer": 14, "evm": 16, "relay": 40, "jump": 3, "empty": 4, "fundint": 3, "toggle": 4, "collide": 0}
	if rc.Knobs["pairs"] == "7" {
		base["collide"] = 8
	}
	if rng.IntN(2) == 0 { // governance toggles token pairs only in half of the runs
		base["toggle"] = 0
	}
	if ibcC18(prop) {
		rc.Knobs["pairs"] = "2"
		rc.Faults = nil
		for _, f := range []string{"dup-recv", "reorder", "clock-jump"} {
			if rng.IntN(100) < 40 {
				rc.Faults = append(rc.Faults, f)
			}
		}
		base = map[string]int{"xfer": 30, "evm": 8, "relay": 45, "jump": 1, "empty": 2, "fundint": 4, "toggle": 0, "collide": 0}
		if rng.IntN(2) == 0 {
			base["toggle"] = 3 // a token pair switched off makes the conversion step of an inbound packet fail
		}
	}
	for _, k := range sortedKeys(base) {
		v := base[k]
		f := []int{1, 1, 1, 2, 3}[rng.IntN(5)]
		if rng.IntN(2) == 0 {
			rc.Weights[k] = v * f
		} else {
			rc.Weights[k] = (v + f - 1) / f
		}
	}
	if !rc.FaultOn("clock-jump") {
		rc.Weights["jump"] = 0
	}
	if _, ok := rc.Weights["collide"]; !ok {
		rc.Weights["collide"] = 0
	}
	return rc
}

// ibcChannelList: pair k is (channel-2k, channel-2k+1); both ends are this app.
func ibcChannelList(pairs int) []string {
	var l []string
	for i := 0; i < 2*pairs; i++ {
		l = append(l, fmt.Sprintf("channel-%d", i))
	}
	return l
}

func ibcPeer(ch string) string {
	n, err := strconv.Atoi(ibcChanNum(ch))
	if err != nil || n < 0 {
		return ""
	}
	return fmt.Sprintf("channel-%d", n^1)
}

// ibcC18: the engine serves property C18's IBC boundary (a packet whose follow-up call
// fails) instead of C19: same world, workload biased to memo calls that fail late, and only
// the C18 oracles are reported.
func ibcC18(prop string) bool { return prop == "C18" || prop == "C18-ibc" }

// NewIbcEngineForC18 is the engine to run with r.Prop == "C18" (GenConfig(prop "C18"), Init,
// Gen, Apply, Check, Finish all look at the property name).
func NewIbcEngineForC18() Engine { return IbcEngine{} }

func ibcV(ch string) string { return ibcVoucherDenom(ibcPort+"/"+ch, fxtypes.DefaultDenom) }

func (e IbcEngine) Init(r *Run) error {
	e18 := sdkmath.NewIntWithDecimal(1, 18)
	seeds := []ibcSeed{{Chan: "channel-1", PeerChan: "channel-0", Module: e18.MulRaw(1_000_000), PerUser: e18.MulRaw(1000)}}
	if r.Cfg.Knob("v3") == "alias" {
		seeds = append(seeds, ibcSeed{Chan: "channel-3", PeerChan: "channel-2", Module: e18.MulRaw(1_000_000), PerUser: e18.MulRaw(1000)})
	}
	w, err := newIbcWorld(r.Cfg.World, seeds, e18.MulRaw(1_000_000))
	if err != nil {
		return err
	}
	r.W = w
	pairs := r.Cfg.KnobInt("pairs", 2)
	if pairs < 2 {
		pairs = 2
	}
	st := &IbcSt{Pkts: map[string]*ibcPacket{}, NUser: r.Cfg.World.Users, Chans: ibcChannelList(pairs), C18: ibcC18(r.Prop),
		ERC: map[common.Address]map[common.Address]*big.Int{}, Supply: map[common.Address]*big.Int{}, FX: map[common.Address]*big.Int{},
		holderSet: map[common.Address]bool{}, Callers: map[common.Address]string{}, FundedInt: map[string]bool{}}
	r.St = st
	installIbcBuilders(st)
	ctx := w.Ctx()
	if pair, ok := w.App.Erc20Keeper.GetTokenPair(ctx, fxtypes.DefaultDenom); ok {
		st.WFX = pair.GetERC20Contract()
	}
	for i := 0; i < st.NUser; i++ {
		st.addHolder(w, w.Key("user", i).Hex())
	}
	for i := 0; i < 2; i++ {
		st.addHolder(w, w.Key("adv", i).Hex())
	}
	st.addHolder(w, w.Key("relayer", 0).Hex())
	for _, m := range []string{erc20types.ModuleName, transfertypes.ModuleName, authtypes.FeeCollectorName} {
		st.System = append(st.System, common.BytesToAddress(authtypes.NewModuleAddress(m)))
	}
	st.System = append(st.System, cctypes.GetAddress(), st.WFX)
	for _, a := range st.System {
		st.addHolder(w, a)
	}
	st.trackToken(w, st.WFX)
	if !r.Replay {
		st.Setup = e.setupSteps(r, st)
	}
	return nil
}

// ---------------------------------------------------------------------------------------
// ledgers: expected ERC-20 balances of the tracked token pairs and expected native FX
// balances of every address that takes part in a transfer.

func (st *IbcSt) addHolder(w *World, a common.Address) {
	if st.holderSet[a] {
		return
	}
	st.holderSet[a] = true
	st.Holders = append(st.Holders, a)
	ctx := w.Ctx()
	st.FX[a] = w.App.BankKeeper.GetBalance(ctx, a.Bytes(), fxtypes.DefaultDenom).Amount.BigInt()
	for _, t := range st.Tokens {
		st.ERC[t][a] = ibcErc20Balance(w, ctx, t, a)
	}
}

func (st *IbcSt) trackToken(w *World, t common.Address) {
	if _, ok := st.ERC[t]; ok || t == (common.Address{}) {
		return
	}
	ctx := w.Ctx()
	st.Tokens = append(st.Tokens, t)
	st.ERC[t] = map[common.Address]*big.Int{}
	for _, h := range st.Holders {
		st.ERC[t][h] = ibcErc20Balance(w, ctx, t, h)
	}
	st.Supply[t] = ibcErc20Supply(w, ctx, t)
}

// resync re-reads the native balances (after governance steps, which move deposits).
func (st *IbcSt) resyncFX(w *World) {
	ctx := w.Ctx()
	for _, h := range st.Holders {
		st.FX[h] = w.App.BankKeeper.GetBalance(ctx, h.Bytes(), fxtypes.DefaultDenom).Amount.BigInt()
	}
}

func (st *IbcSt) addFX(a common.Address, d *big.Int) {
	if v, ok := st.FX[a]; ok {
		st.FX[a] = new(big.Int).Add(v, d)
	}
}

func (st *IbcSt) addERC(t, a common.Address, d *big.Int, supply bool) {
	m, ok := st.ERC[t]
	if !ok {
		return
	}
	if v, ok := m[a]; ok {
		m[a] = new(big.Int).Add(v, d)
	}
	if supply {
		st.Supply[t] = new(big.Int).Add(st.Supply[t], d)
	}
}

// ibcParseAddr is the harness' own reading of an ICS-20 receiver: any bech32 string or an
// EIP-55 check-summed hex address.
func ibcParseAddr(s string) (common.Address, bool, bool) {
	if _, bz, err := bech32.DecodeAndConvert(s); err == nil && len(bz) == 20 {
		return common.BytesToAddress(bz), false, true
	}
	if len(s) == 42 && strings.HasPrefix(s, "0x") && common.IsHexAddress(s) && common.HexToAddress(s).Hex() == s {
		return common.HexToAddress(s), true, true
	}
	return common.Address{}, false, false
}

// ibcIntermediate re-derives the memo-call sender independently of x/ibc/middleware/types:
// last 20 bytes of sha256(sha256("port/channel") || sender).
func ibcIntermediate(port, channel, sender string) common.Address {
	th := sha256.Sum256([]byte(port + "/" + channel))
	h := sha256.New()
	h.Write(th[:])
	h.Write([]byte(sender))
	return common.BytesToAddress(h.Sum(nil))
}

type ibcMemo struct {
	To    common.Address
	Data  []byte
	Value *big.Int
}

func (f *ibcTxFact) memoData() []byte {
	if f.Memo == nil {
		return nil
	}
	return f.Memo.Data
}

func ibcMemoString(to string, dataHex string, value string) string {
	return fmt.Sprintf(`{"@type":"%s","to":"%s","data":"%s","value":"%s"}`, ibcMemoType, to, dataHex, value)
}

// ibcParseMemo recognises exactly the canonical memo-call form produced by ibcMemoString
// with a well-formed target, data and value; anything else is not asserted on.
func ibcParseMemo(memo string) *ibcMemo {
	var m struct {
		Type  string `json:"@type"`
		To    string `json:"to"`
		Data  string `json:"data"`
		Value string `json:"value"`
	}
	if json.Unmarshal([]byte(memo), &m) != nil || m.Type != ibcMemoType {
		return nil
	}
	if ibcMemoString(m.To, m.Data, m.Value) != memo {
		return nil
	}
	to, isHex, ok := ibcParseAddr(m.To)
	if !ok || !isHex {
		return nil
	}
	data, err := hex.DecodeString(m.Data)
	if err != nil {
		return nil
	}
	v, ok := new(big.Int).SetString(m.Value, 10)
	if !ok || v.Sign() < 0 {
		return nil
	}
	return &ibcMemo{To: to, Data: data, Value: v}
}

// ---------------------------------------------------------------------------------------
// apply

func (e IbcEngine) Apply(r *Run, s *Step) *Outcome {
	st := ibcState(r)
	w := r.W
	o := &Outcome{Extra: map[string]string{}}
	facts := &ibcStepFacts{}
	st.Last = facts
	switch s.Kind {
	case "block":
		n := s.N
		if n < 1 {
			n = 1
		}
		dt := time.Duration(s.DtMs) * time.Millisecond
		if dt <= 0 {
			dt = 5 * time.Second
		}
		e.prescan(r, s, facts)
		facts.Height = w.Height + 1
		facts.Time = w.Now.Add(dt)
		br := w.DeliverBlock(s.Txs, dt, n-1)
		o.Txs = br.Out
		o.Halt = br.Halt
		r.SimTimeMs += int64(n) * dt.Milliseconds()
		if dt > time.Minute {
			r.Fault("clock-jump")
		}
		if br.Halt == nil {
			e.attribute(r, o, facts)
		}
	case "gov":
		e.applyGov(r, s, o)
	default:
		o.Note = "unknown step kind"
	}
	return o
}

// prescan registers, with their pre-block balances, all addresses that the block can credit.
func (e IbcEngine) prescan(r *Run, s *Step, facts *ibcStepFacts) {
	st := ibcState(r)
	w := r.W
	relay := len(s.Txs) > 0
	touch := func(a common.Address) {
		st.addHolder(w, a)
		facts.Touched = append(facts.Touched, a)
	}
	for i := range s.Txs {
		t := &s.Txs[i]
		if t.A == nil {
			t.A = Args{}
		}
		touch(w.KeyByName(t.S).Hex())
		switch t.K {
		case "bank_send":
			relay = false
			if a, _, ok := ibcParseAddr(t.A.Str("to")); ok {
				touch(a)
			}
		case "ibc_transfer":
			relay = false
			if a, _, ok := ibcParseAddr(t.A.Str("receiver")); ok {
				touch(a)
			}
		case "eth_call":
			relay = false
			if a, _, ok := ibcParseAddr(t.A.Str("receipt")); ok {
				touch(a)
			}
			if t.A.Has("mint_to") {
				touch(common.HexToAddress(t.A.Str("mint_to")))
			}
			if t.A.Str("to") != "" {
				touch(common.HexToAddress(t.A.Str("to")))
			}
		case "ibc_recv", "ibc_ack", "ibc_timeout":
			if p := st.Pkts[t.A.Str("pkt")]; p != nil && p.RawOK {
				if a, _, ok := ibcParseAddr(p.Data.Receiver); ok {
					touch(a)
				}
				if a, _, ok := ibcParseAddr(p.Data.Sender); ok {
					touch(a)
				}
				touch(ibcIntermediate(p.Pkt.SourcePort, p.Pkt.SourceChannel, p.Data.Sender))
				if m := ibcParseMemo(p.Data.Memo); m != nil {
					touch(m.To)
				}
			}
		default:
			relay = false
		}
	}
	facts.RelayOnly = relay
	if relay {
		facts.Pre = w.Dump()
	}
	facts.CalleeCount = st.calleeCount(w)
}

func (st *IbcSt) calleeIsContract(w *World) bool {
	if !st.HasCallee {
		return false
	}
	acc := w.App.EvmKeeper.GetAccount(w.Ctx(), st.Callee)
	return acc != nil && acc.IsContract()
}

func (st *IbcSt) calleeCount(w *World) uint64 {
	if !st.HasCallee {
		return 0
	}
	h := w.App.EvmKeeper.GetState(w.Ctx(), st.Callee, common.BigToHash(big.NewInt(1)))
	return new(big.Int).SetBytes(h.Bytes()).Uint64()
}

func (st *IbcSt) calleeCaller(w *World) common.Address {
	h := w.App.EvmKeeper.GetState(w.Ctx(), st.Callee, common.Hash{})
	return common.BytesToAddress(h.Bytes())
}

func ibcBig(s string) *big.Int {
	n, ok := new(big.Int).SetString(s, 10)
	if !ok {
		return big.NewInt(0)
	}
	return n
}

func ibcNeg(n *big.Int) *big.Int { return new(big.Int).Neg(n) }

// ibcElapsed: has the packet's timeout passed at (height, time)?
func ibcElapsed(p *ibcPacket, height int64, now time.Time) bool {
	th := p.Pkt.TimeoutHeight
	if !th.IsZero() && uint64(height) >= th.RevisionHeight {
		return true
	}
	if p.Pkt.TimeoutTimestamp != 0 && uint64(now.UnixNano()) >= p.Pkt.TimeoutTimestamp {
		return true
	}
	return false
}

// attribute walks the tx results in block order, updates the relayer's packet table and the
// ledgers with what each result announces, and records the facts the oracles judge.
func (e IbcEngine) attribute(r *Run, o *Outcome, facts *ibcStepFacts) {
	st := ibcState(r)
	w := r.W
	for i := range o.Txs {
		oc := &o.Txs[i]
		f := ibcTxFact{Tx: oc.Tx, Res: oc.Res, Class: "other"}
		if oc.Tx == nil || !oc.Built || oc.Res == nil {
			f.Class = "not-built"
			facts.Txs = append(facts.Txs, f)
			continue
		}
		t := oc.Tx
		ok := oc.Res.OK()
		sender := w.KeyByName(t.S).Hex()
		switch t.K {
		case "bank_send":
			if ok && t.A.Str("denom") == fxtypes.DefaultDenom {
				st.addFX(sender, ibcNeg(t.A.Big("amount")))
				if a, _, pok := ibcParseAddr(t.A.Str("to")); pok {
					st.addFX(a, t.A.Big("amount"))
				}
			}
		case "ibc_transfer":
			f.Class = "xfer-fail"
			if ok {
				f.Class = "xfer"
				if t.A.Str("denom") == fxtypes.DefaultDenom {
					st.addFX(sender, ibcNeg(t.A.Big("amount")))
				}
				for _, p := range ibcPacketsFromEvents(oc.Res) {
					st.newPacket(r, p)
					f.Pkt = p
				}
			}
		case "eth_call":
			e.attributeEth(r, oc, &f, sender)
		case "ibc_recv":
			e.attributeRecv(r, oc, &f, facts)
		case "ibc_ack", "ibc_timeout":
			e.attributeSettle(r, oc, &f, facts)
		}
		facts.Txs = append(facts.Txs, f)
	}
}

func (st *IbcSt) newPacket(r *Run, p *ibcPacket) {
	if _, dup := st.Pkts[p.ID]; dup {
		return
	}
	p.Step = r.StepNo
	st.Pkts[p.ID] = p
	st.Order = append(st.Order, p.ID)
	r.Probe("packet-sent")
}

func (e IbcEngine) attributeEth(r *Run, oc *TxOutcome, f *ibcTxFact, sender common.Address) {
	st := ibcState(r)
	w := r.W
	t := oc.Tx
	ok := oc.Res.OK()
	what := t.A.Str("what")
	f.Class = "eth-" + what
	if !ok {
		f.Class += "-fail"
		return
	}
	value := t.A.Big("value")
	switch what {
	case "deploy":
		// the step names the address it expects the contract at; adopt it only if code is there
		a := common.HexToAddress(t.A.Str("addr"))
		acc := w.App.EvmKeeper.GetAccount(w.Ctx(), a)
		if acc == nil || !acc.IsContract() {
			return
		}
		st.addHolder(w, a)
		switch t.A.Str("role") {
		case "callee":
			st.Callee, st.HasCallee = a, true
		case "token":
			st.Token, st.HasToken = a, true
		}
	case "mint":
		if st.HasToken && common.HexToAddress(t.A.Str("to")) == st.Token {
			st.addERC(st.Token, common.HexToAddress(t.A.Str("mint_to")), t.A.Big("mint_amount"), true)
		}
	case "deposit":
		if common.HexToAddress(t.A.Str("to")) == st.WFX {
			st.addFX(sender, ibcNeg(value))
			st.addFX(st.WFX, value)
			st.addERC(st.WFX, sender, value, true)
		}
	case "crosschain":
		amount := t.A.Big("amount")
		token := common.HexToAddress(t.A.Str("token"))
		origin := token == (common.Address{})
		if origin {
			st.addFX(sender, ibcNeg(amount))
		} else if token == st.WFX {
			// WFX is burnt, the backing FX leaves the WFX contract (and is escrowed by ICS-20)
			st.addERC(token, sender, ibcNeg(amount), true)
			st.addFX(st.WFX, ibcNeg(amount))
			// the FX travels as it is (fix b1a0ac0: before it, BaseCoinToIBCCoin burnt the sender's FX and paid the same
			// amount out of the transfer module account, which the ledger used to mirror): whatever FX the transfer
			// module account itself holds is not touched
		} else {
			// native ERC-20 pair: tokens are escrowed by the erc20 module
			st.addERC(token, sender, ibcNeg(amount), false)
			st.addERC(token, common.BytesToAddress(authtypes.NewModuleAddress(erc20types.ModuleName)), amount, false)
		}
		for _, p := range ibcPacketsFromEvents(oc.Res) {
			p.FromEVM, p.Origin, p.Token, p.EvmFrom = true, origin, token.Hex(), sender.Hex()
			st.newPacket(r, p)
			f.Pkt = p
			if origin {
				r.Probe("evm-send-origin")
			} else {
				r.Probe("evm-send")
			}
		}
	default:
		if value.Sign() > 0 && t.A.Str("to") != "" {
			st.addFX(sender, ibcNeg(value))
			st.addFX(common.HexToAddress(t.A.Str("to")), value)
		}
	}
}

// pairOf resolves the token pair a received denom is credited as (read from the app) and
// whether the ERC-20 side is minted (module-owned contract) or released from the erc20
// module's escrow (externally owned contract).
func (st *IbcSt) pairOf(w *World, denom string) (common.Address, bool, bool) {
	ctx := w.Ctx()
	if pair, ok := w.App.Erc20Keeper.GetTokenPair(ctx, denom); ok {
		return pair.GetERC20Contract(), pair.IsNativeERC20(), true
	}
	if base, err := w.App.EthKeeper.GetBaseDenom(ctx, denom); err == nil {
		if pair, ok := w.App.Erc20Keeper.GetTokenPair(ctx, base); ok {
			return pair.GetERC20Contract(), pair.IsNativeERC20(), true
		}
	}
	return common.Address{}, false, false
}

// ibcReceiveDenom: the denom an ICS-20 packet is credited in on the receiving end.
func ibcReceiveDenom(p *ibcPacket) string {
	d := p.Data.Denom
	pre := p.Pkt.SourcePort + "/" + p.Pkt.SourceChannel + "/"
	if strings.HasPrefix(d, pre) {
		u := d[len(pre):]
		tr := transfertypes.ParseDenomTrace(u)
		if tr.IsNativeDenom() {
			return u
		}
		return tr.IBCDenom()
	}
	return transfertypes.ParseDenomTrace(p.Pkt.DestinationPort + "/" + p.Pkt.DestinationChannel + "/" + d).IBCDenom()
}

func (e IbcEngine) attributeRecv(r *Run, oc *TxOutcome, f *ibcTxFact, facts *ibcStepFacts) {
	st := ibcState(r)
	w := r.W
	t := oc.Tx
	p := st.Pkts[t.A.Str("pkt")]
	f.Pkt = p
	if p == nil {
		return
	}
	tampered := t.A.Str("tamper") != ""
	switch {
	case tampered:
		f.MustFail = "packet data differs from the commitment"
	case p.Settled != "":
		// commitment is gone: IBC core answers with a no-op or an error, never with a callback
	case p.Recvd:
	case ibcElapsed(p, facts.Height, facts.Time):
		f.MustFail = "timeout elapsed on the receiving end"
	}
	if !oc.Res.OK() {
		f.Class = "recv-fail"
		if tampered {
			r.Fault("tamper-recv")
		}
		return
	}
	p.NRecv++
	ack := ibcAckFromEvents(oc.Res, p.ID)
	if ack == nil {
		f.Class = "recv-noop"
		if p.Recvd {
			r.Fault("dup-recv")
		}
		return
	}
	if f.MustFail != "" {
		f.Class = "recv-accepted"
		return
	}
	if p.Recvd {
		facts.Viol = append(facts.Viol, Violation{Invariant: "recv-exactly-once", Site: "ibc_recv:second-callback",
			Message: fmt.Sprintf("packet %s was passed to the application a second time (ack %s)", p.ID, ack)})
	}
	p.Recvd = true
	p.Ack = ack
	okAck, decoded := ibcAckSuccess(ack)
	p.AckOK = okAck && decoded
	f.Memo = ibcParseMemo(p.Data.Memo)
	// C18 (IBC boundary): a memo call whose EVM execution fails is a tolerated failure whose
	// designated outcome is the error acknowledgement
	expectFail := f.Memo != nil && st.HasCallee && f.Memo.To == st.Callee && st.calleeIsContract(w) && ibcCalleeFails(f.Memo.Data)
	evFail := false
	for _, ev := range oc.Res.Events {
		if strings.HasSuffix(ev.Type, "ibc_call") {
			for _, a := range ev.Attributes {
				if strings.HasSuffix(a.Key, "ibc_call_success") && a.Value == "false" {
					evFail = true
				}
			}
		}
	}
	if expectFail || evFail {
		r.Probe("failing-memo-call-received")
		if st.C18 {
			r.Nontrivial = true
		}
		if p.AckOK {
			why := "the recorder contract fails for call data " + hex.EncodeToString(f.memoData())
			if !expectFail {
				why = "the ibc_call event reports ibc_call_success=false"
			}
			facts.Viol = append(facts.Viol, Violation{Invariant: "tolerated-failure", Site: "ibc/failed-memo-call-success-ack",
				Message: fmt.Sprintf("packet %s (%s %s to %s, memo %s) got the success acknowledgement %s although its memo call failed (%s): the packet's writes are committed", p.ID, p.Data.Amount, p.Data.Denom, p.Data.Receiver, p.Data.Memo, ack, why)})
		}
	}
	memoClass := "memo:none"
	switch {
	case f.Memo != nil:
		memoClass = "memo:call"
	case p.RawOK && p.Data.Memo != "":
		memoClass = "memo:other"
	}
	if !p.AckOK {
		f.Class = "recv-err"
		r.Probe("recv-error-ack")
		r.State("recv:error:" + memoClass)
		return
	}
	f.Class = "recv-ok"
	if !p.RawOK {
		return
	}
	amount := ibcBig(p.Data.Amount)
	recv, isHex, okAddr := ibcParseAddr(p.Data.Receiver)
	denom := ibcReceiveDenom(p)
	form := "bech32"
	if isHex {
		form = "hex"
	}
	if !okAddr {
		facts.Viol = append(facts.Viol, Violation{Invariant: "inbound-credit", Site: "ibc_recv:success-ack/invalid-receiver",
			Message: fmt.Sprintf("packet %s with receiver %q got a success acknowledgement", p.ID, p.Data.Receiver)})
		return
	}
	if denom == fxtypes.DefaultDenom {
		st.addFX(recv, amount)
		f.Credit = fmt.Sprintf("%s FX (native) to %s", amount, recv.Hex())
		r.Probe("recv-success-fx-" + form)
		r.State("recv:fx:" + form + ":" + memoClass)
	} else {
		tok, escrowed, found := st.pairOf(w, denom)
		if !found || !isHex {
			facts.Viol = append(facts.Viol, Violation{Invariant: "inbound-credit", Site: "ibc_recv:success-ack/no-erc20-credit-possible",
				Message: fmt.Sprintf("packet %s (%s %s to %s receiver %s) got a success acknowledgement although no token pair / hex receiver exists for it", p.ID, amount, denom, form, p.Data.Receiver)})
			return
		}
		if _, tracked := st.ERC[tok]; !tracked {
			st.trackToken(w, tok) // first sight of the pair: adopt the post-state
		} else if escrowed {
			st.addERC(tok, recv, amount, false)
			st.addERC(tok, common.BytesToAddress(authtypes.NewModuleAddress(erc20types.ModuleName)), ibcNeg(amount), false)
		} else {
			st.addERC(tok, recv, amount, true)
		}
		f.Credit = fmt.Sprintf("%s of ERC-20 %s to %s", amount, tok.Hex(), recv.Hex())
		r.Probe("recv-success-erc20")
		r.State("recv:erc20:" + form + ":" + memoClass)
	}
	if f.Memo != nil && f.Memo.Value.Sign() > 0 {
		is := ibcIntermediate(p.Pkt.SourcePort, p.Pkt.SourceChannel, p.Data.Sender)
		st.addFX(is, ibcNeg(f.Memo.Value))
		st.addFX(f.Memo.To, f.Memo.Value)
	}
}

func (e IbcEngine) attributeSettle(r *Run, oc *TxOutcome, f *ibcTxFact, facts *ibcStepFacts) {
	st := ibcState(r)
	t := oc.Tx
	p := st.Pkts[t.A.Str("pkt")]
	f.Pkt = p
	if p == nil {
		return
	}
	kind := "ack"
	if t.K == "ibc_timeout" {
		kind = "timeout"
	}
	if p.Settled == "" {
		if kind == "ack" {
			switch {
			case !p.Recvd:
				f.MustFail = "no acknowledgement was written"
			case string(ibcAckBytesFor(t, p)) != string(p.Ack):
				f.MustFail = "acknowledgement bytes differ from the written ones"
			}
		} else {
			switch {
			case p.Recvd:
				f.MustFail = "packet was received"
			case !ibcElapsed(p, facts.Height, facts.Time):
				f.MustFail = "timeout not reached"
			}
		}
	}
	if !oc.Res.OK() {
		f.Class = kind + "-fail"
		switch {
		case f.MustFail == "":
			if p.FromEVM && len(e.disabledPairs(r)) > 0 {
				r.Probe("refund-refused-while-a-pair-is-disabled")
			}
		case kind == "ack":
			r.Fault("forged-ack")
		case p.Recvd:
			r.Fault("timeout-after-recv")
		default:
			r.Fault("early-timeout")
		}
		return
	}
	if p.Settled != "" {
		f.Class = kind + "-noop"
		r.Fault("dup-" + kind)
		return
	}
	if f.MustFail != "" {
		f.Class = kind + "-accepted"
		return
	}
	if kind == "ack" {
		p.NAck++
		if p.AckOK {
			p.Settled = "ack-ok"
		} else {
			p.Settled = "ack-err"
		}
	} else {
		p.NTimeout++
		p.Settled = "timeout"
		if p.Dropped {
			r.Fault("packet-loss")
		}
	}
	p.SettledAt = r.StepNo
	f.Class = "settle-" + p.Settled
	if !st.C18 {
		r.Nontrivial = true
	}
	origin := "cosmos"
	if p.FromEVM {
		origin = "evm"
	}
	r.Probe("settled-" + p.Settled + "-" + origin)
	r.State("settle:" + origin + ":" + p.Settled)
	if p.Settled == "ack-ok" || !p.RawOK {
		return
	}
	// refund
	amount := ibcBig(p.Data.Amount)
	sender, _, okAddr := ibcParseAddr(p.Data.Sender)
	if !okAddr {
		return
	}
	switch {
	case p.FromEVM && !p.Origin:
		tok := common.HexToAddress(p.Token)
		if tok == st.WFX {
			st.addERC(tok, sender, amount, true)
			st.addFX(st.WFX, amount)
		} else {
			st.addERC(tok, sender, amount, false)
			st.addERC(tok, common.BytesToAddress(authtypes.NewModuleAddress(erc20types.ModuleName)), ibcNeg(amount), false)
		}
		f.Credit = fmt.Sprintf("refund of %s ERC-20 %s to %s", amount, tok.Hex(), sender.Hex())
	case p.Data.Denom == fxtypes.DefaultDenom:
		st.addFX(sender, amount)
		f.Credit = fmt.Sprintf("refund of %s FX to %s", amount, sender.Hex())
	}
}

// ---------------------------------------------------------------------------------------
// governance steps

func (e IbcEngine) applyGov(r *Run, s *Step, o *Outcome) {
	st := ibcState(r)
	w := r.W
	auth := w.GovAuthority()
	var msgs []sdk.Msg
	switch s.A.Str("what") {
	case "register_erc20":
		var aliases []string
		for _, a := range strings.Split(s.A.Str("aliases"), ",") {
			if a != "" {
				aliases = append(aliases, a)
			}
		}
		msgs = append(msgs, &erc20types.MsgRegisterERC20{Authority: auth, Erc20Address: s.A.Str("token"), Aliases: aliases})
	case "register_coin":
		md := fxtypes.GetCrossChainMetadataOneToOne(s.A.Str("name"), s.A.Str("base"), s.A.Str("symbol"), 18)
		msgs = append(msgs, &erc20types.MsgRegisterCoin{Authority: auth, Metadata: md})
	case "toggle":
		msgs = append(msgs, &erc20types.MsgToggleTokenConversion{Authority: auth, Token: s.A.Str("token")})
	case "erc20_params":
		p := w.App.Erc20Keeper.GetParams(w.Ctx())
		p.IbcTimeout = time.Duration(s.A.I64("ibc_timeout_s")) * time.Second
		msgs = append(msgs, &erc20types.MsgUpdateParams{Authority: auth, Params: p})
	default:
		o.Note = "unknown proposal"
		return
	}
	dt := time.Duration(s.DtMs) * time.Millisecond
	if dt <= 0 {
		dt = 5 * time.Second
	}
	before := w.Now
	gr := w.PassProposal("p:"+s.A.Str("what"), msgs, dt)
	r.SimTimeMs += w.Now.Sub(before).Milliseconds()
	o.Halt = gr.Halt
	o.Note = gr.Status + " " + gr.Note
	o.Extra["status"] = gr.Status
	r.Probe("gov-" + strings.ToLower(gr.Status) + ":" + s.A.Str("what"))
	if gr.Halt != nil {
		return
	}
	st.resyncFX(w)
	// newly registered pairs become tracked tokens
	pairs := w.App.Erc20Keeper.GetAllTokenPairs(w.Ctx())
	sort.Slice(pairs, func(i, j int) bool { return pairs[i].Erc20Address < pairs[j].Erc20Address })
	for _, p := range pairs {
		st.trackToken(w, p.GetERC20Contract())
	}
}
