package sim

import (
	"fmt"
	"sort"

	cctypes "github.com/functionx/fx-core/v8/x/crosschain/types"
)

// C06 — value is released only when the external chain can no longer run it.
// The external chain model (extchain) is the judge.

type c06Model struct {
	parked map[string]bool // calls refunded while their success result was observed but not yet executed
}

func newC06(st *BridgeSt) *c06Model { return &c06Model{parked: map[string]bool{}} }

func (m *c06Model) afterRelay(r *Run, ch *ChainSt, kind string, nonce uint64, token string, err error) {
	if err == nil {
		r.Probe("relayed:" + kind)
		r.Nontrivial = true
	} else {
		r.Probe("relay-rejected:" + kind)
	}
}

func (m *c06Model) check(r *Run, c *bridgeChecks, s *Step, o *Outcome) []Violation {
	var vs []Violation
	st := bst(r)
	for _, ch := range st.Chains {
		pre, post := c.pre[ch.Name], c.post[ch.Name]
		advanced := post.LastObs > pre.LastObs
		executedNow := map[string]uint64{} // token -> highest batch nonce observed executed in this step
		for _, a := range post.Atts {
			if a.Observed && a.Nonce > pre.LastObs && a.Claim != nil {
				if cl, ok := a.Claim.(*cctypes.MsgSendToExternalClaim); ok {
					if cl.BatchNonce > executedNow[cl.TokenContract] {
						executedNow[cl.TokenContract] = cl.BatchNonce
					}
				}
			}
		}
		live := map[string]bool{}
		for _, b := range post.Batches {
			live[batchID(b.TokenContract, b.BatchNonce)] = true
		}
		if len(pre.Batches)+len(pre.Calls) > 0 && (s.Kind == "ext" || s.Kind == "relay" || advanced) {
			r.Nontrivial = true
		}
		for _, b := range pre.Batches {
			if live[batchID(b.TokenContract, b.BatchNonce)] {
				continue
			}
			if n, ok := executedNow[b.TokenContract]; ok && n >= b.BatchNonce {
				continue // executed, or superseded by a newer executed batch of the same token
			}
			// cancelled for timeout
			if !advanced {
				vs = append(vs, viol("timeout-proved", "batch-cancelled-without-observation", "%s: batch %d (timeout %d) disappeared in a step that observed no external event", ch.Name, b.BatchNonce, b.BatchTimeout))
				continue
			}
			if post.ObsExtH < b.BatchTimeout {
				vs = append(vs, viol("timeout-proved", "batch-cancelled-before-timeout", "%s: batch %d cancelled at observed external height %d, its timeout is %d", ch.Name, b.BatchNonce, post.ObsExtH, b.BatchTimeout))
			}
			switch {
			case post.ObsExtH == b.BatchTimeout:
				r.Probe("batch-cancel-at-timeout")
			case post.ObsExtH == b.BatchTimeout+1:
				r.Probe("batch-cancel-at-timeout+1")
			default:
				r.Probe("batch-cancel-later")
			}
		}
		// bridge calls removed without a result
		results := map[uint64]bool{}
		for _, t := range okTxs(o, "execute_claim") {
			if t.Tx.A.Str("chain") == ch.Name {
				if cl, ok := pre.Pending[t.Tx.A.U64("n")]; ok {
					if rc, ok := cl.(*cctypes.MsgBridgeCallResultClaim); ok {
						results[rc.Nonce] = true
					}
				}
			}
		}
		liveCalls := map[uint64]bool{}
		for _, bc := range post.Calls {
			liveCalls[bc.Nonce] = true
		}
		for _, bc := range pre.Calls {
			if liveCalls[bc.Nonce] || results[bc.Nonce] {
				continue
			}
			// a result that was observed but only parked for later execution does not protect the call
			for _, pv := range []*ChainView{pre, post} {
				for _, pn := range pv.SortedPending() {
					if rc, ok := pv.Pending[pn].(*cctypes.MsgBridgeCallResultClaim); ok && rc.Nonce == bc.Nonce && rc.Success {
						r.Probe("refund-while-success-result-pending")
						m.parked[ch.Name+fmt.Sprint(bc.Nonce)] = true
					}
				}
			}
			if !advanced {
				vs = append(vs, viol("timeout-proved", "bridge-call-refunded-without-observation", "%s: outgoing bridge call %d (timeout %d) disappeared in a step that observed no external event", ch.Name, bc.Nonce, bc.Timeout))
				continue
			}
			if post.ObsExtH < bc.Timeout {
				vs = append(vs, viol("timeout-proved", "bridge-call-refunded-before-timeout", "%s: bridge call %d refunded at observed external height %d, its timeout is %d", ch.Name, bc.Nonce, post.ObsExtH, bc.Timeout))
			}
			if post.ObsExtH == bc.Timeout {
				r.Probe("call-refund-at-timeout")
			} else {
				r.Probe("call-refund-later")
			}
		}
		// nothing can be batched (or given a timeout) before an external height was observed
		for _, t := range okTxs(o, "request_batch") {
			if t.Tx.A.Str("chain") == ch.Name && pre.ObsExtH == 0 && deliveredCount(o) == 1 {
				vs = append(vs, viol("no-batch-before-height", "request_batch", "%s: batch created although no external height had been observed", ch.Name))
			}
		}
		for _, b := range post.Batches {
			if b.BatchTimeout == 0 {
				vs = append(vs, viol("no-batch-before-height", "batch-timeout-zero", "%s: batch %d stored with timeout 0", ch.Name, b.BatchNonce))
			}
		}
		for _, bc := range post.Calls {
			if bc.Timeout == 0 {
				vs = append(vs, viol("no-batch-before-height", "bridge-call-timeout-zero", "%s: outgoing bridge call %d stored with timeout 0", ch.Name, bc.Nonce))
			}
		}
		// the observed external height is evidence: it can only be the height of a real event, so it never
		// exceeds the height the external chain has actually reached
		if post.ObsExtH > ch.Ext.Height && post.ObsExtH != pre.ObsExtH {
			vs = append(vs, viol("timeout-proved", "observed-height-beyond-external-chain", "%s: observed external height moved %d -> %d but the external chain is at %d", ch.Name, pre.ObsExtH, post.ObsExtH, ch.Ext.Height))
		}
		vs = append(vs, m.neverBoth(r, c, ch)...)
		r.State(fmt.Sprintf("%s:b%d/c%d/dh%d", ch.Name, min(len(post.Batches), 3), min(len(post.Calls), 3), bucket(int64(ch.Ext.Height)-int64(post.ObsExtH))))
	}
	return vs
}

func bucket(d int64) int {
	switch {
	case d < 0:
		return -1
	case d == 0:
		return 0
	case d < 10:
		return 1
	case d < 100:
		return 2
	}
	return 3
}

// neverBoth: nothing is both executed on the external chain and released on fxcore.
func (m *c06Model) neverBoth(r *Run, c *bridgeChecks, ch *ChainSt) []Violation {
	var vs []Violation
	mc := c.c05.ch[ch.Name]
	var ids []uint64
	for id := range ch.Ext.ExecutedTxIDs {
		ids = append(ids, id)
	}
	sort.Slice(ids, func(i, j int) bool { return ids[i] < ids[j] })
	for _, id := range ids {
		rec, ok := mc.xfers[id]
		if !ok {
			continue
		}
		if rec.State == "refunded" || rec.State == "pool" {
			vs = append(vs, viol("never-both", "transfer-executed-and-released", "%s: transfer %d was executed on the external chain and is %s on fxcore", ch.Name, id, rec.State))
		}
	}
	var ns []uint64
	for n := range ch.Ext.ExecutedCalls {
		ns = append(ns, n)
	}
	sort.Slice(ns, func(i, j int) bool { return ns[i] < ns[j] })
	for _, n := range ns {
		rec, ok := mc.calls[n]
		if !ok {
			continue
		}
		if rec.State == "refunded" {
			site := "bridge-call-executed-and-refunded"
			if m.parked[ch.Name+fmt.Sprint(n)] {
				site += "/success-result-observed-but-parked"
			}
			vs = append(vs, viol("never-both", site, "%s: outgoing bridge call %d was executed on the external chain and refunded on fxcore", ch.Name, n))
		}
	}
	return vs
}

func (m *c06Model) finish(r *Run, c *bridgeChecks) []Violation {
	var vs []Violation
	for _, ch := range bst(r).Chains {
		vs = append(vs, m.neverBoth(r, c, ch)...)
	}
	return vs
}
