package sim

import (
	"math/rand/v2"
	"strings"

	authtypes "github.com/cosmos/cosmos-sdk/x/auth/types"
	banktypes "github.com/cosmos/cosmos-sdk/x/bank/types"
	govv1 "github.com/cosmos/cosmos-sdk/x/gov/types/v1"
)

// C07 runs on the worlds of several engines: the bridge engine with its C07 bias (aged
// crosschain state, elapsed signed windows) and, as surrogate workloads, the gov, evm and ibc
// engines (concurrent proposals incl. failing ones, precompile histories, IBC relaying). The
// oracle is the same everywhere: FinalizeBlock / Commit must never panic or return an error.

type C07Engine struct{}

func (C07Engine) Name() string { return "c07-multi" }

func init() {
	RegisterEngine([]string{"C07"}, func() Engine { return C07Engine{} })
}

var c07Subs = []struct {
	name      string
	surrogate string
	weight    int
}{
	{"bridge", "C07", 6}, {"gov", "C15", 3}, {"gov", "C14", 1}, {"evm", "C11", 1}, {"ibc", "C19", 1},
}

func c07Sub(cfg RunConfig) (Engine, string) {
	name, sur := cfg.Knob("c07_engine"), cfg.Knob("c07_surrogate")
	switch name {
	case "gov", "evm", "ibc":
		if f, ok := extraEngines[sur]; ok {
			return f(), sur
		}
	}
	return BridgeEngine{}, "C07"
}

func (C07Engine) GenConfig(rng *rand.Rand, prop string, tier string) RunConfig {
	tot := 0
	for _, s := range c07Subs {
		tot += s.weight
	}
	n := rng.IntN(tot)
	pick := c07Subs[0]
	for _, s := range c07Subs {
		n -= s.weight
		if n < 0 {
			pick = s
			break
		}
	}
	var eng Engine = BridgeEngine{}
	if f, ok := extraEngines[pick.surrogate]; ok && pick.name != "bridge" {
		eng = f()
	} else {
		pick.name, pick.surrogate = "bridge", "C07"
	}
	rc := eng.GenConfig(rng, pick.surrogate, tier)
	if rc.Knobs == nil {
		rc.Knobs = map[string]string{}
	}
	rc.Knobs["c07_engine"], rc.Knobs["c07_surrogate"] = pick.name, pick.surrogate
	return rc
}

func (e C07Engine) with(r *Run, f func(Engine)) {
	eng, sur := c07Sub(r.Cfg)
	saved := r.Prop
	r.Prop = sur
	defer func() { r.Prop = saved }()
	f(eng)
}

func (e C07Engine) Init(r *Run) (err error) {
	e.with(r, func(eng Engine) { err = eng.Init(r) })
	return err
}

func (e C07Engine) Gen(r *Run) (s Step) {
	e.with(r, func(eng Engine) { s = eng.Gen(r) })
	return s
}

func (e C07Engine) Apply(r *Run, s *Step) (o *Outcome) {
	e.with(r, func(eng Engine) { o = eng.Apply(r, s) })
	return o
}

func (e C07Engine) Check(r *Run, s *Step, o *Outcome) []Violation {
	halt := (*HaltInfo)(nil)
	if o != nil && o.Halt != nil {
		halt = o.Halt
	} else if r.W != nil && r.W.Halt != nil {
		halt = r.W.Halt
	}
	if halt != nil {
		r.Nontrivial = true
		return []Violation{viol("no-halt", halt.Phase+":"+c07HaltSite(r, halt), "%s: %s", halt.Phase, firstLine(halt.Msg))}
	}
	name, _ := r.Cfg.Knob("c07_engine"), 0
	if name == "bridge" || name == "" {
		var vs []Violation
		e.with(r, func(eng Engine) { vs = eng.Check(r, s, o) })
		return vs
	}
	// surrogate workloads: their own oracles belong to other properties and are not reported here
	e.with(r, func(eng Engine) { eng.Check(r, s, o) })
	r.Foreign = "" // a surrogate oracle's "foreign" verdict cannot come from a halt (handled above)
	r.Nontrivial = true
	r.Probe("surrogate-engine:" + name)
	return nil
}

func (e C07Engine) Finish(r *Run) (vs []Violation) {
	name := r.Cfg.Knob("c07_engine")
	e.with(r, func(eng Engine) { vs = eng.Finish(r) })
	if r.W != nil && r.W.Halt != nil {
		return []Violation{viol("no-halt", r.W.Halt.Phase+":"+c07HaltSite(r, r.W.Halt), "%s: %s", r.W.Halt.Phase, firstLine(r.W.Halt.Msg))}
	}
	if name == "bridge" || name == "" {
		return vs
	}
	return nil
}

// c07HaltSite refines the site of an error returned by block processing when its cause can be read
// off the last committed state: a proposal that is still open (or was just decided) sends coins out
// of the gov module account - the account that escrows every proposal's deposit - so the deposit
// refund / burn of the end blocker can run short of funds.
func c07HaltSite(r *Run, h *HaltInfo) string {
	if h.Site != "error-return" || !strings.Contains(h.Msg, "insufficient funds") || r.W == nil {
		return h.Site
	}
	ctx := r.W.Ctx()
	gov := authtypes.NewModuleAddress("gov").String()
	spends := false
	_ = r.W.App.GovKeeper.Proposals.Walk(ctx, nil, func(_ uint64, p govv1.Proposal) (bool, error) {
		msgs, err := p.GetMsgs()
		if err != nil {
			return false, nil
		}
		for _, m := range msgs {
			if ms, ok := m.(*banktypes.MsgSend); ok && ms.FromAddress == gov {
				spends = true
			}
		}
		return spends, nil
	})
	if spends {
		return "error-return/proposal-spends-from-the-gov-account-that-escrows-the-deposits"
	}
	return h.Site
}
