package sim

import (
	"math/big"

	"github.com/ethereum/go-ethereum/common"

	cctypes "github.com/functionx/fx-core/v8/x/crosschain/types"
)

// The C18 callee: one hand-assembled contract whose behaviour is chosen by a 32-byte MODE word
// carried in the inbound bridge call's `data`:
//
//	bits 0..15   action i runs iff bit i is set (failures of single actions are ignored)
//	bits 16..18  ending: 0 return, 1 revert, 2 invalid opcode, 3 burn all gas (endless loop),
//	             4 revert with return data
//
// The mode is found in both call shapes fxcore uses: `bridgeCallback(sender, refund, tokens[],
// amounts[], data, memo)` (mode = first word of `data`) and the memo "send call to" shape where
// the claim's data is the call data itself (call data == the 32-byte mode).
// Because `data` is not part of the refund record, two claims that differ only in the mode
// word must leave byte-identical state whenever both fail: that is the fail-late == fail-first
// oracle of C18(b) with no key excluded at all.

const (
	c18opSUB         = 0x03
	c18opLT          = 0x10
	c18opGT          = 0x11
	c18opEQ          = 0x14
	c18opADDRESS     = 0x30
	c18opCREATE      = 0xf0
	c18EndShift      = 16
	c18EndReturn     = 0
	c18EndRevert     = 1
	c18EndInvalid    = 2
	c18EndBurn       = 3
	c18EndRevertData = 4
)

// action bits
const (
	c18ActSstore = iota
	c18ActXferWFX
	c18ActXferUSDT
	c18ActXferDAI
	c18ActXferUSDC
	c18ActDelegate
	c18ActSendValue
	c18ActLog
	c18ActCreate
	c18ActBridgeCallOut
	c18ActSelfCall
	c18ActUndelegate
	c18NActs
)

var c18ActNames = []string{"sstore", "xfer-wfx", "xfer-usdt", "xfer-dai", "xfer-usdc", "delegate", "send-value", "log", "create", "bridge-call-out", "self-call", "undelegate"}

var c18EndNames = []string{"return", "revert", "invalid", "burn", "revert-data"}

func c18Mode(acts uint64, end int) *big.Int {
	m := new(big.Int).SetUint64(acts & 0xffff)
	return m.Or(m, new(big.Int).Lsh(big.NewInt(int64(end)), c18EndShift))
}

func c18ModeEnd(m *big.Int) int {
	return int(new(big.Int).Rsh(m, c18EndShift).Uint64() & 7)
}

func c18ModeActs(m *big.Int) uint64 { return m.Uint64() & 0xffff }

// c18ModeName renders a mode for probes / sites (ending + number of actions).
func c18ModeName(m *big.Int) string {
	e := c18ModeEnd(m)
	n := "end?"
	if e < len(c18EndNames) {
		n = c18EndNames[e]
	}
	if c18ModeActs(m) == 0 {
		return n + "/no-actions"
	}
	return n + "/after-actions"
}

type c18CalleeEnv struct {
	Tokens  map[string]common.Address // symbol -> ERC-20 contract (WFX, USDT, DAI, USDC); zero when unknown
	Sink    common.Address
	ValOp   string // validator operator (bech32 valoper) for the staking precompile
	Chain   string
	ExtDest string
}

// c18CalleeCode assembles the runtime code.
func c18CalleeCode(env c18CalleeEnv) ([]byte, error) {
	a := NewAsm()
	direct, nomode, store := a.NewLabel(), a.NewLabel(), a.NewLabel()
	// ---- mode -> mem[0x20]
	a.Op(opCALLDATASIZE).Push(32).Op(c18opEQ).JumpI(direct)
	a.Push(196).Op(opCALLDATASIZE).Op(c18opLT).JumpI(nomode) // calldatasize < 4+6*32
	// off = calldataload(4+4*32) (relative to the start of the arguments)
	a.Push(4 + 128).Op(opCALLDATALOAD)                // [off]
	a.Op(opDUP1).Push(4).Op(opADD).Op(opCALLDATALOAD) // [off, len]
	a.Push(32).Op(opSWAP1).Op(c18opLT)                // [off, len<32]
	noData := a.NewLabel()
	a.JumpI(noData)                             // [off]
	a.Push(4 + 32).Op(opADD).Op(opCALLDATALOAD) // [mode]
	a.Jump(store)
	a.Label(noData).Op(opPOP).Push(0).Jump(store)
	a.Label(direct).Push(0).Op(opCALLDATALOAD).Jump(store)
	a.Label(nomode).Push(0)
	a.Label(store).Push(0x20).Op(opMSTORE)

	guard := func(bit int, skip string) {
		a.Push(0x20).Op(opMLOAD).Push(uint64(bit)).Op(opSHR).Push(1).Op(opAND).Op(opISZERO).JumpI(skip)
	}
	nblob := 0
	callBlob := func(target common.Address, value *big.Int, data []byte, self bool) {
		nblob++
		blob := "b" + string(rune('a'+nblob))
		a.Blob(blob, data)
		a.PushBlobLen(blob).PushBlobOff(blob).Push(0x80).Op(opCODECOPY)
		a.Push(0).Push(0).PushBlobLen(blob).Push(0x80).PushBig(value)
		if self {
			a.Op(c18opADDRESS)
		} else {
			a.PushAddr(target)
		}
		a.Op(opGAS).Op(opCALL).Op(opPOP)
	}
	zero := big.NewInt(0)
	for bit := 0; bit < c18NActs; bit++ {
		skip := a.NewLabel()
		guard(bit, skip)
		switch bit {
		case c18ActSstore:
			a.Push(7).Op(opSLOAD).Push(1).Op(opADD).Push(7).Op(opSSTORE)
		case c18ActXferWFX, c18ActXferUSDT, c18ActXferDAI, c18ActXferUSDC:
			sym := map[int]string{c18ActXferWFX: "WFX", c18ActXferUSDT: "USDT", c18ActXferDAI: "DAI", c18ActXferUSDC: "USDC"}[bit]
			tok := env.Tokens[sym]
			data, err := packCall(erc20ABI, "transfer", []string{env.Sink.Hex(), "1"})
			if err != nil {
				return nil, err
			}
			callBlob(tok, zero, data, false)
		case c18ActDelegate:
			ab, addr, _ := abiFor("staking")
			data, err := packCall(ab, "delegateV2", []string{env.ValOp, "1000000000000000"})
			if err != nil {
				return nil, err
			}
			callBlob(addr, zero, data, false)
		case c18ActUndelegate:
			ab, addr, _ := abiFor("staking")
			data, err := packCall(ab, "undelegateV2", []string{env.ValOp, "1000000000000"})
			if err != nil {
				return nil, err
			}
			callBlob(addr, zero, data, false)
		case c18ActSendValue:
			callBlob(env.Sink, big.NewInt(1_000_000_000_000), nil, false)
		case c18ActLog:
			a.Push(0xc18).Push(0).Push(0).Op(opLOG1)
		case c18ActCreate:
			// CREATE(value 0, initcode = STOP)
			a.Push(0).Push(0).Op(opMSTORE)
			a.Push(1).Push(0).Push(0).Op(c18opCREATE).Op(opPOP)
		case c18ActBridgeCallOut:
			data, err := packCall(cctypes.GetABI(), "bridgeCall", []string{env.Chain, env.Sink.Hex(), "", "", env.Sink.Hex(), "", "0", ""})
			if err != nil {
				return nil, err
			}
			callBlob(cctypes.GetAddress(), zero, data, false)
		case c18ActSelfCall:
			// re-enter with mode {sstore, return}: an inner frame that succeeds
			callBlob(common.Address{}, zero, word(c18Mode(1<<c18ActSstore, c18EndReturn).Bytes()), true)
		}
		a.Label(skip)
	}
	// ---- ending
	lRevert, lInvalid, lBurn, lRevData := a.NewLabel(), a.NewLabel(), a.NewLabel(), a.NewLabel()
	endIs := func(code int, l string) {
		a.Push(0x20).Op(opMLOAD).Push(c18EndShift).Op(opSHR).Push(7).Op(opAND).Push(uint64(code)).Op(c18opEQ).JumpI(l)
	}
	endIs(c18EndRevert, lRevert)
	endIs(c18EndInvalid, lInvalid)
	endIs(c18EndBurn, lBurn)
	endIs(c18EndRevertData, lRevData)
	a.Push(0).Push(0).Op(opRETURN)
	a.Label(lRevert).Push(0).Push(0).Op(opREVERT)
	a.Label(lInvalid).Op(opINVALID)
	a.Label(lBurn).Jump(lBurn)
	a.Label(lRevData).Push(0xdead).Push(0).Op(opMSTORE).Push(0x20).Push(0).Op(opREVERT)
	return a.Bytes(), nil
}
