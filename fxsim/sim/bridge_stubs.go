package sim

// Temporary stubs; each model moves to its own file as it is implemented.

type c05Model struct{}

func newC05(st *BridgeSt) *c05Model { return &c05Model{} }
func (m *c05Model) check(r *Run, c *bridgeChecks, s *Step, o *Outcome) []Violation { return nil }

type c06Model struct{}

func newC06(st *BridgeSt) *c06Model { return &c06Model{} }
func (m *c06Model) check(r *Run, c *bridgeChecks, s *Step, o *Outcome) []Violation { return nil }
func (m *c06Model) finish(r *Run, c *bridgeChecks) []Violation                       { return nil }
func (m *c06Model) afterRelay(r *Run, ch *ChainSt, kind string, nonce uint64, token string, err error) {
}

type c13Model struct{}

func newC13(st *BridgeSt) *c13Model { return &c13Model{} }
func (m *c13Model) before(r *Run, s *Step)                                           {}
func (m *c13Model) check(r *Run, c *bridgeChecks, s *Step, o *Outcome) []Violation { return nil }
func (m *c13Model) finish(r *Run, c *bridgeChecks) []Violation                       { return nil }

type c04Model struct{}

func newC04(st *BridgeSt) *c04Model { return &c04Model{} }
func (m *c04Model) before(r *Run, s *Step)                                           {}
func (m *c04Model) check(r *Run, c *bridgeChecks, s *Step, o *Outcome) []Violation { return nil }

type c12Model struct{}

func newC12(st *BridgeSt) *c12Model { return &c12Model{} }
func (m *c12Model) check(r *Run, c *bridgeChecks, s *Step, o *Outcome) []Violation { return nil }
func (m *c12Model) afterRelay(r *Run, ch *ChainSt, kind string, nonce uint64, token string, err error) {
}

type c03Model struct{}

func newC03(st *BridgeSt) *c03Model { return &c03Model{} }
func (m *c03Model) check(r *Run, c *bridgeChecks, s *Step, o *Outcome) []Violation { return nil }
