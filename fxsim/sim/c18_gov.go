package sim

import (
	"encoding/hex"
	"fmt"
	"strings"
	"time"

	sdk "github.com/cosmos/cosmos-sdk/types"
	govv1 "github.com/cosmos/cosmos-sdk/x/gov/types/v1"

	fxgov "github.com/functionx/fx-core/v8/x/gov"
	fxgovkeeper "github.com/functionx/fx-core/v8/x/gov/keeper"
)

// ---------------------------------------------------------------------------------------
// C18 (c): a passed proposal whose message fails. The proposal is marked FAILED, deposits
// are handled as for any passed proposal, and nothing any of its messages wrote remains.
//
// On branches of one committed state the whole life of a proposal runs through the real
// message server and the real EndBlocker (submit with deposit, every validator votes yes,
// clock past the voting end, gov.EndBlocker): n messages of one type with the failing one at
// every position j (first = reference), the failing message alone, and a message-less
// proposal. All resulting stores must be equal except for the proposal record itself.

type c18GovRes struct {
	Post   Dump
	ID     uint64
	Status string
	Reason string
	Err    string
	Prop   *govv1.Proposal
}

// govOnBranch runs the whole life of a proposal on a branch. corrupt (optional) names a base
// denom whose token-pair record is overwritten with garbage on the branch first, so that the
// handler of a message that reads it PANICS (recovered by the proposal executor).
func (e C18Engine) govOnBranch(r *Run, spec string, corrupt string) *c18GovRes {
	w := r.W
	res := &c18GovRes{}
	ctx := w.branchCtx()
	if corrupt != "" {
		if pair, ok := w.App.Erc20Keeper.GetTokenPair(ctx, corrupt); ok {
			ctx.KVStore(w.App.GetKVStoreKey()["erc20"]).Set(append([]byte{0x01}, pair.GetID()...), []byte{0xff, 0xff, 0xff})
		}
	}
	func() {
		defer func() {
			if rec := recover(); rec != nil {
				res.Err = fmt.Sprintf("panic: %v", rec)
			}
		}()
		msgs, err := gspecMsgs(w, spec, w.GovAuthority())
		if err != nil {
			res.Err = "spec: " + err.Error()
			return
		}
		params, err := w.App.GovKeeper.Params.Get(ctx)
		if err != nil {
			res.Err = err.Error()
			return
		}
		proposer := w.Key("user", 1)
		meta := ""
		if len(msgs) == 0 {
			meta = "c18 text"
		}
		sub, err := govv1.NewMsgSubmitProposal(msgs, sdk.NewCoins(params.MinDeposit...), proposer.Bech(), meta, "c18 proposal", "c18 proposal", false)
		if err != nil {
			res.Err = "submit: " + err.Error()
			return
		}
		ms := fxgovkeeper.NewMsgServerImpl(w.App.GovKeeper)
		sr, err := ms.SubmitProposal(ctx, sub)
		if err != nil {
			res.Err = "submit: " + err.Error()
			return
		}
		res.ID = sr.ProposalId
		for i := range w.Vals {
			if _, err := ms.Vote(ctx, govv1.NewMsgVote(w.Vals[i].Op.Acc(), res.ID, govv1.OptionYes, "")); err != nil {
				res.Err = "vote: " + err.Error()
				return
			}
		}
		p, err := w.App.GovKeeper.Proposals.Get(ctx, res.ID)
		if err != nil {
			res.Err = err.Error()
			return
		}
		if p.VotingEndTime == nil {
			res.Err = "not in voting period"
			return
		}
		h := ctx.BlockHeader()
		h.Time = p.VotingEndTime.Add(time.Second)
		h.Height++
		ectx := ctx.WithBlockHeader(h)
		if err := fxgov.EndBlocker(ectx, w.App.GovKeeper); err != nil {
			res.Err = "end blocker: " + err.Error()
			return
		}
		p, err = w.App.GovKeeper.Proposals.Get(ctx, res.ID)
		if err != nil {
			res.Err = "proposal gone: " + err.Error()
			return
		}
		res.Prop = &p
		res.Status = strings.TrimPrefix(p.Status.String(), "PROPOSAL_STATUS_")
		res.Reason = p.FailedReason
	}()
	res.Post = w.DumpCtx(ctx)
	return res
}

func c18IsProposalKey(x DiffEntry, id uint64) bool {
	return x.Store == "gov" && len(x.Key) == 9 && x.Key[0] == 0x00 && be64(x.Key[1:]) == id
}

// c18GovItems: per message type the valid items (each writes something) and the failing ones.
func (e C18Engine) c18GovItems(r *Run, typ string) (valid []string, invalid []string) {
	cs := c18st(r)
	w := r.W
	u := func() int { cs.uniq++; return cs.uniq }
	switch typ {
	case "toggle":
		for _, d := range []string{"usdt", "dai", "usdc", "FX"} {
			valid = append(valid, gitem("toggle", "token", d))
		}
		invalid = []string{gitem("toggle", "token", fmt.Sprintf("nosuchtoken%d", u()))}
	case "store":
		for i := 0; i < 4; i++ {
			k := fmt.Sprintf("c180%02x%04x", i, u()&0xffff)
			valid = append(valid, gitem("store", "space", []string{"migrate", "erc20", "eth", "bank"}[r.Rng.IntN(4)], "key", k, "old", "", "new", fmt.Sprintf("%04x", r.Rng.IntN(65536))))
		}
		k := fmt.Sprintf("c180ff%04x", u()&0xffff)
		invalid = []string{
			gitem("store", "space", "migrate", "key", k, "old", "ab", "new", "cd"),         // stale: the key is absent
			gitem("store", "space", "migrate", "key", k+"|"+k, "old", "|", "new", "01|02"), // second entry of ONE message stale (first already written)
			gitem("store", "space", "nosuchspace", "key", k, "old", "", "new", "cd"),       // unknown store
		}
	case "callcontract":
		for i := 0; i < 3; i++ {
			valid = append(valid, gitem("callcontract", "marker", u()))
		}
		if ci := e.haveCallee(r); ci >= 0 {
			addr := cs.Callees[ci].Addr.Hex()
			all := uint64(1<<c18NActs - 1)
			valid = append(valid, gitem("callcontract", "to", addr, "data", hex.EncodeToString(word(c18Mode(1<<c18ActSstore|1<<c18ActLog|1<<c18ActCreate, c18EndReturn).Bytes()))))
			for _, en := range []int{c18EndRevert, c18EndInvalid, c18EndRevertData} {
				invalid = append(invalid, gitem("callcontract", "to", addr, "data", hex.EncodeToString(word(c18Mode(all, en).Bytes()))))
			}
			invalid = append(invalid, gitem("callcontract", "to", addr, "data", hex.EncodeToString(word(c18Mode(0, c18EndRevert).Bytes()))))
		}
		invalid = append(invalid, gitem("callcontract", "to", w.Key("fresh", 7000+u()).Hex().Hex(), "data", "00")) // no contract there
	case "regcoin":
		for i := 0; i < 2; i++ {
			valid = append(valid, gitem("regcoin", "symbol", fmt.Sprintf("TK%c%c", 'A'+rune(u()%26), 'A'+rune(r.Rng.IntN(26)))))
		}
		invalid = []string{gitem("regcoin", "symbol", "USDT")} // base denom already registered
	case "alias":
		valid = append(valid, gitem("alias", "denom", "usdt", "alias", fmt.Sprintf("c18alias%d", u())), gitem("alias", "denom", "dai", "alias", fmt.Sprintf("c18alias%d", u())))
		// naming an alias the denom already has removes it (several others survive: the metadata is rewritten)
		for _, d := range []string{"usdt", "dai"} {
			if md, ok := w.App.BankKeeper.GetDenomMetaData(w.Ctx(), d); ok && len(md.DenomUnits) > 0 {
				for _, al := range md.DenomUnits[0].Aliases {
					if strings.HasPrefix(al, "c18alias") && len(md.DenomUnits[0].Aliases) >= 3 {
						valid = append(valid, gitem("alias", "denom", d, "alias", al))
						r.Probe("c18-alias-removal-offered")
						break
					}
				}
			}
		}
		invalid = []string{gitem("alias", "denom", fmt.Sprintf("nosuchdenom%d", u()), "alias", "c18x")}
	}
	return valid, invalid
}

var c18GovTypes = []string{"toggle", "store", "callcontract", "regcoin", "alias"}

func (e C18Engine) drawGovSpecs(r *Run) (typ string, specs []string, validOnly string, ok bool) {
	typ = c18GovTypes[r.Rng.IntN(len(c18GovTypes))]
	return e.drawGovSpecsOf(r, typ, "")
}

// drawGovSpecsOf: panicDenom != "" makes the failing message the toggle of that (corrupted) pair.
func (e C18Engine) drawGovSpecsOf(r *Run, typ string, panicDenom string) (string, []string, string, bool) {
	var specs []string
	valid, invalid := e.c18GovItems(r, typ)
	if panicDenom != "" {
		bad := gitem("toggle", "token", panicDenom)
		var keep []string
		for _, v := range valid {
			if v != bad {
				keep = append(keep, v)
			}
		}
		valid, invalid = keep, []string{bad}
	}
	if len(valid) == 0 || len(invalid) == 0 {
		return typ, nil, "", false
	}
	r.Rng.Shuffle(len(valid), func(i, j int) { valid[i], valid[j] = valid[j], valid[i] })
	n := 1 + r.Rng.IntN(len(valid))
	valid = valid[:n]
	bad := invalid[r.Rng.IntN(len(invalid))]
	for j := 0; j <= len(valid); j++ { // the failing message at every position; j = 0 is the reference
		var items []string
		items = append(items, valid[:j]...)
		items = append(items, bad)
		items = append(items, valid[j:]...)
		specs = append(specs, strings.Join(items, ";"))
	}
	specs = append(specs, bad) // the failing message alone
	specs = append(specs, "")  // a message-less proposal (passes, executes nothing)
	if r.Pct(50) {             // two failing messages
		specs = append(specs, strings.Join(append(append([]string{}, valid...), bad, bad), ";"))
	}
	return typ, specs, strings.Join(valid, ";"), true
}

func (e C18Engine) genGovBranch(r *Run) (Step, bool) {
	typ, specs, _, ok := e.drawGovSpecs(r)
	corrupt := ""
	if r.Pct(12) {
		corrupt = []string{"usdt", "dai", "usdc"}[r.Rng.IntN(3)]
		typ, specs, _, ok = e.drawGovSpecsOf(r, "toggle", corrupt)
	}
	if !ok {
		return Step{}, false
	}
	a := A("type", typ, "n", len(specs))
	if corrupt != "" {
		a["corrupt"] = corrupt
	}
	for i, s := range specs {
		a[fmt.Sprintf("v%d", i)] = s
	}
	return Step{Kind: "c18_gov", A: a}, true
}

func (e C18Engine) applyGovBranch(r *Run, s *Step, o *Outcome) {
	cs := c18st(r)
	typ := s.A.Str("type")
	n := s.A.Int("n")
	if n < 1 || n > 16 {
		o.Note = "no variants"
		return
	}
	var results []*c18GovRes
	var specs []string
	for i := 0; i < n; i++ {
		spec := s.A.Str(fmt.Sprintf("v%d", i))
		specs = append(specs, spec)
		res := e.govOnBranch(r, spec, s.A.Str("corrupt"))
		results = append(results, res)
		r.Probe("c:variant")
		r.Probe("c:status:" + res.Status)
		if r.Verbose {
			fmt.Printf("      proposal [%s] -> %s %q err=%q\n", c18TrimTo(spec, 90), res.Status, firstLine(res.Reason), firstLine(res.Err))
		}
	}
	ref := results[0]
	if ref.Err != "" || ref.Status != "FAILED" {
		r.Probe("c:reference-not-failed:" + ref.Status)
		return
	}
	for i, res := range results[1:] {
		spec := specs[i+1]
		if res.Err != "" {
			r.Probe("c:variant-not-run")
			continue
		}
		nmsg := 0
		if spec != "" {
			nmsg = len(strings.Split(spec, ";"))
		}
		cls := "late"
		switch {
		case spec == "":
			cls = "message-less"
		case nmsg == 1:
			cls = "alone"
		}
		if spec != "" && res.Status != "FAILED" {
			cs.violate("proposal-marked-failed", "gov/"+typ, "proposal [%s] contains a failing message (alone it fails: %s) but ended %s", c18TrimTo(spec, 120), firstLine(ref.Reason), res.Status)
			continue
		}
		if spec == "" && res.Status != "PASSED" {
			r.Probe("c:text-proposal-not-passed")
			continue
		}
		r.Nontrivial = true
		r.Probe("c:compared")
		r.Probe("c:compared:" + typ + ":" + cls)
		r.Fault("c:" + typ + ":" + cls)
		r.State(fmt.Sprintf("c|%s|%s|n%d|%s", typ, cls, nmsg, c18ReasonClass(res.Reason)))
		d := FilterDiff(Diff(ref.Post, res.Post), func(x DiffEntry) bool { return c18IsProposalKey(x, ref.ID) })
		if len(d) > 0 {
			cs.violate("fail-late-equals-fail-first", "gov/"+typ+"/"+cls+"/"+c18KeyClass(d[0]), "proposal [%s] (%s) leaves state different from the proposal with the failing message first [%s]:%s", c18TrimTo(spec, 160), res.Status, c18TrimTo(specs[0], 80), c18DiffText(d, 5))
		}
		// the records: equal except for content, status of the message-less twin and failure text
		if res.Prop != nil && ref.Prop != nil && spec != "" {
			a, b := *ref.Prop, *res.Prop
			a.Messages, b.Messages = nil, nil
			a.FailedReason, b.FailedReason = "", ""
			if a.String() != b.String() {
				cs.violate("fail-late-equals-fail-first", "gov/"+typ+"/"+cls+"/proposal-record", "proposal records differ beyond content: %s vs %s", a.String(), b.String())
			}
		}
	}
	// designated outcome of the reference: deposits gone, votes gone, not queued any more
	for _, res := range results {
		if res.Err != "" || res.Status != "FAILED" {
			continue
		}
		for _, kv := range c18DumpPrefixSorted(res.Post, "gov", nil) {
			k := kv[0]
			if len(k) >= 9 && (k[0] == 16 || k[0] == 32) && be64(k[1:9]) == res.ID {
				cs.violate("designated-outcome-only", "gov/"+typ+"/deposit-or-vote-left", "proposal %d FAILED but a deposit/vote record is left: %x", res.ID, k)
				break
			}
			if len(k) >= 9 && k[0] == 4 && be64(k[1:9]) == res.ID {
				cs.violate("designated-outcome-only", "gov/"+typ+"/still-in-voting-index", "proposal %d FAILED but is still indexed as in voting period", res.ID)
				break
			}
		}
	}
}

func c18ReasonClass(reason string) string {
	l := strings.ToLower(reason)
	switch {
	case strings.Contains(l, "panic"), strings.Contains(l, "recovered"):
		return "panic"
	case strings.Contains(l, "old value"):
		return "stale-value"
	case strings.Contains(l, "store space"):
		return "unknown-store"
	case strings.Contains(l, "not registered"), strings.Contains(l, "not found"):
		return "missing-object"
	case strings.Contains(l, "already"):
		return "already-exists"
	case strings.Contains(l, "revert"), strings.Contains(l, "invalid opcode"), strings.Contains(l, "out of gas"):
		return "evm-failure"
	case l == "":
		return "none"
	}
	return "other"
}

func c18TrimTo(s string, n int) string {
	if len(s) > n {
		return s[:n] + "…"
	}
	return s
}

func c18DumpPrefixSorted(d Dump, store string, prefix []byte) [][2][]byte {
	out := c18DumpPrefix(d, store, prefix)
	c18SortKV(out)
	return out
}

func c18SortKV(kv [][2][]byte) {
	for i := 1; i < len(kv); i++ {
		for j := i; j > 0 && string(kv[j][0]) < string(kv[j-1][0]); j-- {
			kv[j], kv[j-1] = kv[j-1], kv[j]
		}
	}
}

// ---------------------------------------------------------------------------------------
// the same through real transactions: submit, votes, end of the voting period in a real block

func (e C18Engine) genGovCommit(r *Run) (Step, bool) {
	typ, specs, validOnly, ok := e.drawGovSpecs(r)
	if !ok || len(specs) < 2 {
		return Step{}, false
	}
	// a late position
	nPos := len(specs) - 2
	if strings.Count(specs[len(specs)-1], ";") > 0 {
		nPos = len(specs) - 3
	}
	if nPos < 1 {
		return Step{}, false
	}
	spec := specs[nPos-1-r.Rng.IntN(nPos)/2]
	return Step{Kind: "c18_govpass", DtMs: 5000, A: A("type", typ, "spec", spec, "valid", validOnly)}, true
}

func (e C18Engine) applyGovCommit(r *Run, s *Step, o *Outcome) {
	cs := c18st(r)
	w := r.W
	typ := s.A.Str("type")
	spec := s.A.Str("spec")
	msgs, err := gspecMsgs(w, spec, w.GovAuthority())
	if err != nil || len(msgs) == 0 {
		o.Note = "spec"
		return
	}
	pred := e.govOnBranch(r, spec, "")
	predState := e.govOnBranch(r, s.A.Str("valid"), "")
	t0 := w.Now
	defer func() { r.SimTimeMs += w.Now.Sub(t0).Milliseconds() }()
	proposer := w.Key("user", 2)
	params, err := w.App.GovKeeper.Params.Get(w.Ctx())
	if err != nil {
		return
	}
	sub, err := govv1.NewMsgSubmitProposal(msgs, sdk.NewCoins(params.MinDeposit...), proposer.Bech(), "", "c18 proposal", "c18 proposal", false)
	if err != nil {
		o.Note = "submit: " + err.Error()
		return
	}
	raw, err := w.SignCosmos(proposer, 0, 10_000_000, sub)
	if err != nil {
		return
	}
	resp, halt := w.RunBlock([][]byte{raw}, 5*time.Second)
	if halt != nil {
		o.Halt = halt
		return
	}
	tr := FromExec(resp.TxResults[0])
	if !tr.OK() {
		o.Note = "submit failed: " + tr.String()
		r.Probe("commit:c:submit-refused")
		return
	}
	var id uint64
	if ids := tr.EventAttr("submit_proposal", "proposal_id"); len(ids) > 0 {
		fmt.Sscan(ids[0], &id)
	}
	var votes [][]byte
	for i := range w.Vals {
		v := w.Vals[i].Op
		if raw, err := w.SignCosmos(v, 0, 0, govv1.NewMsgVote(v.Acc(), id, govv1.OptionYes, "")); err == nil {
			votes = append(votes, raw)
		}
	}
	if _, halt = w.RunBlock(votes, 5*time.Second); halt != nil {
		o.Halt = halt
		return
	}
	p, err := w.App.GovKeeper.Proposals.Get(w.Ctx(), id)
	if err != nil || p.VotingEndTime == nil {
		o.Note = "not voting"
		return
	}
	pre := w.Dump()
	balBefore := w.App.BankKeeper.GetAllBalances(w.Ctx(), proposer.Acc())
	if _, halt = w.RunBlock(nil, p.VotingEndTime.Sub(w.Now)+time.Second); halt != nil {
		o.Halt = halt
		return
	}
	post := w.Dump()
	p, err = w.App.GovKeeper.Proposals.Get(w.Ctx(), id)
	if err != nil {
		o.Note = "proposal gone"
		return
	}
	status := strings.TrimPrefix(p.Status.String(), "PROPOSAL_STATUS_")
	o.Note = status + " " + p.FailedReason
	o.Extra["status"] = status
	r.Probe("commit:c:" + status)
	if pred.Err == "" && pred.Status != status {
		r.Probe("commit:c:branch-prediction-differs")
	}
	if status != "FAILED" {
		return
	}
	r.Fault("c:committed:" + typ)
	r.State("commit-c|" + typ + "|" + c18ReasonClass(p.FailedReason))
	// What would the proposal's messages have written? The keys in which the state after the
	// same proposal without its failing message (it passes) differs from the state after the
	// failing proposal, both on branches of the pre-submission state. None of those keys may
	// have changed in the block that ended the proposal (begin/end-block work of other modules
	// - maturing unbondings, rewards - does not touch them).
	if okRun := predState; s.A.Str("valid") != "" && okRun.Err == "" && okRun.Status == "PASSED" && pred.Err == "" {
		wk := FilterDiff(Diff(pred.Post, okRun.Post), func(x DiffEntry) bool { return x.Store == "gov" })
		r.Probe("commit:c:judged")
		var left []DiffEntry
		for _, x := range wk {
			a, aok := pre[x.Store][string(x.Key)]
			b, bok := post[x.Store][string(x.Key)]
			if aok != bok || string(a) != string(b) {
				left = append(left, DiffEntry{Store: x.Store, Key: x.Key, A: a, B: b})
			}
		}
		if len(left) > 0 {
			cs.violate("designated-outcome-only", "committed/gov/"+typ+"/"+c18KeyClass(left[0]), "committed history: proposal %d [%s] FAILED (%s) but keys its messages write changed in the block that ended it:%s", id, c18TrimTo(spec, 120), firstLine(p.FailedReason), c18DiffText(left, 5))
		}
	}
	// deposits handled: refunded in full (no burn flags in this world)
	balAfter := w.App.BankKeeper.GetAllBalances(w.Ctx(), proposer.Acc())
	want := balBefore.Add(params.MinDeposit...)
	if !balAfter.Equal(want) {
		cs.violate("deposits-handled", "committed/gov/"+typ, "proposal %d FAILED: proposer balance %s, expected the deposit back (%s)", id, balAfter, want)
	}
}
