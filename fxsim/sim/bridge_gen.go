package sim

import (
	"encoding/hex"
	"fmt"
	ethcrypto "github.com/ethereum/go-ethereum/crypto"
	"math/big"
	"strings"

	sdkmath "cosmossdk.io/math"
	sdk "github.com/cosmos/cosmos-sdk/types"
	"github.com/ethereum/go-ethereum/common"

	cctypes "github.com/functionx/fx-core/v8/x/crosschain/types"
)

// Gen draws the next step. It may read committed state and the model freely; everything it
// decides is written into the concrete step.
func (e BridgeEngine) Gen(r *Run) Step {
	st := bst(r)
	if len(st.Setup) > 0 {
		s := st.Setup[0]
		st.Setup = st.Setup[1:]
		return s
	}
	if st.Race != nil {
		if s, ok := e.genRace(r); ok {
			return s
		}
	}
	if st.Edge != nil {
		if s, ok := e.genEdge(r); ok {
			return s
		}
	}
	for try := 0; try < 20; try++ {
		kind := Weighted(r.Rng, r.Cfg.Weights)
		if s, ok := e.genKind(r, kind); ok {
			return s
		}
	}
	return Step{Kind: "block", DtMs: 5000, N: 1}
}

func (e BridgeEngine) dt(r *Run) int64 {
	return int64(1000 + r.Rng.IntN(9000))
}

func (e BridgeEngine) pickChain(r *Run) *ChainSt {
	st := bst(r)
	return st.Chains[r.Rng.IntN(len(st.Chains))]
}

func (e BridgeEngine) genKind(r *Run, kind string) (Step, bool) {
	st := bst(r)
	w := r.W
	c := e.pickChain(r)
	ctx := w.Ctx()
	v := w.ViewChain(ctx, c.Name)
	blk := func(txs ...Tx) Step { return Step{Kind: "block", DtMs: e.dt(r), N: 1, Txs: txs} }
	if r.Prop == "C07" && len(v.Oracles) > 0 && v.OnlinePower().IsZero() && r.Pct(50) {
		// every oracle of the chain is offline: governance lowers the stake threshold below one FX and
		// an approved oracle without a record bonds such a stake (bridge power zero) - the only one online
		one := sdkmath.NewInt(1_000_000_000_000_000_000)
		if !v.Params.DelegateThreshold.Amount.LT(one) {
			return Step{Kind: "gov", DtMs: e.dt(r), A: A("what", "update_params", "chain", c.Name, "delegate_threshold_raw", []string{"300000000000000000", "1", "999999999999999999"}[r.Rng.IntN(3)])}, true
		}
		appr := map[string]bool{}
		for _, a := range v.Approved {
			appr[a] = true
		}
		var list []string
		spare := -1
		for j := range c.Oracles {
			ob := c.oracleKey(w, j).Bech()
			_, has := v.Oracles[ob]
			if appr[ob] {
				list = append(list, fmt.Sprint(j))
				if !has {
					amt := v.Params.DelegateThreshold.Amount.AddRaw(int64(r.Rng.IntN(1000)))
					if !amt.LT(one) {
						amt = one.SubRaw(1)
					}
					r.Probe("only-zero-power-oracle-bonds")
					return blk(Tx{K: "bond", S: KeyName("oracle", c.oracleKey(w, j).Idx), A: A("chain", c.Name, "o", j, "amount", amt.String(), "val", r.Rng.IntN(r.Cfg.World.Validators))}), true
				}
			} else if !has && spare < 0 {
				spare = j
			}
		}
		if spare >= 0 {
			list = append(list, fmt.Sprint(spare))
			return Step{Kind: "gov", DtMs: e.dt(r), A: A("what", "update_oracles", "chain", c.Name, "oracles", strings.Join(list, ","))}, true
		}
	}
	switch kind {
	case "claim":
		txs := e.genClaims(r, c, v)
		if len(txs) == 0 {
			return Step{}, false
		}
		// sometimes confirmations and user traffic share the block
		if r.Pct(30) {
			txs = append(txs, e.genConfirms(r, c, v, 2)...)
		}
		r.Rng.Shuffle(len(txs), func(i, j int) { txs[i], txs[j] = txs[j], txs[i] })
		return blk(txs...), true
	case "confirm":
		txs := e.genConfirms(r, c, v, 1+r.Rng.IntN(4))
		if len(txs) == 0 {
			return Step{}, false
		}
		return blk(txs...), true
	case "send":
		if r.Pct(20) {
			u := r.Rng.IntN(st.NUsers)
			return blk(Tx{K: "convert_denom", S: KeyName("user", u), A: A("denom", "usdt", "amount", 10+r.Rng.IntN(400), "receiver", w.Key("user", u).Bech(), "target", c.Name)}), true
		}
		t, ok := e.genSend(r, c, v)
		if !ok {
			return Step{}, false
		}
		txs := []Tx{t}
		if r.Pct(30) {
			if t2, ok := e.genSend(r, c, v); ok && t2.S != t.S {
				txs = append(txs, t2)
			}
		}
		return blk(txs...), true
	case "flood":
		// one block with more transfers of one token than a batch holds, then the batch request
		if st.Flooded[c.Name] {
			return Step{}, false
		}
		var tok *TokenInfo
		for _, t := range c.Tokens {
			if t.Added && t.Kind != "fx" {
				tok = t
			}
		}
		if tok == nil {
			return Step{}, false
		}
		var txs []Tx
		n := 101 + r.Rng.IntN(25)
		for i := 0; i < n; i++ {
			u := r.Rng.IntN(st.NUsers)
			dest := ExtAddrStr(c.Name, w.Key("extuser", r.Rng.IntN(10)).Hex())
			txs = append(txs, Tx{K: "send_to_external", S: KeyName("user", u), A: A("chain", c.Name, "denom", tok.Base, "amount", 1+r.Rng.IntN(9), "fee", 1+r.Rng.IntN(12), "dest", dest)})
		}
		if t, ok := e.genBatch(r, c, v); ok {
			t.A["base_fee"], t.A["min_fee"] = fmt.Sprint(1+r.Rng.IntN(3)), "1"
			t.A["denom"] = cctypes.NewBridgeDenom(c.Name, ExtAddrStr(c.Name, tok.Contract))
			txs = append(txs, t)
		}
		st.Flooded[c.Name] = true
		r.Probe("flood-over-batch-size")
		return blk(txs...), true
	case "edge":
		if st.Edge != nil || st.Race != nil || !c.Ext.Inited {
			return Step{}, false
		}
		st.Edge = &edgeSt{Chain: c.Name}
		return e.genEdge(r)
	case "race2":
		// scripted scenario driven stage by stage from the current state (see genRace): batches of two
		// tokens in flight together, the newer one executed first
		if st.Race != nil || st.Raced[c.Name] || !c.Ext.Inited {
			return Step{}, false
		}
		n := 0
		for _, t := range c.Tokens {
			if t.Added {
				n++
			}
		}
		if n < 2 {
			return Step{}, false
		}
		st.Raced[c.Name] = true
		st.Race = &raceSt{Chain: c.Name}
		r.Probe("two-token-race-started")
		return e.genRace(r)
	case "cancel":
		if len(v.Pool) == 0 {
			return Step{}, false
		}
		p := v.Pool[r.Rng.IntN(len(v.Pool))]
		signer := e.keyNameOfBech(r, p.Sender)
		if signer == "" {
			return Step{}, false
		}
		return blk(Tx{K: "cancel_send", S: signer, A: A("chain", c.Name, "id", p.Id)}), true
	case "incfee":
		if len(v.Pool) == 0 {
			return Step{}, false
		}
		p := v.Pool[r.Rng.IntN(len(v.Pool))]
		signer := e.keyNameOfBech(r, p.Sender)
		if signer == "" {
			return Step{}, false
		}
		if r.Pct(20) { // somebody else pays the fee bump
			signer = KeyName("user", r.Rng.IntN(st.NUsers))
		}
		// the fee is paid in the bridge denomination of the queued token (FX for FX) - or, as a
		// fault, in the denomination of another bridge token of the chain
		feeDenom := func(t *TokenInfo) string {
			if t.Kind == "fx" {
				return "FX"
			}
			return cctypes.NewBridgeDenom(c.Name, ExtAddrStr(c.Name, t.Contract))
		}
		denom := ""
		for _, t := range c.Tokens {
			if ExtAddrStr(c.Name, t.Contract) == p.Token.Contract {
				denom = feeDenom(t)
			}
		}
		if r.Pct(25) && len(c.Tokens) > 1 {
			denom = feeDenom(c.Tokens[r.Rng.IntN(len(c.Tokens))])
		}
		if denom == "" {
			return Step{}, false
		}
		txs := []Tx{{K: "increase_fee", S: signer, A: A("chain", c.Name, "id", p.Id, "denom", denom, "fee", 1+r.Rng.IntN(50))}}
		if r.Pct(30) { // race with a batch request in the same block
			if bt, ok := e.genBatch(r, c, v); ok {
				txs = append(txs, bt)
				r.Probe("incfee-races-batch")
			}
		}
		r.Rng.Shuffle(len(txs), func(i, j int) { txs[i], txs[j] = txs[j], txs[i] })
		return blk(txs...), true
	case "batch":
		t, ok := e.genBatch(r, c, v)
		if !ok {
			return Step{}, false
		}
		return blk(t), true
	case "callout":
		t, ok := e.genCallOut(r, c, v)
		if !ok {
			return Step{}, false
		}
		return blk(t), true
	case "exec":
		pend := v.SortedPending()
		if len(pend) == 0 {
			return Step{}, false
		}
		var txs []Tx
		n := 1 + r.Rng.IntN(3)
		for i := 0; i < n && i < len(pend); i++ {
			p := pend[i]
			if r.Pct(25) || (r.Cfg.World.IbcVoucher != nil && r.Pct(60)) { // deposits with an IBC target may stay parked: do not queue behind them
				p = pend[r.Rng.IntN(len(pend))]
			}
			txs = append(txs, Tx{K: "execute_claim", S: KeyName("user", r.Rng.IntN(st.NUsers)), A: A("chain", c.Name, "n", p), Gas: 5_000_000})
		}
		if r.Pct(15) { // same nonce twice in one block
			txs = append(txs, Tx{K: "execute_claim", S: KeyName("adv", 0), A: A("chain", c.Name, "n", pend[0]), Gas: 5_000_000})
		}
		return blk(txs...), true
	case "ext-event":
		if !c.Ext.Inited {
			return Step{}, false
		}
		var toks []*TokenInfo
		for _, t := range c.Tokens {
			if t.Added {
				toks = append(toks, t)
			}
		}
		if len(toks) == 0 {
			return Step{}, false
		}
		t := toks[r.Rng.IntN(len(toks))]
		if r.Pct(70) {
			target := ""
			if (r.Prop == "C03" || r.Prop == "C02") && r.Pct(50) {
				// routing targets in every spelling the parser knows
				target = []string{"erc20", "module/evm", "px/transfer/channel-0", "ibc/0/px", "ibc/0/0x", "chain/gravity", "gravity", "chain/erc20"}[r.Rng.IntN(8)]
			}
			if v := r.Cfg.World.IbcVoucher; v != nil && r.Pct(45) {
				// deposit that is to travel on over IBC: the open channel (bech32 or hex receiver form), sometimes a route
				// that does not exist
				target = []string{"ibc/0/px", "ibc/0/px", "ibc/0/0x", "px/transfer/channel-0", "ibc/7/px", "ibc/1/px"}[r.Rng.IntN(6)]
				r.Fault("deposit-with-ibc-target")
			}
			return Step{Kind: "ext", A: A("chain", c.Name, "op", "send_to_fx", "symbol", t.Symbol, "user", r.Rng.IntN(st.NUsers), "amount", 1+r.Rng.IntN(5000), "target", target)}, true
		}
		// inbound bridge call to an EOA (tokens only)
		nt := 1 + r.Rng.IntN(len(toks))
		var syms, amts []string
		for i := 0; i < nt; i++ {
			syms = append(syms, toks[i].Symbol)
			amts = append(amts, fmt.Sprint(1+r.Rng.IntN(3000)))
		}
		to := w.Key("user", r.Rng.IntN(st.NUsers)).Hex()
		if r.Prop == "C03" && r.Pct(60) {
			to = RecorderAddr(w)
		}
		if (r.Prop == "C04" || r.Prop == "C05" || r.Prop == "C06") && r.Pct(40) {
			to = RecorderAddr(w)
		}
		fwd := RecorderAddr(w) // C01 worlds: the forwarder is the first contract user/0 created
		if r.Prop == "C04" {
			fwd = ethcrypto.CreateAddress(w.Key("user", 0).Hex(), 1)
		}
		if (r.Prop == "C01" && r.Pct(50)) || (r.Prop == "C04" && r.Pct(12)) {
			// re-entrancy: the call goes (memo = send-call-to) to the forwarder contract with call data
			// executeClaim(chain, <the nonce this very event will get>)
			act := PAct{K: "pre", T: "crosschain", M: "executeClaim", Args: []string{c.Name, fmt.Sprint(c.Ext.EventNonce + 1)}}
			if _, data, err := resolveAct(&act, func(s string) string { return s }); err == nil {
				r.Probe("reentrant-bridge-call-emitted")
				// arm the forwarder (1 unit of FX) first; the event follows as the next step
				st.Setup = append(st.Setup, Step{Kind: "ext", A: A("chain", c.Name, "op", "bridge_call", "symbols", strings.Join(syms, ","), "amounts", strings.Join(amts, ","), "user", r.Rng.IntN(st.NUsers), "to", fwd.Hex(),
					"data", hex.EncodeToString(data), "memo", "0000000000000000000000000000000000000000000000000000000000010000", "value", 0)})
				return Step{Kind: "block", DtMs: e.dt(r), N: 1, Txs: []Tx{{K: "eth_call", S: KeyName("user", r.Rng.IntN(st.NUsers)), A: A("to", fwd.Hex(), "data", "", "value", "1"), Gas: 200_000}}}, true
			}
		}
		return Step{Kind: "ext", A: A("chain", c.Name, "op", "bridge_call", "symbols", strings.Join(syms, ","), "amounts", strings.Join(amts, ","), "user", r.Rng.IntN(st.NUsers), "to", to.Hex(),
			"data", []string{"", "", "00", "1234"}[r.Rng.IntN(4)], "memo", []string{"", "", "00", "0011", "010000", "0000000000000000000000000000000000000000000000000000000000010000"}[r.Rng.IntN(6)], "value", []int{0, 0, 100, 1000, 12}[r.Rng.IntN(5)])}, true
	case "ext-height":
		n := 1 + r.Rng.IntN(30)
		if r.Cfg.FaultOn("ext-burst") && r.Pct(20) {
			n = 200 + r.Rng.IntN(5000)
			r.Fault("ext-burst")
		}
		if r.Cfg.FaultOn("ext-stall") && r.Pct(30) {
			r.Fault("ext-stall")
			return Step{}, false
		}
		return Step{Kind: "ext", A: A("chain", c.Name, "op", "height", "n", n)}, true
	case "relay":
		return e.genRelay(r, c, v)
	case "churn":
		return e.genChurn(r, c, v)
	case "gov":
		if r.Pct(20) {
			// governance adds / removes spare aliases of the bridged coin (the bank metadata is rewritten)
			return Step{Kind: "gov", DtMs: e.dt(r), A: A("what", "alias", "denom", "usdt", "alias", fmt.Sprintf("simalias%d", r.Rng.IntN(3)))}, true
		}
		if r.Prop == "C07" && r.Pct(25) {
			// governance lowers the stake threshold below one whole FX: oracles whose bridge power is zero become possible
			return Step{Kind: "gov", DtMs: e.dt(r), A: A("what", "update_params", "chain", c.Name, "delegate_threshold_raw", []string{"300000000000000000", "1", "999999999999999999"}[r.Rng.IntN(3)])}, true
		}
		if r.Pct(50) {
			return Step{Kind: "gov", DtMs: e.dt(r), A: A("what", "update_params", "chain", c.Name, "signed_window", 2+r.Rng.IntN(40))}, true
		}
		return Step{Kind: "gov", DtMs: e.dt(r), A: A("what", "update_params", "chain", c.Name, "batch_timeout_ms", 60_000+r.Rng.IntN(600_000), "avg_ext_block_ms", 500+r.Rng.IntN(14000))}, true
	case "empty":
		n := 1 + r.Rng.IntN(int(c.Cfg.SignedWindow)+3)
		s := Step{Kind: "block", DtMs: e.dt(r), N: n}
		if r.Cfg.FaultOn("val-downtime") && r.Cfg.World.Validators > 1 && r.Pct(25) {
			s.A = A("absent", 1+r.Rng.IntN(r.Cfg.World.Validators-1))
			r.Fault("val-downtime")
		}
		return s, true
	case "jump":
		if !r.Cfg.FaultOn("clock-jump") && r.Pct(60) {
			return Step{}, false
		}
		r.Fault("clock-jump")
		secs := []int64{600, 3600, 86400, r.Cfg.World.UnbondingSec + 10, 30 * 86400}[r.Rng.IntN(5)]
		return Step{Kind: "block", DtMs: secs * 1000, N: 1}, true
	case "adv":
		return e.genAdversary(r, c, v)
	case "rebond-cycle":
		// scripted scenario (queued as ordinary concrete steps): an oracle votes on a pending event,
		// is removed by governance, waits for the unbonding period, unbonds, is approved again and
		// bonds again - the vote cursor, the indexes and the stake ledger must survive that.
		var bonded []int
		appr := map[string]bool{}
		for _, a := range v.Approved {
			appr[a] = true
		}
		for i := range c.Oracles {
			if or, ok := v.Oracles[c.oracleKey(w, i).Bech()]; ok && or.Online && appr[or.OracleAddress] {
				bonded = append(bonded, i)
			}
		}
		if len(bonded) < 4 || !c.Ext.Inited || len(c.Tokens) == 0 {
			return Step{}, false
		}
		x := bonded[r.Rng.IntN(len(bonded))]
		xk := c.oracleKey(w, x)
		list := func(with bool) string {
			var l []string
			for i := range c.Oracles {
				if appr[c.oracleKey(w, i).Bech()] && (i != x || with) {
					l = append(l, fmt.Sprint(i))
				}
			}
			return strings.Join(l, ",")
		}
		signer := KeyName("bridger", c.bridgerKey(w, x).Idx)
		if bn, ok := e.bridgerNameOf(r, c, v.Oracles[xk.Bech()].BridgerAddress); ok {
			signer = bn
		}
		var claims []Tx
		top := c.Ext.EventNonce + 1
		for n := v.EffectiveOracleNonce(xk.Bech()) + 1; n <= top; n++ {
			a := A("chain", c.Name, "o", x, "n", n)
			if signer != KeyName("bridger", c.bridgerKey(w, x).Idx) {
				a["inner"] = signer
			}
			claims = append(claims, Tx{K: "claim", S: signer, A: a})
		}
		q := []Step{
			{Kind: "ext", A: A("chain", c.Name, "op", "send_to_fx", "symbol", c.Tokens[0].Symbol, "user", 0, "amount", 1+r.Rng.IntN(500), "target", "")},
			{Kind: "block", DtMs: 5000, N: 1, Txs: claims},
			{Kind: "gov", DtMs: 5000, A: A("what", "update_oracles", "chain", c.Name, "oracles", list(false))},
			{Kind: "block", DtMs: (r.Cfg.World.UnbondingSec + 120) * 1000, N: 1},
			{Kind: "block", DtMs: 5000, N: 1, Txs: []Tx{{K: "unbond", S: KeyName("oracle", xk.Idx), A: A("chain", c.Name)}}},
			{Kind: "gov", DtMs: 5000, A: A("what", "update_oracles", "chain", c.Name, "oracles", list(true))},
			{Kind: "block", DtMs: 5000, N: 1, Txs: []Tx{{K: "bond", S: KeyName("oracle", xk.Idx), A: A("chain", c.Name, "o", x, "amount", FX(c.Cfg.DelegateThresholdFX).String(), "val", r.Rng.IntN(r.Cfg.World.Validators))}}},
		}
		if r.Pct(50) { // come back with a new bridger key: the old one is retired
			q[6].Txs[0].A["bridger"] = KeyName("sparebridger", r.Rng.IntN(4))
		}
		r.Fault("membership")
		r.Probe("rebond-cycle-scripted")
		st.Setup = append(st.Setup, q[1:]...)
		return q[0], true
	case "actor":
		i := r.Rng.IntN(len(c.Oracles))
		if _, ok := v.Oracles[c.oracleKey(w, i).Bech()]; !ok {
			return Step{}, false
		}
		oa := c.Oracles[i]
		switch {
		case (oa.CrashClaims || oa.CrashConfirms) && r.Pct(50):
			return Step{Kind: "actor", A: A("chain", c.Name, "o", i, "op", "recover")}, true
		case r.Cfg.FaultOn("crash-confirms") && r.Pct(60):
			return Step{Kind: "actor", A: A("chain", c.Name, "o", i, "op", "crash-confirms")}, true
		case r.Cfg.FaultOn("crash-claims"):
			return Step{Kind: "actor", A: A("chain", c.Name, "o", i, "op", "crash-claims")}, true
		}
		return Step{}, false
	case "rejoin":
		// a slashed oracle pays its penalty and comes back (soon after the slash)
		for i := range c.Oracles {
			ok := c.oracleKey(w, i)
			or, exists := v.Oracles[ok.Bech()]
			if !exists || or.Online || or.SlashTimes == 0 {
				continue
			}
			amt := or.GetSlashAmount(v.Params.SlashFraction).Add(FX(int64(1 + r.Rng.IntN(10))))
			if r.Pct(35) && or.GetSlashAmount(v.Params.SlashFraction).IsPositive() {
				amt = or.GetSlashAmount(v.Params.SlashFraction) // exactly the penalty, no new stake
				r.Probe("rejoin-with-exact-penalty")
			}
			return blk(Tx{K: "add_delegate", S: KeyName("oracle", ok.Idx), A: A("chain", c.Name, "amount", amt.String())}), true
		}
		return Step{}, false
	}
	return Step{}, false
}

func (e BridgeEngine) keyNameOfBech(r *Run, bech string) string {
	st := bst(r)
	w := r.W
	for i := 0; i < st.NUsers; i++ {
		if w.Key("user", i).Bech() == bech {
			return KeyName("user", i)
		}
	}
	for i := 0; i < 2; i++ {
		if w.Key("adv", i).Bech() == bech {
			return KeyName("adv", i)
		}
	}
	return ""
}

func (e BridgeEngine) baseDenomOfContract(c *ChainSt, contract string) string {
	for _, t := range c.Tokens {
		if ExtAddrStr(c.Name, t.Contract) == contract {
			return t.Base
		}
	}
	return ""
}

// genClaims: each live oracle claims its next event (own nonce order), with Byzantine
// variations when those faults are enabled.
func (e BridgeEngine) genClaims(r *Run, c *ChainSt, v *ChainView) []Tx {
	w := r.W
	var txs []Tx
	top := c.Ext.EventNonce
	if top == 0 {
		return nil
	}
	for i, oa := range c.Oracles {
		ob := c.oracleKey(w, i).Bech()
		or, ok := v.Oracles[ob]
		if !ok {
			continue
		}
		if !or.Online {
			// an oracle that is offline (slashed, or removed by governance) still tries to vote now and then
			if !(r.Cfg.FaultOn("offline-claims") && r.Pct(30)) {
				continue
			}
			r.Fault("offline-claims")
		}
		if oa.CrashClaims {
			continue
		}
		if r.Cfg.FaultOn("lag") && r.Pct(35) {
			r.Fault("lag")
			continue
		}
		if r.Cfg.FaultOn("drop") && r.Pct(10) {
			r.Fault("drop")
			continue
		}
		next := v.EffectiveOracleNonce(ob) + 1
		signer := KeyName("bridger", c.bridgerKey(w, i).Idx)
		if bn, ok := e.bridgerNameOf(r, c, or.BridgerAddress); ok {
			signer = bn
		}
		burst := 1
		if r.Pct(30) {
			burst = 1 + r.Rng.IntN(3)
		}
		for b := 0; b < burst && next <= top; b++ {
			a := A("chain", c.Name, "o", i, "n", next)
			if signer != KeyName("bridger", c.bridgerKey(w, i).Idx) {
				a["inner"] = signer
			}
			t := Tx{K: "claim", S: signer, A: a}
			ev := c.Ext.Event(next)
			if r.Cfg.FaultOn("conflicting-claim") && r.Pct(12) && ev != nil {
				if f, val := e.variantFor(r, c, ev); f != "" {
					t.A["variant"], t.A["vval"] = f, val
					r.Fault("conflicting-claim")
				}
			}
			if r.Cfg.FaultOn("minority-liar") && ev != nil && r.Pct(60) && t.A["variant"] == "" {
				// one designated oracle holding well under a third of the power reports a far too high external
				// height for a real event: with an honest majority nothing it says may ever be observed
				ob := c.oracleKey(w, i).Bech()
				if or, ok := v.Oracles[ob]; ok && or.Online && (c.Liar == "" || c.Liar == ob) && v.TotalPower.IsPositive() &&
					or.GetPower().MulRaw(100).LT(v.TotalPower.MulRaw(33)) {
					c.Liar = ob
					t.A["variant"], t.A["vval"] = "set:BlockHeight", fmt.Sprint(ev.Height+uint64([]int{1, 1000, 2_000_000}[r.Rng.IntN(3)])+uint64(r.Rng.IntN(1000)))
					r.Fault("minority-liar")
				}
			}
			if r.Cfg.FaultOn("dup-bytes") && r.Pct(5) {
				t.F = append(t.F, "dup-bytes")
				r.Fault("dup-bytes")
			}
			txs = append(txs, t)
			if r.Cfg.FaultOn("dup-msg") && r.Pct(6) {
				txs = append(txs, Tx{K: "claim", S: signer, A: copyArgs(a)})
				r.Fault("dup-msg")
			}
			next++
		}
		if r.Cfg.FaultOn("double-vote") && r.Pct(8) && next > 1 {
			// vote again for an already voted nonce (possibly another variant)
			a := A("chain", c.Name, "o", i, "n", next-1)
			if ev := c.Ext.Event(next - 1); ev != nil && r.Pct(50) && r.Cfg.FaultOn("conflicting-claim") {
				if f, val := e.variantFor(r, c, ev); f != "" {
					a["variant"], a["vval"] = f, val
				}
			}
			txs = append(txs, Tx{K: "claim", S: signer, A: a})
			r.Fault("double-vote")
		}
		if r.Cfg.FaultOn("skip-vote") && r.Pct(6) && next+1 <= top {
			txs = append(txs, Tx{K: "claim", S: signer, A: A("chain", c.Name, "o", i, "n", next+1)})
			r.Fault("skip-vote")
		}
	}
	if r.Cfg.FaultOn("foreign-wrap") && r.Pct(15) {
		// an outsider wraps a claim that names a real bridger
		for i := range c.Oracles {
			ob := c.oracleKey(w, i).Bech()
			or, ok := v.Oracles[ob]
			if !ok || !or.Online {
				continue
			}
			next := v.EffectiveOracleNonce(ob) + 1
			if next > top {
				continue
			}
			inner := KeyName("bridger", c.bridgerKey(w, i).Idx)
			if bn, ok := e.bridgerNameOf(r, c, or.BridgerAddress); ok {
				inner = bn
			}
			txs = append(txs, Tx{K: "claim", S: KeyName("adv", r.Rng.IntN(2)), A: A("chain", c.Name, "o", i, "n", next, "inner", inner)})
			r.Fault("foreign-wrap")
			break
		}
	}
	return txs
}

func copyArgs(a Args) Args {
	b := Args{}
	for k, v := range a {
		b[k] = v
	}
	return b
}

// bridgerNameOf finds the key name of a registered bridger address.
func (e BridgeEngine) bridgerNameOf(r *Run, c *ChainSt, bech string) (string, bool) {
	w := r.W
	for i := range c.Oracles {
		if c.bridgerKey(w, i).Bech() == bech {
			return KeyName("bridger", c.bridgerKey(w, i).Idx), true
		}
	}
	for i := 0; i < 4; i++ {
		if w.Key("sparebridger", i).Bech() == bech {
			return KeyName("sparebridger", i), true
		}
	}
	return "", false
}

// variantFor picks one field of the honest claim (by reflection over the claim type) and a
// replacement value that still passes stateless validation.
func (e BridgeEngine) variantFor(r *Run, c *ChainSt, ev *ExtEvent) (string, string) {
	w := r.W
	honest := c.buildClaim(w, ev, c.bridgerKey(w, 0).Bech(), "")
	if honest == nil {
		return "", ""
	}
	fields := claimFields(honest)
	if len(fields) == 0 {
		return "", ""
	}
	if r.Pct(25) {
		// re-split: move characters between two free-form fields (same concatenation, other meaning)
		type pair struct{ a, b string }
		var ok []string
		for _, fa := range fields {
			for _, fb := range fields {
				if fa == fb {
					continue
				}
				for k := 1; k <= 2; k++ {
					spec := fmt.Sprintf("%s:%s:%d", fa, fb, k)
					cl := c.buildClaim(w, ev, c.bridgerKey(w, 0).Bech(), "")
					if mutateClaim(cl, "resplit", spec) == nil && safeValidate(cl) == nil {
						ok = append(ok, spec)
					}
				}
			}
		}
		if len(ok) > 0 {
			return "resplit", ok[r.Rng.IntN(len(ok))]
		}
	}
	if r.Pct(25) {
		// structural variants: other letter case of a string, first two elements of a list exchanged
		var ok []string
		for _, f := range fields {
			for _, kind := range []string{"case:", "swap:"} {
				cl := c.buildClaim(w, ev, c.bridgerKey(w, 0).Bech(), "")
				if mutateClaim(cl, kind+f, "") == nil && safeValidate(cl) == nil {
					ok = append(ok, kind+f)
				}
			}
		}
		if len(ok) > 0 {
			return ok[r.Rng.IntN(len(ok))], "-"
		}
	}
	if r.Pct(30) {
		// another spelling of a routing target, another zero-padding of a hex field
		type fv struct{ f, v string }
		var ok []fv
		for _, f := range fields {
			for k := 0; k < nTargetSpellings; k++ {
				cl := c.buildClaim(w, ev, c.bridgerKey(w, 0).Bech(), "")
				if mutateClaim(cl, "alias:"+f, fmt.Sprint(k)) == nil && safeValidate(cl) == nil {
					ok = append(ok, fv{"alias:" + f, fmt.Sprint(k)})
				}
			}
			for k := 0; k < 3; k++ {
				cl := c.buildClaim(w, ev, c.bridgerKey(w, 0).Bech(), "")
				if mutateClaim(cl, "pad:"+f, fmt.Sprint(k)) == nil && safeValidate(cl) == nil {
					ok = append(ok, fv{"pad:" + f, fmt.Sprint(k)})
				}
			}
		}
		if len(ok) > 0 {
			x := ok[r.Rng.IntN(len(ok))]
			return x.f, x.v
		}
	}
	otherAddr := ExtAddrStr(c.Name, w.Key("extuser", 50+r.Rng.IntN(5)).Hex())
	cands := []string{otherAddr, w.Key("adv", 0).Bech(), "0000000000000000000000000000000000000000000000000000000000010000", "00", hex.EncodeToString([]byte("erc20")), "X", "FX"}
	for try := 0; try < 6; try++ {
		f := fields[r.Rng.IntN(len(fields))]
		start := r.Rng.IntN(len(cands))
		for k := 0; k < len(cands); k++ {
			val := cands[(start+k)%len(cands)]
			cl := c.buildClaim(w, ev, c.bridgerKey(w, 0).Bech(), "")
			if mutateClaim(cl, f, val) != nil {
				continue
			}
			if safeValidate(cl) == nil {
				return f, val
			}
		}
	}
	return "", ""
}

func safeValidate(cl cctypes.ExternalClaim) (err error) {
	defer func() {
		if r := recover(); r != nil {
			err = fmt.Errorf("panic: %v", r)
		}
	}()
	return cl.ValidateBasic()
}

// genConfirms: live oracles confirm what they have not confirmed yet.
func (e BridgeEngine) genConfirms(r *Run, c *ChainSt, v *ChainView, max int) []Tx {
	w := r.W
	var txs []Tx
	for i, oa := range c.Oracles {
		if len(txs) >= max*len(c.Oracles) {
			break
		}
		ob := c.oracleKey(w, i).Bech()
		or, ok := v.Oracles[ob]
		if !ok {
			continue
		}
		if oa.CrashConfirms {
			continue
		}
		if r.Cfg.FaultOn("drop") && r.Pct(10) {
			r.Fault("drop")
			continue
		}
		signer := KeyName("bridger", c.bridgerKey(w, i).Idx)
		inner := ""
		if bn, ok := e.bridgerNameOf(r, c, or.BridgerAddress); ok && bn != signer {
			signer, inner = bn, bn
		}
		mk := func(a Args) Tx {
			if inner != "" {
				a["inner"] = inner
			}
			if r.Pct(50) {
				a["direct"] = "1"
			}
			t := Tx{K: "confirm", S: signer, A: a}
			if r.Cfg.FaultOn("bad-signature") && r.Pct(8) {
				e.corruptConfirm(r, c, &t)
			}
			return t
		}
		n := 0
		for _, os := range v.OracleSets {
			if _, done := v.SetConfirms[os.Nonce][ob]; !done && n < max {
				txs = append(txs, mk(A("chain", c.Name, "o", i, "type", "oracleset", "nonce", os.Nonce)))
				n++
			}
		}
		for _, b := range v.Batches {
			if _, done := v.BatchConfirms[batchID(b.TokenContract, b.BatchNonce)][ob]; !done && n < max {
				txs = append(txs, mk(A("chain", c.Name, "o", i, "type", "batch", "nonce", b.BatchNonce, "token", b.TokenContract)))
				n++
			}
		}
		for _, bc := range v.Calls {
			if _, done := v.CallConfirms[bc.Nonce][ob]; !done && n < max {
				txs = append(txs, mk(A("chain", c.Name, "o", i, "type", "bridgecall", "nonce", bc.Nonce)))
				n++
			}
		}
		if r.Cfg.FaultOn("dup-msg") && n > 0 && r.Pct(10) {
			txs = append(txs, Tx{K: "confirm", S: txs[len(txs)-1].S, A: copyArgs(txs[len(txs)-1].A)})
			r.Fault("dup-msg")
		}
	}
	return txs
}

func (e BridgeEngine) corruptConfirm(r *Run, c *ChainSt, t *Tx) {
	w := r.W
	r.Fault("bad-signature")
	other := (t.A.Int("o") + 1) % len(c.Oracles)
	switch r.Rng.IntN(11) {
	case 10:
		t.A["sigfault"] = "trailing"
	case 9:
		// somebody else submits the oracle's correctly signed confirmation in the direct message, naming
		// itself as bridger (the signature is public once the oracle has produced it)
		t.A["direct"] = "1"
		t.S = KeyName("adv", r.Rng.IntN(2))
		if r.Pct(40) {
			t.S = KeyName("bridger", c.bridgerKey(w, other).Idx)
		}
		t.A["inner"] = t.S
		t.A["foreigndirect"] = "1"
	case 8:
		// somebody else submits the oracle's (correctly signed) confirmation inside the generic wrapper
		if !t.A.Has("inner") {
			t.A["inner"] = t.S
		}
		delete(t.A, "direct")
		t.A["wrapby"] = "1"
		if r.Pct(50) {
			t.S = KeyName("adv", r.Rng.IntN(2))
		} else {
			t.S = KeyName("bridger", c.bridgerKey(w, other).Idx)
		}
	case 0:
		t.A["signkey"] = KeyName("ext", c.extKey(w, other).Idx) // wrong key
	case 1:
		t.A["gid"] = "other-gravity-id" // signature for another chain id
	case 2:
		t.A["prefix"] = "other"
	case 3:
		t.A["sigfault"] = "malleate"
	case 4:
		t.A["sigfault"] = "truncate"
	case 5:
		t.A["sigfault"] = "garbage"
	case 6:
		t.A["extaddr"] = KeyName("ext", c.extKey(w, other).Idx) // another oracle's external address
	case 7:
		t.A["sigfault"] = "v01" // legal alternative encoding of v
	}
	t.A["byz"] = "1"
}

func (e BridgeEngine) genSend(r *Run, c *ChainSt, v *ChainView) (Tx, bool) {
	st := bst(r)
	w := r.W
	u := r.Rng.IntN(st.NUsers)
	uk := w.Key("user", u)
	var cands []*TokenInfo
	for _, t := range c.Tokens {
		if t.Added && w.App.BankKeeper.GetBalance(w.Ctx(), uk.Acc(), t.Base).Amount.GT(sdkmath.NewInt(10)) {
			cands = append(cands, t)
		}
	}
	if len(cands) == 0 {
		return Tx{}, false
	}
	t := cands[r.Rng.IntN(len(cands))]
	bal := w.App.BankKeeper.GetBalance(w.Ctx(), uk.Acc(), t.Base).Amount
	maxAmt := int64(2000)
	if t.Kind == "fx" {
		maxAmt = 1_000_000
	}
	if bal.LT(sdkmath.NewInt(maxAmt)) {
		maxAmt = bal.Int64()
	}
	amt := 1 + r.Rng.Int64N(maxAmt)
	fee := 1 + r.Rng.Int64N(20)
	if r.Pct(5) && bal.IsInt64() { // whole balance
		amt = bal.Int64() - fee
		if amt <= 0 {
			return Tx{}, false
		}
	}
	dest := ExtAddrStr(c.Name, w.Key("extuser", r.Rng.IntN(10)).Hex())
	return Tx{K: "send_to_external", S: KeyName("user", u), A: A("chain", c.Name, "denom", t.Base, "amount", amt, "fee", fee, "dest", dest)}, true
}

func (e BridgeEngine) genBatch(r *Run, c *ChainSt, v *ChainView) (Tx, bool) {
	w := r.W
	if len(v.Pool) == 0 && r.Pct(80) {
		return Tx{}, false
	}
	// a bridger (or approved oracle) requests
	var signer string
	for i := range c.Oracles {
		if _, ok := v.Oracles[c.oracleKey(w, i).Bech()]; ok {
			if bn, ok2 := e.bridgerNameOf(r, c, v.Oracles[c.oracleKey(w, i).Bech()].BridgerAddress); ok2 {
				signer = bn
				break
			}
		}
	}
	if signer == "" {
		return Tx{}, false
	}
	var tok *TokenInfo
	if len(v.Pool) > 0 {
		p := v.Pool[r.Rng.IntN(len(v.Pool))]
		for _, t := range c.Tokens {
			if ExtAddrStr(c.Name, t.Contract) == p.Token.Contract {
				tok = t
			}
		}
	}
	if tok == nil {
		tok = c.Tokens[r.Rng.IntN(len(c.Tokens))]
	}
	denom := cctypes.NewBridgeDenom(c.Name, ExtAddrStr(c.Name, tok.Contract))
	if tok.Kind == "fx" {
		denom = "FX"
	}
	baseFee := 0
	if r.Pct(30) {
		baseFee = r.Rng.IntN(15)
	}
	return Tx{K: "request_batch", S: signer, A: A("chain", c.Name, "denom", denom, "min_fee", 1+r.Rng.IntN(10), "base_fee", baseFee,
		"fee_receive", ExtAddrStr(c.Name, w.Key("extuser", 77).Hex()))}, true
}

func (e BridgeEngine) genCallOut(r *Run, c *ChainSt, v *ChainView) (Tx, bool) {
	st := bst(r)
	w := r.W
	u := r.Rng.IntN(st.NUsers)
	uk := w.Key("user", u)
	var coins []string
	for _, t := range c.Tokens {
		if !t.Added {
			continue
		}
		bal := w.App.BankKeeper.GetBalance(w.Ctx(), uk.Acc(), t.Base).Amount
		if bal.GT(sdkmath.NewInt(100)) && r.Pct(70) {
			coins = append(coins, fmt.Sprintf("%d%s", 1+r.Rng.IntN(90), t.Base))
		}
	}
	data := ""
	if len(coins) == 0 || r.Pct(40) {
		data = hex.EncodeToString([]byte{0xde, 0xad, byte(r.Rng.IntN(256))})
	}
	refund := uk.Bech()
	if r.Pct(20) {
		refund = w.Key("user", (u+1)%st.NUsers).Bech()
	}
	memo := ""
	if r.Pct(20) {
		memo = hex.EncodeToString([]byte("memo"))
	}
	to := ExtAddrStr(c.Name, w.Key("extuser", 20+r.Rng.IntN(5)).Hex())
	if c.Name == "eth" && (r.Prop == "C05" || r.Prop == "C04" || r.Prop == "C06") && r.Pct(30) {
		// through the cross-chain precompile, FX as msg.value, refund address often somebody else
		if r.Pct(60) {
			refund = w.Key("user", (u+1)%st.NUsers).Bech()
		}
		return Tx{K: "bridge_call_evm", S: KeyName("user", u), A: A("chain", c.Name, "to", w.Key("extuser", 20+r.Rng.IntN(5)).Hex().Hex(), "data", data, "memo", memo, "refund", refund, "value", 1000+r.Rng.IntN(90000)), Gas: 3_000_000}, true
	}
	return Tx{K: "bridge_call", S: KeyName("user", u), A: A("chain", c.Name, "coins", strings.Join(coins, ","), "to", to, "data", data, "memo", memo, "refund", refund)}, true
}

func (e BridgeEngine) genRelay(r *Run, c *ChainSt, v *ChainView) (Step, bool) {
	st := bst(r)
	if !c.Ext.Inited {
		return Step{}, false
	}
	type cand struct{ a Args }
	var cs []cand
	for _, os := range v.OracleSets {
		if os.Nonce > c.Ext.SetNonce {
			cs = append(cs, cand{A("chain", c.Name, "op", "oracle_set", "nonce", os.Nonce)})
		}
	}
	for _, b := range v.Batches {
		cs = append(cs, cand{A("chain", c.Name, "op", "batch", "nonce", b.BatchNonce, "token", b.TokenContract)})
	}
	for _, bc := range v.Calls {
		succ := 1
		if r.Pct(30) {
			succ = 0
		}
		cs = append(cs, cand{A("chain", c.Name, "op", "bridge_call", "nonce", bc.Nonce, "success", succ)})
	}
	if r.Cfg.FaultOn("relayer-after-cancel") && r.Pct(25) {
		if a, ok := st.Chk.staleObject(r, c, v); ok {
			return Step{Kind: "relay", A: a}, true
		}
	}
	if len(cs) == 0 {
		return Step{}, false
	}
	// out of order: any candidate, not the oldest
	pick := cs[r.Rng.IntN(len(cs))]
	if !r.Cfg.FaultOn("relayer-ooo") {
		pick = cs[0]
	} else {
		r.Fault("relayer-ooo")
	}
	return Step{Kind: "relay", A: pick.a}, true
}

func (e BridgeEngine) genChurn(r *Run, c *ChainSt, v *ChainView) (Step, bool) {
	w := r.W
	blk := func(txs ...Tx) Step { return Step{Kind: "block", DtMs: e.dt(r), N: 1, Txs: txs} }
	approved := map[string]bool{}
	for _, a := range v.Approved {
		approved[a] = true
	}
	i := r.Rng.IntN(len(c.Oracles))
	ok := c.oracleKey(w, i)
	or, exists := v.Oracles[ok.Bech()]
	signer := KeyName("oracle", ok.Idx)
	thr := c.Cfg.DelegateThresholdFX
	switch r.Rng.IntN(8) {
	case 0: // bond (approved or not, within or outside bounds)
		amt := FX(thr + int64(r.Rng.IntN(int(thr*(c.Cfg.DelegateMultiple-1)+1))))
		if r.Pct(15) {
			amt = FX(thr).SubRaw(1)
		}
		if r.Pct(10) {
			amt = FX(thr * c.Cfg.DelegateMultiple).AddRaw(1)
		}
		if one := sdkmath.NewInt(1_000_000_000_000_000_000); v.Params.DelegateThreshold.Amount.LT(one) && r.Pct(60) {
			// a stake between the (lowered) threshold and one whole FX: bridge power zero
			amt = v.Params.DelegateThreshold.Amount.AddRaw(int64(r.Rng.IntN(1000)))
			if !amt.LT(one) {
				amt = one.SubRaw(1)
			}
			r.Probe("bond-with-zero-power-stake")
		}
		a := A("chain", c.Name, "o", i, "amount", amt.String(), "val", r.Rng.IntN(r.Cfg.World.Validators))
		if r.Pct(10) { // try to reuse somebody else's bridger / external address
			j := r.Rng.IntN(len(c.Oracles))
			if r.Pct(50) {
				a["bridger"] = KeyName("bridger", c.bridgerKey(w, j).Idx)
			} else {
				a["ext"] = KeyName("ext", c.extKey(w, j).Idx)
			}
		}
		return blk(Tx{K: "bond", S: signer, A: a}), true
	case 1: // add delegate (also pays the penalty of a slashed oracle and brings it back)
		if !exists {
			return Step{}, false
		}
		amt := FX(1 + int64(r.Rng.IntN(int(thr))))
		if !or.Online {
			slash := or.GetSlashAmount(v.Params.SlashFraction)
			amt = slash.Add(FX(int64(r.Rng.IntN(int(thr)))))
			if r.Pct(20) {
				amt = slash.SubRaw(1)
			}
			if !amt.IsPositive() {
				amt = sdkmath.NewInt(1)
			}
		}
		return blk(Tx{K: "add_delegate", S: signer, A: A("chain", c.Name, "amount", amt.String())}), true
	case 2:
		if !exists || r.Cfg.World.Validators < 2 {
			return Step{}, false
		}
		return blk(Tx{K: "cc_redelegate", S: signer, A: A("chain", c.Name, "val", r.Rng.IntN(r.Cfg.World.Validators))}), true
	case 3:
		if !exists {
			return Step{}, false
		}
		return blk(Tx{K: "cc_withdraw_reward", S: signer, A: A("chain", c.Name)}), true
	case 4:
		if !exists {
			return Step{}, false
		}
		return blk(Tx{K: "edit_bridger", S: signer, A: A("chain", c.Name, "bridger", KeyName("sparebridger", r.Rng.IntN(4)))}), true
	case 5: // unbond attempt
		if !exists && r.Pct(80) {
			return Step{}, false
		}
		return blk(Tx{K: "unbond", S: signer, A: A("chain", c.Name)}), true
	case 6, 7: // governance changes the approved list
		if !r.Cfg.FaultOn("membership") && r.Pct(70) {
			return Step{}, false
		}
		var list []string
		for j := range c.Oracles {
			in := approved[c.oracleKey(w, j).Bech()]
			if r.Pct(15) {
				in = !in
			}
			if in {
				list = append(list, fmt.Sprint(j))
			}
		}
		if len(list) == 0 {
			return Step{}, false
		}
		r.Fault("membership")
		return Step{Kind: "gov", DtMs: e.dt(r), A: A("what", "update_oracles", "chain", c.Name, "oracles", strings.Join(list, ","))}, true
	}
	return Step{}, false
}

func (e BridgeEngine) genAdversary(r *Run, c *ChainSt, v *ChainView) (Step, bool) {
	st := bst(r)
	w := r.W
	adv := KeyName("adv", r.Rng.IntN(2))
	blk := func(txs ...Tx) Step { return Step{Kind: "block", DtMs: e.dt(r), N: 1, Txs: txs} }
	switch r.Rng.IntN(6) {
	case 5: // a retired bridger key (no longer the oracle's registered bridger) tries to vote
		for i := range c.Oracles {
			ob := c.oracleKey(w, i).Bech()
			or, ok := v.Oracles[ob]
			if !ok || !or.Online || or.BridgerAddress == c.bridgerKey(w, i).Bech() {
				continue
			}
			next := v.EffectiveOracleNonce(ob) + 1
			if next > c.Ext.EventNonce {
				continue
			}
			r.Probe("retired-bridger-claims")
			return blk(Tx{K: "claim", S: KeyName("bridger", c.bridgerKey(w, i).Idx), A: A("chain", c.Name, "o", i, "n", next, "retired", 1)}), true
		}
		return Step{}, false
	case 0: // cancel somebody else's transfer
		if len(v.Pool) == 0 {
			return Step{}, false
		}
		p := v.Pool[r.Rng.IntN(len(v.Pool))]
		return blk(Tx{K: "cancel_send", S: adv, A: A("chain", c.Name, "id", p.Id, "adv", 1)}), true
	case 1: // cancel a batched transfer
		if len(v.Batches) == 0 {
			return Step{}, false
		}
		b := v.Batches[r.Rng.IntN(len(v.Batches))]
		if len(b.Transactions) == 0 {
			return Step{}, false
		}
		t := b.Transactions[r.Rng.IntN(len(b.Transactions))]
		signer := e.keyNameOfBech(r, t.Sender)
		if signer == "" {
			signer = adv
		}
		return blk(Tx{K: "cancel_send", S: signer, A: A("chain", c.Name, "id", t.Id, "batched", 1)}), true
	case 2: // request a batch without being bridger/oracle
		denom := "FX"
		if len(c.Tokens) > 1 {
			denom = cctypes.NewBridgeDenom(c.Name, ExtAddrStr(c.Name, c.Tokens[len(c.Tokens)-1].Contract))
		}
		return blk(Tx{K: "request_batch", S: adv, A: A("chain", c.Name, "denom", denom, "min_fee", 1, "base_fee", 0, "fee_receive", ExtAddrStr(c.Name, w.Key("adv", 0).Hex()), "adv", 1)}), true
	case 3: // confirm on behalf of an oracle with own key
		if len(v.OracleSets) == 0 {
			return Step{}, false
		}
		i := r.Rng.IntN(len(c.Oracles))
		os := v.OracleSets[r.Rng.IntN(len(v.OracleSets))]
		return blk(Tx{K: "confirm", S: adv, A: A("chain", c.Name, "o", i, "type", "oracleset", "nonce", os.Nonce, "signkey", adv, "byz", 1)}), true
	case 4: // claim wrapped for the wrong chain name
		if len(st.Chains) < 2 {
			return Step{}, false
		}
		other := st.Chains[(c.CI+1)%len(st.Chains)]
		for i := range c.Oracles {
			ob := c.oracleKey(w, i).Bech()
			if or, ok := v.Oracles[ob]; ok && or.Online {
				next := v.EffectiveOracleNonce(ob) + 1
				if next <= c.Ext.EventNonce {
					return blk(Tx{K: "claim", S: KeyName("bridger", c.bridgerKey(w, i).Idx), A: A("chain", c.Name, "o", i, "n", next, "wchain", other.Name)}), true
				}
			}
		}
	}
	return Step{}, false
}

var _ = sdk.AccAddress{}
var _ = common.Address{}
var _ = big.NewInt

// edgeSt: progress of the timeout-boundary scenario.
type edgeSt struct {
	Chain string
	Stage int
	Op    string // "bridge_call" | "batch"
	Nonce uint64
	Token string
	At    uint64 // the external height the scenario parks the chain at
}

// genEdge: an outgoing bridge call or batch with timeout T is still open. The external chain is advanced to
// exactly T-1 (or T, or T-2: drawn), everybody confirms, an unrelated event happens in that very block and
// all oracles report it, and then - still in the same external block - the relayer submits the object, whether
// fxcore still lists it or not. The external contract accepts it iff height < T; fxcore must not have released
// the value in that case.
func (e BridgeEngine) genEdge(r *Run) (Step, bool) {
	st := bst(r)
	w := r.W
	es := st.Edge
	c := st.chain(es.Chain)
	end := func() (Step, bool) { st.Edge = nil; return Step{}, false }
	if c == nil {
		return end()
	}
	v := w.ViewChain(w.Ctx(), c.Name)
	blk := func(txs ...Tx) Step { return Step{Kind: "block", DtMs: 1000 + int64(r.Rng.IntN(3000)), N: 1, Txs: txs} }
	stage := es.Stage
	es.Stage++
	switch {
	case stage == 0:
		type cand struct {
			op, token string
			nonce, t  uint64
		}
		var cs []cand
		for _, bc := range v.Calls {
			if bc.Timeout > c.Ext.Height+2 {
				cs = append(cs, cand{"bridge_call", "", bc.Nonce, bc.Timeout})
			}
		}
		for _, b := range v.Batches {
			if b.BatchTimeout > c.Ext.Height+2 {
				cs = append(cs, cand{"batch", b.TokenContract, b.BatchNonce, b.BatchTimeout})
			}
		}
		if len(cs) == 0 {
			return end()
		}
		x := cs[r.Rng.IntN(len(cs))]
		es.Op, es.Token, es.Nonce = x.op, x.token, x.nonce
		es.At = x.t - 1
		switch r.Rng.IntN(6) {
		case 0:
			es.At = x.t
		case 1:
			es.At = x.t - 2
		}
		r.Probe("timeout-boundary-started:" + x.op)
		return Step{Kind: "ext", A: A("chain", c.Name, "op", "height", "n", es.At-c.Ext.Height)}, true
	case stage == 1:
		if txs := e.genConfirms(r, c, v, 40); len(txs) > 0 {
			return blk(txs...), true
		}
		return e.genEdge(r)
	case stage == 2:
		if c.Ext.Height != es.At {
			return end()
		}
		var toks []*TokenInfo
		for _, t := range c.Tokens {
			if t.Added {
				toks = append(toks, t)
			}
		}
		if len(toks) == 0 {
			return end()
		}
		return Step{Kind: "ext", A: A("chain", c.Name, "op", "send_to_fx", "symbol", toks[r.Rng.IntN(len(toks))].Symbol, "user", r.Rng.IntN(st.NUsers), "amount", 1+r.Rng.IntN(50), "target", "")}, true
	case stage >= 3 && stage <= 10:
		// every online oracle reports until the chain has observed everything (several events may be outstanding)
		if v.LastObs >= c.Ext.EventNonce {
			es.Stage = 11
			return e.genEdge(r)
		}
		var txs []Tx
		for i := range c.Oracles {
			ob := c.oracleKey(w, i).Bech()
			if or, ok := v.Oracles[ob]; ok && or.Online {
				next := v.EffectiveOracleNonce(ob) + 1
				for k := uint64(0); k < 4 && next+k <= c.Ext.EventNonce; k++ {
					txs = append(txs, Tx{K: "claim", S: KeyName("bridger", c.bridgerKey(w, i).Idx), A: A("chain", c.Name, "o", i, "n", next+k)})
				}
			}
		}
		if len(txs) == 0 {
			es.Stage = 11
			return e.genEdge(r)
		}
		return blk(txs...), true
	case stage == 11:
		if c.Ext.Height != es.At {
			return end()
		}
		r.Probe("timeout-boundary-relayed:" + es.Op)
		st.Edge = nil
		if es.Op == "batch" {
			return Step{Kind: "relay", A: A("chain", c.Name, "op", "batch", "nonce", es.Nonce, "token", es.Token)}, true
		}
		return Step{Kind: "relay", A: A("chain", c.Name, "op", "bridge_call", "nonce", es.Nonce, "success", 1)}, true
	}
	return end()
}

// raceSt: progress of the two-token race scenario.
type raceSt struct {
	Chain string
	Stage int
	Toks  []string // bridge token contracts (external form) of the two batches, older first
}

// genRace produces the next stage of the scenario from the current committed state. Stages:
// 0 transfers of two tokens; 1,2 one batch request per token (two blocks); 3 everybody confirms;
// 4 the NEWER batch is relayed; 5 claims; 6 a sender cancels a transfer of the older batch if it is
// (wrongly) back in the pool; 7 the older batch is relayed (also when fxcore no longer knows it);
// 8 claims. Every stage is an ordinary concrete step.
func (e BridgeEngine) genRace(r *Run) (Step, bool) {
	st := bst(r)
	w := r.W
	rs := st.Race
	c := st.chain(rs.Chain)
	v := w.ViewChain(w.Ctx(), c.Name)
	blk := func(txs ...Tx) Step { return Step{Kind: "block", DtMs: 1000 + int64(r.Rng.IntN(3000)), N: 1, Txs: txs} }
	end := func() (Step, bool) { st.Race = nil; return Step{}, false }
	var toks []*TokenInfo
	for _, t := range c.Tokens {
		if t.Added {
			toks = append(toks, t)
		}
	}
	if len(toks) < 2 {
		return end()
	}
	stage := rs.Stage
	rs.Stage++
	batchOf := func(contract string) *cctypes.OutgoingTxBatch {
		var best *cctypes.OutgoingTxBatch
		for i := range v.Batches {
			if v.Batches[i].TokenContract == contract && (best == nil || v.Batches[i].BatchNonce > best.BatchNonce) {
				best = &v.Batches[i]
			}
		}
		return best
	}
	switch stage {
	case 0:
		var txs []Tx
		for i, t := range toks[:2] {
			for k := 0; k < 2; k++ {
				u := (i*2 + k) % st.NUsers
				dest := ExtAddrStr(c.Name, w.Key("extuser", r.Rng.IntN(10)).Hex())
				amt := int64(5 + r.Rng.IntN(50))
				if t.Kind == "fx" {
					amt *= 1000
				}
				txs = append(txs, Tx{K: "send_to_external", S: KeyName("user", u), A: A("chain", c.Name, "denom", t.Base, "amount", amt, "fee", 20+r.Rng.IntN(5), "dest", dest)})
			}
		}
		return blk(txs...), true
	case 1, 2:
		t := toks[stage-1]
		bt, ok := e.genBatch(r, c, v)
		if !ok {
			return end()
		}
		denom := cctypes.NewBridgeDenom(c.Name, ExtAddrStr(c.Name, t.Contract))
		if t.Kind == "fx" {
			denom = "FX"
		}
		bt.A["denom"], bt.A["min_fee"], bt.A["base_fee"] = denom, "1", "0"
		rs.Toks = append(rs.Toks, ExtAddrStr(c.Name, t.Contract))
		return blk(bt), true
	case 3:
		txs := e.genConfirms(r, c, v, 50)
		if len(txs) == 0 {
			return blk(), true
		}
		return blk(txs...), true
	case 4:
		if len(rs.Toks) < 2 {
			return end()
		}
		b := batchOf(rs.Toks[1])
		if b == nil || batchOf(rs.Toks[0]) == nil {
			return end()
		}
		r.Probe("two-token-race-newer-batch-relayed-first")
		return Step{Kind: "relay", A: A("chain", c.Name, "op", "batch", "nonce", b.BatchNonce, "token", b.TokenContract)}, true
	case 5, 8:
		txs := e.genClaims(r, c, v)
		if len(txs) == 0 {
			return blk(), true
		}
		return blk(txs...), true
	case 6:
		for _, p := range v.Pool {
			if p.Token.Contract == rs.Toks[0] {
				if signer := e.keyNameOfBech(r, p.Sender); signer != "" {
					return blk(Tx{K: "cancel_send", S: signer, A: A("chain", c.Name, "id", p.Id)}), true
				}
			}
		}
		return blk(), true
	case 7:
		if b := batchOf(rs.Toks[0]); b != nil {
			return Step{Kind: "relay", A: A("chain", c.Name, "op", "batch", "nonce", b.BatchNonce, "token", b.TokenContract)}, true
		}
		// fxcore no longer has it: the relayer still holds the signed batch
		for _, k := range sortedKeys(st.Chk.batches) {
			sb := st.Chk.batches[k]
			if strings.HasPrefix(k, c.Name+"|") && ExtAddrStr(c.Name, sb.b.Token) == rs.Toks[0] {
				return Step{Kind: "relay", A: A("chain", c.Name, "op", "batch", "nonce", sb.b.Nonce, "token", rs.Toks[0])}, true
			}
		}
		return end()
	}
	return end()
}
