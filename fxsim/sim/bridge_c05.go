package sim

import (
	"fmt"
	"sort"
	"strings"

	sdkmath "cosmossdk.io/math"
	sdk "github.com/cosmos/cosmos-sdk/types"
	"github.com/ethereum/go-ethereum/common"

	cctypes "github.com/functionx/fx-core/v8/x/crosschain/types"
)

// C05 — observational life-cycle model of outgoing transfers and outgoing bridge calls.
// The model never predicts which transfers a batch selects or when something is cancelled;
// it tracks every object from what is observed and rejects illegal transitions.

type xferRec struct {
	ID       uint64
	Sender   string
	Dest     string
	Contract string
	Amount   sdkmath.Int
	Fee      sdkmath.Int
	State    string // pool | batch | executed | refunded
	Batch    uint64
}

type callRec struct {
	Nonce uint64
	Rec   cctypes.OutgoingBridgeCall
	State string // live | result-ok | refunded
}

type c05Chain struct {
	xfers        map[uint64]*xferRec
	maxID        uint64
	calls        map[uint64]*callRec
	maxCall      uint64
	maxBatch     uint64
	batches      map[string]bool // live batch ids (token|nonce)
	bothReported map[uint64]bool
}

type c05Model struct {
	ch                map[string]*c05Chain
	recipientReported map[string]bool
	callPre           map[string]sdkmath.Int // holdings (all representations) of the refund address and the sender of every live bridge call, before the step
}

// holdingsOf: what addr owns of a base denom on fxcore, whatever the representation (coin, ERC-20 of its pair).
func holdingsOf(w *World, ctx sdk.Context, addr []byte, base string) sdkmath.Int {
	h := w.App.BankKeeper.GetBalance(ctx, addr, base).Amount
	if pair, ok := w.App.Erc20Keeper.GetTokenPair(ctx, base); ok {
		h = h.Add(sdkmath.NewIntFromBigInt(w.ERC20Balance(ctx, pair.GetERC20Contract(), common.BytesToAddress(addr))))
	}
	return h
}

func (m *c05Model) before(r *Run) {
	w := r.W
	ctx := w.Ctx()
	st := bst(r)
	m.callPre = map[string]sdkmath.Int{}
	for _, ch := range st.Chains {
		mc := m.ch[ch.Name]
		for n, rec := range mc.calls {
			if rec.State != "live" {
				continue
			}
			for _, who := range []string{rec.Rec.Refund, rec.Rec.Sender} {
				addr := cctypes.ExternalAddrToAccAddr(ch.Name, who)
				for _, tk := range rec.Rec.Tokens {
					if t := ch.tokenByContract(tk.Contract); t != nil {
						m.callPre[fmt.Sprintf("%s|%d|%s|%s", ch.Name, n, who, t.Base)] = holdingsOf(w, ctx, addr, t.Base)
					}
				}
			}
		}
	}
}

func newC05(st *BridgeSt) *c05Model {
	m := &c05Model{ch: map[string]*c05Chain{}}
	for _, c := range st.Chains {
		m.ch[c.Name] = &c05Chain{xfers: map[uint64]*xferRec{}, calls: map[uint64]*callRec{}, batches: map[string]bool{}, bothReported: map[uint64]bool{}}
	}
	return m
}

// onlyOracleTraffic: every delivered transaction of the step was signed by a bridger or an oracle key.
func onlyOracleTraffic(o *Outcome) bool {
	if o == nil {
		return false
	}
	for _, t := range o.Txs {
		if t.Tx == nil {
			continue
		}
		if !strings.HasPrefix(t.Tx.S, "bridger/") && !strings.HasPrefix(t.Tx.S, "oracle/") {
			return false
		}
	}
	return true
}

func okTxs(o *Outcome, kind string) []TxOutcome {
	var out []TxOutcome
	if o == nil {
		return nil
	}
	for _, t := range o.Txs {
		if t.Tx != nil && t.Tx.K == kind && t.Res.OK() {
			out = append(out, t)
		}
	}
	return out
}

func deliveredCount(o *Outcome) int {
	n := 0
	if o == nil {
		return 0
	}
	for _, t := range o.Txs {
		if t.Res != nil {
			n++
		}
	}
	return n
}

func sameXfer(a *xferRec, t *cctypes.OutgoingTransferTx) bool {
	return a.Sender == t.Sender && a.Dest == t.DestAddress && a.Contract == t.Token.Contract && a.Contract == t.Fee.Contract && a.Amount.Equal(t.Token.Amount)
}

func (m *c05Model) check(r *Run, c *bridgeChecks, s *Step, o *Outcome) []Violation {
	var vs []Violation
	st := bst(r)
	w := r.W
	for _, ch := range st.Chains {
		mc := m.ch[ch.Name]
		pre, post := c.pre[ch.Name], c.post[ch.Name]
		// events of this step, per chain
		observedBatches := map[string]bool{} // token|nonce executed on the external chain and observed now
		observedResults := map[uint64]bool{}
		resultSuccess := map[uint64]bool{}
		for _, a := range post.Atts {
			if !a.Observed || a.Nonce <= pre.LastObs || a.Claim == nil {
				continue
			}
			switch cl := a.Claim.(type) {
			case *cctypes.MsgSendToExternalClaim:
				observedBatches[batchID(cl.TokenContract, cl.BatchNonce)] = true
			}
		}
		// bridge call results take effect when the pending claim is executed
		for _, t := range okTxs(o, "execute_claim") {
			if t.Tx.A.Str("chain") != ch.Name {
				continue
			}
			if cl, ok := pre.Pending[t.Tx.A.U64("n")]; ok {
				if rc, ok := cl.(*cctypes.MsgBridgeCallResultClaim); ok {
					observedResults[rc.Nonce] = true
					resultSuccess[rc.Nonce] = rc.Success
				}
			}
		}
		// ---- where is every transfer now
		place := map[uint64]string{}
		cur := map[uint64]*cctypes.OutgoingTransferTx{}
		curBatch := map[uint64]uint64{}
		liveBatches := map[string]bool{}
		for i := range post.Pool {
			t := &post.Pool[i]
			if p, dup := place[t.Id]; dup {
				vs = append(vs, viol("unique-place", "transfer-in-two-places", "%s: transfer %d is in %s and in the pool", ch.Name, t.Id, p))
			}
			place[t.Id] = "pool"
			cur[t.Id] = t
		}
		for bi := range post.Batches {
			b := &post.Batches[bi]
			liveBatches[batchID(b.TokenContract, b.BatchNonce)] = true
			if b.BatchNonce > mc.maxBatch {
				mc.maxBatch = b.BatchNonce
			}
			for _, t := range b.Transactions {
				if p, dup := place[t.Id]; dup {
					vs = append(vs, viol("unique-place", "transfer-in-two-places", "%s: transfer %d is in %s and in batch %d", ch.Name, t.Id, p, b.BatchNonce))
				}
				place[t.Id] = "batch"
				cur[t.Id] = t
				curBatch[t.Id] = b.BatchNonce
				if t.Token.Contract != b.TokenContract {
					vs = append(vs, viol("queued-equals-request", "batch-mixes-tokens", "%s: batch %d of %s carries transfer %d of %s", ch.Name, b.BatchNonce, b.TokenContract, t.Id, t.Token.Contract))
				}
			}
		}
		// a batch that existed before and is gone now: executed (observed) or cancelled
		goneBatches := map[string]string{}
		for i := range pre.Batches {
			b := &pre.Batches[i]
			id := batchID(b.TokenContract, b.BatchNonce)
			if liveBatches[id] {
				continue
			}
			if observedBatches[id] {
				goneBatches[id] = "executed"
			} else {
				goneBatches[id] = "cancelled"
			}
		}
		preBatchOf := map[uint64]string{}
		for i := range pre.Batches {
			b := &pre.Batches[i]
			for _, t := range b.Transactions {
				preBatchOf[t.Id] = batchID(b.TokenContract, b.BatchNonce)
			}
		}
		cancels := map[uint64]TxOutcome{}
		for _, t := range okTxs(o, "cancel_send") {
			if t.Tx.A.Str("chain") == ch.Name {
				cancels[t.Tx.A.U64("id")] = t
			}
		}
		feeBumps := map[uint64]sdkmath.Int{}
		for _, t := range okTxs(o, "increase_fee") {
			if t.Tx.A.Str("chain") == ch.Name {
				id := t.Tx.A.U64("id")
				if _, ok := feeBumps[id]; !ok {
					feeBumps[id] = sdkmath.ZeroInt()
				}
				feeBumps[id] = feeBumps[id].Add(t.Tx.A.SdkInt("fee"))
			}
		}
		// ---- new ids
		var ids []uint64
		for id := range cur {
			ids = append(ids, id)
		}
		sort.Slice(ids, func(i, j int) bool { return ids[i] < ids[j] })
		for _, id := range ids {
			t := cur[id]
			rec, known := mc.xfers[id]
			if !known {
				if id <= mc.maxID {
					vs = append(vs, viol("id-unique", "transfer-id-reused", "%s: new transfer with id %d but ids up to %d were already issued", ch.Name, id, mc.maxID))
				}
				rec = &xferRec{ID: id, Sender: t.Sender, Dest: t.DestAddress, Contract: t.Token.Contract, Amount: t.Token.Amount, Fee: t.Fee.Amount, State: place[id], Batch: curBatch[id]}
				mc.xfers[id] = rec
				if id > mc.maxID {
					mc.maxID = id
				}
				r.Nontrivial = true
				continue
			}
			if rec.State == "executed" || rec.State == "refunded" {
				vs = append(vs, viol("settled-once", "settled-transfer-reappears", "%s: transfer %d was %s and is live again (%s)", ch.Name, id, rec.State, place[id]))
			}
			if !sameXfer(rec, t) {
				vs = append(vs, viol("record-immutable", "transfer-record-changed", "%s: transfer %d changed: %+v -> %s", ch.Name, id, *rec, t.String()))
			}
			wantFee := rec.Fee
			if b, ok := feeBumps[id]; ok {
				wantFee = wantFee.Add(b)
			}
			if !t.Fee.Amount.Equal(wantFee) {
				vs = append(vs, viol("fee-increase-exact", "fee-changed", "%s: transfer %d fee %s -> %s, expected %s", ch.Name, id, rec.Fee, t.Fee.Amount, wantFee))
			}
			rec.Fee = t.Fee.Amount
			// transitions
			newState := place[id]
			if rec.State == "batch" && newState == "pool" {
				pb := preBatchOf[id]
				if goneBatches[pb] != "cancelled" {
					vs = append(vs, viol("life-cycle", "batch-to-pool-without-cancel", "%s: transfer %d moved from batch %s to the pool but the batch is %q", ch.Name, id, pb, goneBatches[pb]))
				}
				r.Probe("batch-cancel-returned-transfer")
			}
			if rec.State == "pool" && newState == "batch" {
				r.Probe("pool-to-batch")
			}
			if rec.State != newState {
				r.Nontrivial = true
			}
			rec.State, rec.Batch = newState, curBatch[id]
		}
		// ---- transfers that disappeared
		var known []uint64
		for id := range mc.xfers {
			known = append(known, id)
		}
		sort.Slice(known, func(i, j int) bool { return known[i] < known[j] })
		for _, id := range known {
			rec := mc.xfers[id]
			if _, live := cur[id]; live || rec.State == "executed" || rec.State == "refunded" {
				continue
			}
			switch rec.State {
			case "pool":
				ct, cancelled := cancels[id]
				if !cancelled {
					vs = append(vs, viol("life-cycle", "pool-transfer-vanished", "%s: transfer %d left the pool without batch or cancel", ch.Name, id))
					rec.State = "refunded"
					continue
				}
				signer := w.KeyByName(ct.Tx.S).Bech()
				if signer != rec.Sender {
					vs = append(vs, viol("only-creator-cancels", "cancel/foreign-sender", "%s: transfer %d of %s cancelled by %s", ch.Name, id, rec.Sender, signer))
				}
				rec.State = "refunded"
				r.Probe("cancel-refunded")
				r.Nontrivial = true
				// refund exactness when the cancel is the only tx of the block
				if deliveredCount(o) == 1 {
					if v := m.refundCheck(r, c, ch, rec, signer); v != nil {
						vs = append(vs, *v)
					}
				}
			case "batch":
				pb := preBatchOf[id]
				switch goneBatches[pb] {
				case "executed":
					rec.State = "executed"
					r.Probe("batch-executed")
					r.Nontrivial = true
				case "cancelled":
					vs = append(vs, viol("batch-cancel-returns-all", "transfer-lost-on-batch-cancel", "%s: batch %s was cancelled but transfer %d did not return to the pool", ch.Name, pb, id))
					rec.State = "refunded"
				default:
					vs = append(vs, viol("life-cycle", "batched-transfer-vanished", "%s: transfer %d left batch %s which still exists", ch.Name, id, pb))
					rec.State = "refunded"
				}
			}
		}
		// a cancel that succeeded must have removed a pool entry of the signer
		var cids []uint64
		for id := range cancels {
			cids = append(cids, id)
		}
		sort.Slice(cids, func(i, j int) bool { return cids[i] < cids[j] })
		for _, id := range cids {
			if _, live := cur[id]; live {
				vs = append(vs, viol("settled-once", "cancel-left-record", "%s: cancel of transfer %d succeeded but it is still queued", ch.Name, id))
			}
			if _, was := mc.xfers[id]; !was {
				// created and cancelled inside one step: fine
				continue
			}
		}
		// ---- queued equals request for new sends
		for _, t := range okTxs(o, "send_to_external") {
			if t.Tx.A.Str("chain") != ch.Name {
				continue
			}
			idStr := t.Res.EventAttr("send_to_external", "outgoing_tx_id")
			if len(idStr) == 0 {
				vs = append(vs, viol("queued-equals-request", "send/no-id", "%s: successful send without outgoing_tx_id event", ch.Name))
				continue
			}
			var id uint64
			fmt.Sscan(idStr[0], &id)
			rec, ok := mc.xfers[id]
			if !ok {
				if _, c2 := cancels[id]; c2 {
					continue
				}
				vs = append(vs, viol("queued-equals-request", "send/not-queued", "%s: send reported id %d but nothing is queued under it", ch.Name, id))
				continue
			}
			wantContract := ""
			for _, tk := range ch.Tokens {
				if tk.Base == t.Tx.A.Str("denom") {
					wantContract = ExtAddrStr(ch.Name, tk.Contract)
				}
			}
			signer := w.KeyByName(t.Tx.S).Bech()
			fee := t.Tx.A.SdkInt("fee")
			if b, ok := feeBumps[id]; ok {
				fee = fee.Add(b)
			}
			if rec.Sender != signer || rec.Dest != t.Tx.A.Str("dest") || rec.Contract != wantContract || !rec.Amount.Equal(t.Tx.A.SdkInt("amount")) || !rec.Fee.Equal(fee) {
				vs = append(vs, viol("queued-equals-request", "send/record-differs", "%s: transfer %d queued as %+v, requested by %s: %s", ch.Name, id, *rec, signer, t.Tx.A.String()))
			}
		}
		// ---- fee increase costs the payer exactly the added fee (single-tx blocks)
		if deliveredCount(o) == 1 {
			for _, t := range okTxs(o, "increase_fee") {
				if t.Tx.A.Str("chain") != ch.Name {
					continue
				}
				payer := w.KeyByName(t.Tx.S).Acc()
				denom := t.Tx.A.Str("denom")
				// the added fee is paid in the token of the queued transfer
				if rec, ok := mc.xfers[t.Tx.A.U64("id")]; ok {
					paid := strings.TrimPrefix(denom, ch.Name)
					if denom == "FX" {
						if tk := ch.tokenByBase("FX"); tk != nil {
							paid = ExtAddrStr(ch.Name, tk.Contract)
						}
					}
					if paid != rec.Contract {
						vs = append(vs, viol("fee-increase-exact", "fee-paid-in-other-token", "%s: fee of transfer %d (token %s) raised by paying %s", ch.Name, rec.ID, rec.Contract, denom))
					}
				}
				before := c.c04.balBefore(payer, denom)
				after := w.App.BankKeeper.GetBalance(w.Ctx(), payer, denom).Amount
				if !before.Sub(after).Equal(t.Tx.A.SdkInt("fee")) {
					vs = append(vs, viol("fee-increase-exact", "payer-delta", "%s: fee increase of %s cost the payer %s", ch.Name, t.Tx.A.Str("fee"), before.Sub(after)))
				}
				r.Probe("fee-increase-ok")
			}
		}
		// ---- outgoing bridge calls
		curCalls := map[uint64]*cctypes.OutgoingBridgeCall{}
		for i := range post.Calls {
			bc := &post.Calls[i]
			curCalls[bc.Nonce] = bc
			rec, ok := mc.calls[bc.Nonce]
			if !ok {
				if bc.Nonce <= mc.maxCall {
					vs = append(vs, viol("id-unique", "bridge-call-nonce-reused", "%s: new outgoing bridge call nonce %d, nonces up to %d already issued", ch.Name, bc.Nonce, mc.maxCall))
				}
				mc.calls[bc.Nonce] = &callRec{Nonce: bc.Nonce, Rec: *bc, State: "live"}
				mc.maxCall = max(mc.maxCall, bc.Nonce)
				r.Nontrivial = true
				if !post.CallIdx[bc.Sender+string(sdk.Uint64ToBigEndian(bc.Nonce))] {
					vs = append(vs, viol("index-consistency", "bridge-call-address-index-missing", "%s: outgoing bridge call %d has no sender index entry", ch.Name, bc.Nonce))
				}
				continue
			}
			if rec.State != "live" {
				vs = append(vs, viol("settled-once", "settled-bridge-call-reappears", "%s: bridge call %d was %s and is live again", ch.Name, bc.Nonce, rec.State))
			}
			if rec.Rec.String() != bc.String() {
				vs = append(vs, viol("record-immutable", "bridge-call-record-changed", "%s: bridge call %d changed", ch.Name, bc.Nonce))
			}
		}
		var refundedNow []uint64
		var cns []uint64
		for n := range mc.calls {
			cns = append(cns, n)
		}
		sort.Slice(cns, func(i, j int) bool { return cns[i] < cns[j] })
		for _, n := range cns {
			rec := mc.calls[n]
			if rec.State != "live" {
				continue
			}
			if _, live := curCalls[n]; live {
				continue
			}
			// gone: by result or by timeout
			if observedResults[n] {
				if resultSuccess[n] {
					rec.State = "result-ok"
				} else {
					rec.State = "refunded"
				}
				r.Probe("bridge-call-result")
			} else {
				rec.State = "refunded" // timeout refund (C06 judges whether it was justified)
				r.Probe("bridge-call-timeout-refund")
				// ... but never after its successful execution has been observed
				for _, pv := range []*ChainView{pre, post} {
					for _, pn := range pv.SortedPending() {
						if rc, ok := pv.Pending[pn].(*cctypes.MsgBridgeCallResultClaim); ok && rc.Nonce == n && rc.Success {
							vs = append(vs, viol("settled-once", "bridge-call-refunded-after-observed-success", "%s: outgoing bridge call %d was refunded although its successful execution had been observed (result parked as pending claim %d)", ch.Name, n, pn))
						}
					}
				}
			}
			r.Nontrivial = true
			if rec.State == "refunded" {
				refundedNow = append(refundedNow, n)
			}
		}
		// a refunded call pays exactly its tokens to its refund address (in whatever representation) - judged in
		// steps whose transactions are all oracle traffic, so that nothing else moves users' holdings
		if len(refundedNow) > 0 && onlyOracleTraffic(o) {
			type key struct{ who, base string }
			want := map[key]sdkmath.Int{}
			var order []key
			involved := map[string]bool{}
			for _, n := range refundedNow {
				rec := mc.calls[n]
				involved[rec.Rec.Refund], involved[rec.Rec.Sender] = true, true
				for _, tk := range rec.Rec.Tokens {
					if t := ch.tokenByContract(tk.Contract); t != nil {
						k := key{rec.Rec.Refund, t.Base}
						if cur, ok := want[k]; ok {
							want[k] = cur.Add(tk.Amount)
						} else {
							want[k] = tk.Amount
							order = append(order, k)
						}
					}
				}
			}
			for _, n := range refundedNow {
				rec := mc.calls[n]
				for _, who := range []string{rec.Rec.Refund, rec.Rec.Sender} {
					for _, tk := range rec.Rec.Tokens {
						t := ch.tokenByContract(tk.Contract)
						if t == nil {
							continue
						}
						pre, ok := m.callPre[fmt.Sprintf("%s|%d|%s|%s", ch.Name, n, who, t.Base)]
						if !ok {
							continue
						}
						got := holdingsOf(w, w.Ctx(), cctypes.ExternalAddrToAccAddr(ch.Name, who), t.Base).Sub(pre)
						exp := sdkmath.ZeroInt()
						if v, ok := want[key{who, t.Base}]; ok {
							exp = v
						}
						if !got.Equal(exp) && !m.recipientReported[fmt.Sprintf("%s|%d|%s", ch.Name, n, who)] {
							if m.recipientReported == nil {
								m.recipientReported = map[string]bool{}
							}
							m.recipientReported[fmt.Sprintf("%s|%d|%s", ch.Name, n, who)] = true
							role := "refund-address"
							if who != rec.Rec.Refund {
								role = "sender"
							}
							vs = append(vs, viol("refund-exact", "bridge-call/"+role+"/"+t.Kind, "%s: outgoing bridge call %d (sender %s, refund address %s) was refunded: holdings of the %s in %s changed by %s, expected %s", ch.Name, n, rec.Rec.Sender, rec.Rec.Refund, role, t.Base, got, exp))
						}
					}
				}
			}
			r.Probe("bridge-call-refund-recipient-checked")
		}
		// requested bridge call is what is queued
		for _, t := range okTxs(o, "bridge_call") {
			if t.Tx.A.Str("chain") != ch.Name {
				continue
			}
			ns := t.Res.EventAttr("bridge_call", "bridge_call_nonce")
			if len(ns) == 0 {
				vs = append(vs, viol("queued-equals-request", "bridge-call/no-nonce", "%s: successful bridge call without nonce event", ch.Name))
				continue
			}
			var n uint64
			fmt.Sscan(ns[0], &n)
			rec, ok := mc.calls[n]
			if !ok {
				vs = append(vs, viol("queued-equals-request", "bridge-call/not-queued", "%s: bridge call nonce %d not stored", ch.Name, n))
				continue
			}
			signer := w.KeyByName(t.Tx.S)
			wantSender := ExtAddrStr(ch.Name, signer.Hex())
			refund, _ := sdk.AccAddressFromBech32(t.Tx.A.Str("refund"))
			wantRefund := cctypes.ExternalAddrToStr(ch.Name, refund.Bytes())
			coins, _ := sdk.ParseCoinsNormalized(t.Tx.A.Str("coins"))
			okRec := rec.Rec.Sender == wantSender && rec.Rec.Refund == wantRefund && rec.Rec.To == t.Tx.A.Str("to") && rec.Rec.Data == t.Tx.A.Str("data") && rec.Rec.Memo == t.Tx.A.Str("memo") && len(rec.Rec.Tokens) == len(coins)
			if okRec {
				for i, cn := range coins {
					want := ""
					for _, tk := range ch.Tokens {
						if tk.Base == cn.Denom {
							want = ExtAddrStr(ch.Name, tk.Contract)
						}
					}
					if rec.Rec.Tokens[i].Contract != want || !rec.Rec.Tokens[i].Amount.Equal(cn.Amount) {
						okRec = false
					}
				}
			}
			if !okRec {
				vs = append(vs, viol("queued-equals-request", "bridge-call/record-differs", "%s: bridge call %d stored as %s, requested %s", ch.Name, n, rec.Rec.String(), t.Tx.A.String()))
			}
		}
		r.State(fmt.Sprintf("%s:pool%d/b%d/c%d", ch.Name, min(len(post.Pool), 5), min(len(post.Batches), 4), min(len(post.Calls), 4)))
		// settled once, seen from both chains: a transfer that was refunded to its creator must not also
		// have been paid out by the external contract (the model of FxBridgeLogic.sol is the witness)
		var xids []uint64
		for id := range ch.Ext.ExecutedTxIDs {
			xids = append(xids, id)
		}
		sort.Slice(xids, func(i, j int) bool { return xids[i] < xids[j] })
		for _, id := range xids {
			if rec, ok := mc.xfers[id]; ok && rec.State == "refunded" && !mc.bothReported[id] {
				mc.bothReported[id] = true
				vs = append(vs, viol("settled-once", "refunded-and-executed-on-external-chain", "%s: transfer %d was refunded to %s and also paid out by the external contract", ch.Name, id, rec.Sender))
			}
		}
	}
	return vs
}

// refundCheck: the cancelling creator receives exactly amount+fee in the base denom.
func (m *c05Model) refundCheck(r *Run, c *bridgeChecks, ch *ChainSt, rec *xferRec, signer string) *Violation {
	w := r.W
	base := ""
	for _, tk := range ch.Tokens {
		if ExtAddrStr(ch.Name, tk.Contract) == rec.Contract {
			base = tk.Base
		}
	}
	if base == "" {
		return nil
	}
	acc, _ := sdk.AccAddressFromBech32(signer)
	before := c.c04.balBefore(acc, base)
	after := w.App.BankKeeper.GetBalance(w.Ctx(), acc, base).Amount
	want := rec.Amount.Add(rec.Fee)
	if !after.Sub(before).Equal(want) {
		v := viol("refund-exact", "cancel/"+base, "%s: cancel of transfer %d refunded %s %s, expected %s", ch.Name, rec.ID, after.Sub(before), base, want)
		return &v
	}
	return nil
}
