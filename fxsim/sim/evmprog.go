package sim

import (
	"encoding/hex"
	"fmt"
	"math/big"
	"strings"

	"github.com/ethereum/go-ethereum/accounts/abi"
	"github.com/ethereum/go-ethereum/common"
	ethcrypto "github.com/ethereum/go-ethereum/crypto"

	fxcontract "github.com/functionx/fx-core/v8/contract"
	cctypes "github.com/functionx/fx-core/v8/x/crosschain/types"
	stakingtypes "github.com/functionx/fx-core/v8/x/staking/types"
)

// Generated EVM programs ("agent contracts"). A program is a tree of nodes (contracts).
// Every leaf action has a unique bit. The 32-byte call data is a MASK: action i runs only
// if mask bit i is set; mask bit 255 is the HONEST flag (endings forced to RETURN, child
// failures not propagated). A node returns the bitmap of the actions that succeeded in
// frames that are still alive (own successes OR-ed with the bitmaps of successful children),
// so the return data of the top-level call is exactly the set K the EVM kept.

type PAct struct {
	K     string   `json:"k"`           // pre | child | sstore
	Call  string   `json:"c,omitempty"` // call (default) | static | delegate | callcode
	T     string   `json:"t,omitempty"` // staking | crosschain | token:<SYMBOL> | wfx | <placeholder/address>
	M     string   `json:"m,omitempty"` // method name
	Args  []string `json:"args,omitempty"`
	Value string   `json:"v,omitempty"`
	Gas   uint64   `json:"g,omitempty"`  // stipend, 0 = all remaining gas
	Child int      `json:"ch,omitempty"` // node index (must be greater than the parent's)
	Fail  string   `json:"f,omitempty"`  // child failure: "revert" = propagate, "" = ignore (try/catch)
	Bit   int      `json:"b"`
}

type PNode struct {
	Acts []PAct `json:"a"`
	End  string `json:"e"` // return | revert | invalid | burn
}

type Program struct {
	Nodes []PNode `json:"nodes"`
}

func (p *Program) NBits() int {
	n := 0
	for _, nd := range p.Nodes {
		for _, a := range nd.Acts {
			if a.K != "child" && a.Bit+1 > n {
				n = a.Bit + 1
			}
		}
	}
	return n
}

var honestBit = new(big.Int).Lsh(big.NewInt(1), 255)

// MaskAll: every action enabled, honest flag off.
func MaskAll() []byte {
	m := new(big.Int).Sub(honestBit, big.NewInt(1))
	return word(m.Bytes())
}

// MaskHonest: only the actions in k, honest flag on.
func MaskHonest(k *big.Int) []byte {
	return word(new(big.Int).Or(k, honestBit).Bytes())
}

// Resolver maps placeholders ($node3, $val0, $user1, $usdt, ...) to concrete strings.
type Resolver func(s string) string

func abiFor(target string) (abi.ABI, common.Address, bool) {
	switch {
	case target == "staking":
		return stakingtypes.GetABI(), stakingtypes.GetAddress(), true
	case target == "crosschain":
		return cctypes.GetABI(), cctypes.GetAddress(), true
	}
	return abi.ABI{}, common.Address{}, false
}

func parseArg(t abi.Type, s string) (interface{}, error) {
	switch t.T {
	case abi.StringTy:
		return s, nil
	case abi.AddressTy:
		return common.HexToAddress(s), nil
	case abi.UintTy, abi.IntTy:
		n, ok := new(big.Int).SetString(s, 10)
		if !ok {
			return nil, fmt.Errorf("bad int %q", s)
		}
		return n, nil
	case abi.BoolTy:
		return s == "1" || s == "true", nil
	case abi.FixedBytesTy:
		var b [32]byte
		copy(b[:], []byte(s))
		return b, nil
	case abi.BytesTy:
		return hex.DecodeString(s)
	case abi.SliceTy:
		var parts []string
		if s != "" {
			parts = strings.Split(s, ",")
		}
		switch t.Elem.T {
		case abi.AddressTy:
			out := make([]common.Address, len(parts))
			for i, p := range parts {
				out[i] = common.HexToAddress(p)
			}
			return out, nil
		case abi.UintTy:
			out := make([]*big.Int, len(parts))
			for i, p := range parts {
				n, ok := new(big.Int).SetString(p, 10)
				if !ok {
					return nil, fmt.Errorf("bad int %q", p)
				}
				out[i] = n
			}
			return out, nil
		}
	}
	return nil, fmt.Errorf("unsupported abi type %s", t.String())
}

// packCall builds calldata for method m of an ABI from string arguments.
func packCall(a abi.ABI, m string, args []string) ([]byte, error) {
	meth, ok := a.Methods[m]
	if !ok {
		return nil, fmt.Errorf("no method %s", m)
	}
	if len(meth.Inputs) != len(args) {
		return nil, fmt.Errorf("%s: %d args, want %d", m, len(args), len(meth.Inputs))
	}
	vals := make([]interface{}, len(args))
	for i, in := range meth.Inputs {
		v, err := parseArg(in.Type, args[i])
		if err != nil {
			return nil, err
		}
		vals[i] = v
	}
	return a.Pack(m, vals...)
}

var erc20ABI = fxcontract.GetFIP20().ABI
var wfxABI = fxcontract.GetWFX().ABI

// resolveAct returns (target address, calldata) of a leaf action.
func resolveAct(a *PAct, res Resolver) (common.Address, []byte, error) {
	args := make([]string, len(a.Args))
	for i, s := range a.Args {
		args[i] = res(s)
	}
	if ab, addr, ok := abiFor(a.T); ok {
		data, err := packCall(ab, a.M, args)
		return addr, data, err
	}
	if strings.HasPrefix(a.T, "token:") {
		addr := common.HexToAddress(res("$" + strings.TrimPrefix(a.T, "token:")))
		data, err := packCall(erc20ABI, a.M, args)
		return addr, data, err
	}
	if a.T == "wfx" {
		addr := common.HexToAddress(res("$WFX"))
		data, err := packCall(wfxABI, a.M, args)
		return addr, data, err
	}
	// raw: address placeholder, M = hex calldata
	addr := common.HexToAddress(res(a.T))
	data, err := hex.DecodeString(a.M)
	return addr, data, err
}

func callOp(c string) (op byte, hasValue bool) {
	switch c {
	case "static":
		return opSTATICCALL, false
	case "delegate":
		return opDELEGATECALL, false
	case "callcode":
		return opCALLCODE, true
	}
	return opCALL, true
}

// Compile produces the runtime bytecode of node i; addrs are the addresses of all nodes.
func (p *Program) Compile(i int, addrs []common.Address, res Resolver) ([]byte, error) {
	nd := p.Nodes[i]
	a := NewAsm()
	// mask -> mem[0x60]
	a.Push(0).Op(opCALLDATALOAD).Push(0x60).Op(opMSTORE)
	honestSkip := func(l string) { // jump to l when the honest flag is set
		a.Push(0).Op(opCALLDATALOAD).Push(255).Op(opSHR).JumpI(l)
	}
	setBit := func(bit int) {
		a.Push(0).Op(opMLOAD).PushBig(new(big.Int).Lsh(big.NewInt(1), uint(bit))).Op(opOR).Push(0).Op(opMSTORE)
	}
	for ai := range nd.Acts {
		act := &nd.Acts[ai]
		skip := a.NewLabel()
		switch act.K {
		case "pre":
			// guard: mask bit
			a.Push(0).Op(opCALLDATALOAD).Push(uint64(act.Bit)).Op(opSHR).Push(1).Op(opAND).Op(opISZERO).JumpI(skip)
			target, data, err := resolveAct(act, res)
			if err != nil {
				return nil, fmt.Errorf("node %d act %d: %w", i, ai, err)
			}
			blob := fmt.Sprintf("d%d", ai)
			a.Blob(blob, data)
			a.PushBlobLen(blob).PushBlobOff(blob).Push(0x80).Op(opCODECOPY)
			op, hasValue := callOp(act.Call)
			a.Push(0).Push(0).PushBlobLen(blob).Push(0x80)
			if hasValue {
				v := big.NewInt(0)
				if act.Value != "" {
					v, _ = new(big.Int).SetString(res(act.Value), 10)
				}
				a.PushBig(v)
			}
			a.PushAddr(target)
			if act.Gas > 0 {
				a.Push(act.Gas)
			} else {
				a.Op(opGAS)
			}
			a.Op(op)
			a.Op(opISZERO).JumpI(skip)
			setBit(act.Bit)
		case "sstore":
			a.Push(0).Op(opCALLDATALOAD).Push(uint64(act.Bit)).Op(opSHR).Push(1).Op(opAND).Op(opISZERO).JumpI(skip)
			a.Push(uint64(act.Bit) + 1).Push(uint64(act.Bit)).Op(opSSTORE)
			setBit(act.Bit)
		case "child":
			if act.Child <= i || act.Child >= len(p.Nodes) {
				return nil, fmt.Errorf("node %d: bad child %d", i, act.Child)
			}
			op, hasValue := callOp(act.Call)
			if op == opDELEGATECALL || op == opCALLCODE {
				op, hasValue = opCALL, true
			}
			ok := a.NewLabel()
			a.Push(0x20).Push(0x20).Push(0x20).Push(0x60)
			if hasValue {
				a.Push(0)
			}
			a.PushAddr(addrs[act.Child])
			if act.Gas > 0 {
				a.Push(act.Gas)
			} else {
				a.Op(opGAS)
			}
			a.Op(op)
			a.JumpI(ok)
			// failure
			if act.Fail == "revert" {
				honestSkip(skip)
				a.Push(0).Push(0).Op(opREVERT)
			} else {
				a.Jump(skip)
			}
			a.Label(ok)
			a.Push(0).Op(opMLOAD).Push(0x20).Op(opMLOAD).Op(opOR).Push(0).Op(opMSTORE)
		default:
			return nil, fmt.Errorf("unknown action kind %q", act.K)
		}
		a.Label(skip)
	}
	ret := a.NewLabel()
	switch nd.End {
	case "revert":
		honestSkip(ret)
		a.Push(0).Push(0).Op(opREVERT)
	case "invalid":
		honestSkip(ret)
		a.Op(opINVALID)
	case "burn":
		honestSkip(ret)
		loop := a.NewLabel()
		a.Label(loop).Jump(loop)
	}
	a.Label(ret)
	a.Push(0x20).Push(0).Op(opRETURN)
	return a.Bytes(), nil
}

// NodeAddresses: node j is created by deployer with nonce nonce0+(N-1-j) (children first).
func (p *Program) NodeAddresses(deployer common.Address, nonce0 uint64) []common.Address {
	n := len(p.Nodes)
	out := make([]common.Address, n)
	for j := 0; j < n; j++ {
		out[j] = ethcrypto.CreateAddress(deployer, nonce0+uint64(n-1-j))
	}
	return out
}
