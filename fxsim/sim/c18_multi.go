package sim

import (
	"math/rand/v2"
)

// C18 runs on two worlds: the bridge/governance world of C18Engine (inbound bridge calls,
// proposals, attestation handlers) and the IBC world of IbcEngine in its C18 mode (packets whose
// memo call fails on arrival). A knob drawn from the run's PRNG picks the world; everything else
// is delegated unchanged.

type C18Multi struct{}

func (C18Multi) Name() string { return "c18-multi" }

func init() {
	RegisterEngine([]string{"C18"}, func() Engine { return C18Multi{} })
	l := levels["C18"]
	l.Rule += " | one run in four uses the IBC world instead: " + ibcC18Rule
	levels["C18"] = l
}

func c18Sub(cfg RunConfig) Engine {
	if cfg.Knob("c18_engine") == "ibc" {
		return NewIbcEngineForC18()
	}
	return C18Engine{}
}

func (C18Multi) GenConfig(rng *rand.Rand, prop string, tier string) RunConfig {
	name := "main"
	if rng.IntN(4) == 0 {
		name = "ibc"
	}
	var rc RunConfig
	if name == "ibc" {
		rc = NewIbcEngineForC18().GenConfig(rng, "C18", tier)
	} else {
		rc = C18Engine{}.GenConfig(rng, "C18", tier)
	}
	if rc.Knobs == nil {
		rc.Knobs = map[string]string{}
	}
	rc.Knobs["c18_engine"] = name
	return rc
}

func (C18Multi) Init(r *Run) error              { return c18Sub(r.Cfg).Init(r) }
func (C18Multi) Gen(r *Run) Step                { return c18Sub(r.Cfg).Gen(r) }
func (C18Multi) Apply(r *Run, s *Step) *Outcome { return c18Sub(r.Cfg).Apply(r, s) }
func (C18Multi) Finish(r *Run) []Violation      { return c18Sub(r.Cfg).Finish(r) }
func (C18Multi) Check(r *Run, s *Step, o *Outcome) []Violation {
	r.Probe("world:" + map[bool]string{true: "ibc", false: "bridge-gov"}[r.Cfg.Knob("c18_engine") == "ibc"])
	return c18Sub(r.Cfg).Check(r, s, o)
}
