package sim

import (
	"encoding/hex"
	"fmt"
	"strings"

	"github.com/ethereum/go-ethereum/common"
	ethcrypto "github.com/ethereum/go-ethereum/crypto"
)

// C12 — a confirmation is stored only with the oracle's signature over the exact object.

type c12Model struct {
	accepted map[string]int // chain|type|object|oracle -> accepted confirm txs
}

func newC12(st *BridgeSt) *c12Model { return &c12Model{accepted: map[string]int{}} }

func (m *c12Model) afterRelay(r *Run, ch *ChainSt, kind string, nonce uint64, token string, err error) {
	if r.Prop != "C12" {
		return
	}
	if err != nil && strings.Contains(err.Error(), "signature does not match") {
		bst(r).Chk.pendingViol = append(bst(r).Chk.pendingViol, viol("stored-usable", "relay/"+kind, "%s: the external contract rejects a confirmation stored on fxcore for %s %d: %s", ch.Name, kind, nonce, err))
	}
	if err == nil {
		r.Probe("stored-confirmations-executed:" + kind)
		r.Nontrivial = true
	}
}

func recoverAddr(prefix string, digest, sig []byte) (common.Address, bool) {
	if len(sig) != 65 {
		return common.Address{}, false
	}
	s := append([]byte{}, sig...)
	if s[64] >= 27 {
		s[64] -= 27
	}
	h := ethcrypto.Keccak256(append([]byte(prefix), digest...))
	pub, err := ethcrypto.SigToPub(h, s)
	if err != nil {
		return common.Address{}, false
	}
	return ethcrypto.PubkeyToAddress(*pub), true
}

func legalSigVariant(t *Tx) bool {
	if t.A.Str("byz") != "1" {
		return true
	}
	// alternative but valid encodings of the same signature
	only := func(k, v string) bool { return t.A.Str(k) == v }
	extra := 0
	for _, k := range []string{"signkey", "gid", "prefix", "extaddr"} {
		if t.A.Has(k) {
			extra++
		}
	}
	return extra == 0 && (only("sigfault", "v01") || only("sigfault", "malleate"))
}

func (m *c12Model) check(r *Run, c *bridgeChecks, s *Step, o *Outcome) []Violation {
	vs := c.pendingViol
	c.pendingViol = nil
	st := bst(r)
	w := r.W
	for _, ch := range st.Chains {
		pre, post := c.pre[ch.Name], c.post[ch.Name]
		prefix := ch.Ext.prefix()
		gid := post.Params.GravityId
		// ---- judge every delivered confirm tx
		if o != nil {
			for _, t := range o.Txs {
				if t.Tx == nil || t.Tx.K != "confirm" || t.Res == nil || t.Tx.A.Str("chain") != ch.Name {
					continue
				}
				r.Nontrivial = true
				typ := t.Tx.A.Str("type")
				oi := t.Tx.A.Int("o")
				if oi >= len(ch.Oracles) {
					continue
				}
				ob := ch.oracleKey(w, oi).Bech()
				objKey := fmt.Sprintf("%s|%s|%s|%d|%s", ch.Name, typ, t.Tx.A.Str("token"), t.Tx.A.U64("nonce"), ob)
				if t.Res.OK() {
					m.accepted[objKey]++
					if m.accepted[objKey] > 1 {
						vs = append(vs, viol("one-confirm-per-oracle", "duplicate-accepted/"+typ, "%s: oracle %d confirmed %s %d twice", ch.Name, oi, typ, t.Tx.A.U64("nonce")))
					}
					if !legalSigVariant(t.Tx) {
						vs = append(vs, viol("byzantine-rejected", "accepted/"+typ+"/"+byzKind(t.Tx), "%s: Byzantine confirmation accepted: %s", ch.Name, t.Tx.A.String()))
					}
					// the signer of the tx must be the oracle's registered bridger
					signer := w.KeyByName(t.Tx.S).Bech()
					if or, ok := pre.Oracles[ob]; ok && or.BridgerAddress != signer {
						vs = append(vs, viol("bridger-only", "confirm/foreign-signer", "%s: confirmation of oracle %d accepted from %s (bridger is %s)", ch.Name, oi, t.Tx.S, or.BridgerAddress))
					}
					r.Probe("confirm-accepted:" + typ + map[bool]string{true: "/tron", false: ""}[ch.Name == "tron"])
				} else {
					if t.Tx.A.Str("byz") == "1" {
						r.Probe("byz-confirm-rejected:" + byzKind(t.Tx))
						continue
					}
					// an honest confirmation was rejected: only a digest mismatch is a violation
					if strings.Contains(t.Res.Log, "signature verification failed") {
						if or, ok := pre.Oracles[ob]; ok && or.ExternalAddress == ch.extAddrStr(w, oi) {
							vs = append(vs, viol("honest-accepted", "digest-mismatch/"+typ, "%s: confirmation signed over the contract's digest was rejected: %s", ch.Name, firstLine(t.Res.Log)))
						}
					}
				}
			}
		}
		// ---- re-verify every stored confirmation independently
		sets := map[uint64][]ExtMember{}
		for i := range post.OracleSets {
			sets[post.OracleSets[i].Nonce] = membersOf(ch.Name, &post.OracleSets[i])
		}
		for _, n := range sortedU64(post.SetConfirms) {
			mem, ok := sets[n]
			if !ok {
				r.Probe("confirmations-outlive-object:oracleset") // garbage, not a violation: ids are never reused
				continue
			}
			digest := OracleSetDigest(gid, n, mem)
			for _, oa := range sortedKeys(post.SetConfirms[n]) {
				cf := post.SetConfirms[n][oa]
				vs = append(vs, m.verifyStored(ch, pre, post, "oracleset", prefix, digest, oa, cf.Signature, cf.ExternalAddress, cf.BridgerAddress, n)...)
			}
		}
		batches := map[string]*ExtBatch{}
		for i := range post.Batches {
			b := &post.Batches[i]
			batches[batchID(b.TokenContract, b.BatchNonce)] = extBatchOf(ch.Name, b)
		}
		for _, id := range sortedKeys(post.BatchConfirms) {
			eb, ok := batches[id]
			if !ok {
				r.Probe("confirmations-outlive-object:batch") // garbage, not a violation: ids are never reused
				continue
			}
			digest := BatchDigest(gid, eb)
			for _, oa := range sortedKeys(post.BatchConfirms[id]) {
				cf := post.BatchConfirms[id][oa]
				vs = append(vs, m.verifyStored(ch, pre, post, "batch", prefix, digest, oa, cf.Signature, cf.ExternalAddress, cf.BridgerAddress, cf.Nonce)...)
			}
		}
		calls := map[uint64]*ExtCall{}
		for i := range post.Calls {
			calls[post.Calls[i].Nonce] = extCallOf(ch.Name, &post.Calls[i])
		}
		for _, n := range sortedU64(post.CallConfirms) {
			ec, ok := calls[n]
			if !ok {
				r.Probe("confirmations-outlive-object:bridgecall") // garbage, not a violation: ids are never reused
				continue
			}
			digest := BridgeCallDigest(gid, ec)
			for _, oa := range sortedKeys(post.CallConfirms[n]) {
				cf := post.CallConfirms[n][oa]
				vs = append(vs, m.verifyStored(ch, pre, post, "bridgecall", prefix, digest, oa, cf.Signature, cf.ExternalAddress, cf.BridgerAddress, n)...)
			}
		}
		r.State(fmt.Sprintf("%s:sc%d/bc%d/cc%d", ch.Name, min(len(post.SetConfirms), 4), min(len(post.BatchConfirms), 4), min(len(post.CallConfirms), 4)))
	}
	return vs
}

func byzKind(t *Tx) string {
	if t.A.Has("wrapby") {
		return "foreign-wrap"
	}
	if t.A.Has("foreigndirect") {
		return "foreign-direct"
	}
	for _, k := range []string{"signkey", "gid", "prefix", "extaddr", "sigfault"} {
		if t.A.Has(k) {
			if k == "sigfault" {
				return t.A.Str(k)
			}
			return k
		}
	}
	return "other"
}

func (m *c12Model) verifyStored(ch *ChainSt, pre, post *ChainView, typ, prefix string, digest []byte, oracle, sigHex, extAddr, bridger string, nonce uint64) []Violation {
	var vs []Violation
	sig, err := hex.DecodeString(sigHex)
	if err != nil {
		return []Violation{viol("stored-valid", "bad-hex/"+typ, "%s: stored confirmation of %s for %s %d has a non-hex signature", ch.Name, oracle, typ, nonce)}
	}
	addr, ok := recoverAddr(prefix, digest, sig)
	if !ok || ExtAddrStr(ch.Name, addr) != extAddr {
		vs = append(vs, viol("stored-valid", "signature/"+typ, "%s: stored confirmation of %s for %s %d does not verify over the contract's digest of the stored object (recovered %s, stored %s)", ch.Name, oracle, typ, nonce, ExtAddrStr(ch.Name, addr), extAddr))
	}
	// the record sits under the oracle that owns the external address (checked while the oracle exists)
	if or, ok := post.Oracles[oracle]; ok {
		if or.ExternalAddress != extAddr {
			vs = append(vs, viol("stored-valid", "external-address/"+typ, "%s: confirmation stored under oracle %s carries external address %s (registered %s)", ch.Name, oracle, extAddr, or.ExternalAddress))
		}
	}
	return vs
}

func sortedU64[V any](m map[uint64]V) []uint64 {
	var ks []uint64
	for k := range m {
		ks = append(ks, k)
	}
	for i := 1; i < len(ks); i++ {
		for j := i; j > 0 && ks[j-1] > ks[j]; j-- {
			ks[j-1], ks[j] = ks[j], ks[j-1]
		}
	}
	return ks
}
