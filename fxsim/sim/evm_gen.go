package sim

import (
	"encoding/json"
	"fmt"
	"math"
	"math/big"
	"strings"

	cctypes "github.com/functionx/fx-core/v8/x/crosschain/types"
)

func (e EvmEngine) Gen(r *Run) Step {
	st := bst(r)
	if len(st.Setup) > 0 {
		s := st.Setup[0]
		st.Setup = st.Setup[1:]
		return s
	}
	switch r.Prop {
	case "C09":
		return e.genC09(r)
	case "C10":
		return e.genC10(r)
	case "C11":
		return e.genC11(r)
	case "C08":
		return e.genC08(r)
	}
	return Step{Kind: "block", DtMs: 5000, N: 1}
}

// keepBridgeAlive: now and then the oracles catch up and pending claims are executed.
func (e EvmEngine) bridgeTick(r *Run) (Step, bool) {
	st := bst(r)
	c := st.Chains[0]
	v := r.W.ViewChain(r.W.Ctx(), c.Name)
	if txs := e.B.genClaims(r, c, v); len(txs) > 0 && r.Pct(70) {
		return Step{Kind: "block", DtMs: 5000, N: 1, Txs: txs}, true
	}
	if txs := e.B.genConfirms(r, c, v, 3); len(txs) > 0 && r.Pct(50) {
		return Step{Kind: "block", DtMs: 5000, N: 1, Txs: txs}, true
	}
	if r.Prop == "C09" && !st.Evm.Bogus && r.Pct(25) {
		// fault: a result event for a bridge call fxcore never recorded - executing the parked claim
		// panics inside the keeper, i.e. the precompile call fails in the hardest way
		st.Evm.Bogus = true
		r.Fault("bogus-external-result")
		return Step{Kind: "ext", A: A("chain", c.Name, "op", "bogus_result", "nonce", 900+r.Rng.IntN(50), "success", r.Rng.IntN(2))}, true
	}
	if len(v.Pending) > 0 {
		return Step{Kind: "block", DtMs: 5000, N: 1, Txs: []Tx{{K: "execute_claim_all", S: KeyName("user", r.Rng.IntN(st.NUsers))}}}, true
	}
	return Step{}, false
}

func unitAmount(bit int, unit int64) string {
	return new(big.Int).Mul(new(big.Int).Lsh(big.NewInt(1), uint(bit)), big.NewInt(unit)).String()
}

// genLeaf draws one precompile (or token) action with marker values derived from its bit.
func (e EvmEngine) genLeaf(r *Run, bit int, nNodes int, v *ChainView) []PAct {
	st := bst(r)
	val := fmt.Sprintf("$valop%d", r.Rng.IntN(r.Cfg.World.Validators))
	someone := func() string {
		if r.Pct(50) {
			return fmt.Sprintf("$user%d", r.Rng.IntN(st.NUsers))
		}
		return fmt.Sprintf("$node%d", r.Rng.IntN(nNodes))
	}
	call := ""
	if r.Pct(12) {
		call = []string{"static", "delegate", "callcode"}[r.Rng.IntN(3)]
	}
	stipend := uint64(0)
	if r.Pct(20) {
		stipend = uint64(20_000 + r.Rng.IntN(400_000))
	}
	mk := func(t, m string, args ...string) PAct {
		return PAct{K: "pre", T: t, M: m, Args: args, Bit: bit, Call: call, Gas: stipend}
	}
	stakeAmt := unitAmount(bit, 1e15)
	shares := unitAmount(bit, 1e12)
	tokAmt := unitAmount(bit, 10)
	switch r.Rng.IntN(16) {
	case 14, 15:
		// query methods: whatever they do to native state must go the way of their frame like everything else
		switch r.Rng.IntN(8) {
		case 5:
			return []PAct{mk("crosschain", "hasOracle", "$chain", someone())}
		case 6:
			return []PAct{mk("crosschain", "isOracleOnline", "$chain", someone())}
		case 7:
			return []PAct{mk("crosschain", "bridgeCoinAmount", "$USDT", "eth")}
		case 0, 1:
			if r.Pct(60) {
				return []PAct{mk("staking", "delegationRewards", val, strings.Replace(val, "$valop", "$valacc", 1))}
			}
			return []PAct{mk("staking", "delegationRewards", val, someone())}
		case 2:
			return []PAct{mk("staking", "delegation", val, someone())}
		case 3:
			return []PAct{mk("staking", "allowanceShares", val, someone(), someone())}
		default:
			return []PAct{mk("staking", "slashingInfo", val)}
		}
	case 0, 1, 2:
		return []PAct{mk("staking", "delegateV2", val, stakeAmt)}
	case 3:
		return []PAct{mk("staking", "undelegateV2", val, unitAmount(bit, 1e14))}
	case 4:
		return []PAct{mk("staking", "redelegateV2", val, fmt.Sprintf("$valop%d", r.Rng.IntN(r.Cfg.World.Validators)), unitAmount(bit, 1e14))}
	case 5:
		return []PAct{mk("staking", "withdraw", val)}
	case 6:
		return []PAct{mk("staking", "approveShares", val, someone(), shares)}
	case 7:
		return []PAct{mk("staking", "transferShares", val, someone(), shares)}
	case 8:
		return []PAct{mk("staking", "transferFromShares", val, someone(), someone(), shares)}
	case 9, 10:
		// ERC-20 withdrawal through the bridge: approve, then crossChain
		ap := PAct{K: "pre", T: "token:USDT", M: "approve", Args: []string{cctypes.GetAddress().Hex(), "1000000000000"}, Bit: bit + 1}
		cc := mk("crosschain", "crossChain", "$USDT", fmt.Sprintf("$ext%d", r.Rng.IntN(5)), tokAmt, "1", "$target", "")
		return []PAct{ap, cc}
	case 11:
		// native FX through the bridge (msg.value)
		amt := new(big.Int).Mul(new(big.Int).Lsh(big.NewInt(1), uint(bit)), big.NewInt(1000))
		a := mk("crosschain", "crossChain", "0x0000000000000000000000000000000000000000", fmt.Sprintf("$ext%d", r.Rng.IntN(5)), amt.String(), "7", "$target", "")
		a.Value = new(big.Int).Add(amt, big.NewInt(7)).String()
		return []PAct{a}
	case 12:
		if len(v.Pool) > 0 {
			p := v.Pool[r.Rng.IntN(len(v.Pool))]
			if r.Pct(50) {
				return []PAct{mk("crosschain", "cancelSendToExternal", "$chain", fmt.Sprint(p.Id))}
			}
			return []PAct{
				{K: "pre", T: "token:USDT", M: "approve", Args: []string{cctypes.GetAddress().Hex(), "1000000000000"}, Bit: bit + 1},
				mk("crosschain", "increaseBridgeFee", "$chain", fmt.Sprint(p.Id), "$USDT", "3"),
			}
		}
		return []PAct{{K: "sstore", Bit: bit}}
	default:
		pend := v.SortedPending()
		if len(pend) > 0 && r.Pct(60) {
			return []PAct{mk("crosschain", "executeClaim", "$chain", fmt.Sprint(pend[r.Rng.IntN(len(pend))]))}
		}
		// outgoing bridge call with a token (sometimes after moving the same token directly)
		ap := PAct{K: "pre", T: "token:USDT", M: "approve", Args: []string{cctypes.GetAddress().Hex(), "1000000000000"}, Bit: bit + 1}
		if r.Pct(50) {
			ap = PAct{K: "pre", T: "token:USDT", M: "transfer", Args: []string{someone(), "7"}, Bit: bit + 1}
		}
		if r.Pct(30) {
			// message-only bridge call: no tokens, no value - nothing but the record itself is written
			return []PAct{mk("crosschain", "bridgeCall", "$chain", someone(), "", "", fmt.Sprintf("$ext%d", r.Rng.IntN(5)), fmt.Sprintf("%04x", 0x1000+bit), "0", "")}
		}
		bc := mk("crosschain", "bridgeCall", "$chain", someone(), "$USDT", tokAmt, fmt.Sprintf("$ext%d", r.Rng.IntN(5)), "", "0", "")
		return []PAct{ap, bc}
	}
}

// genAllowanceProgram: a coherent share-allowance history inside one transaction - the root delegates and
// grants an allowance to its child, the child spends it (within the allowance and the delegation, beyond the
// delegation, beyond the allowance), and either of them may end dead. transferFromShares only ever succeeds
// when such a history exists, random arguments do not produce one.
func (e EvmEngine) genAllowanceProgram(r *Run) Program {
	st := bst(r)
	val := fmt.Sprintf("$valop%d", r.Rng.IntN(r.Cfg.World.Validators))
	ends := []string{"return", "return", "return", "revert", "revert", "invalid", "burn"}
	deleg := unitAmount(0, 1e15) // 0.001 FX
	allow := []string{unitAmount(0, 1e14), unitAmount(0, 1e15), unitAmount(0, 1e16)}[r.Rng.IntN(3)]
	spend := []string{unitAmount(0, 1e13), unitAmount(0, 1e14), unitAmount(0, 2e15), unitAmount(0, 1e17)}[r.Rng.IntN(4)]
	to := fmt.Sprintf("$user%d", r.Rng.IntN(st.NUsers))
	if r.Pct(30) {
		to = "$node1"
	}
	root := PNode{End: ends[r.Rng.IntN(len(ends))]}
	if r.Pct(60) {
		root.End = "return"
	}
	root.Acts = append(root.Acts,
		PAct{K: "pre", T: "staking", M: "delegateV2", Args: []string{val, deleg}, Bit: 0},
		PAct{K: "pre", T: "staking", M: "approveShares", Args: []string{val, "$node1", allow}, Bit: 1})
	ch := PAct{K: "child", Child: 1}
	if r.Pct(50) {
		ch.Fail = "revert"
	}
	if r.Pct(20) {
		ch.Gas = uint64(60_000 + r.Rng.IntN(500_000))
	}
	root.Acts = append(root.Acts, ch)
	if r.Pct(40) {
		root.Acts = append(root.Acts, PAct{K: "pre", T: "staking", M: "allowanceShares", Args: []string{val, "$node0", "$node1"}, Bit: 4})
	}
	child := PNode{End: ends[r.Rng.IntN(len(ends))]}
	child.Acts = append(child.Acts, PAct{K: "pre", T: "staking", M: "transferFromShares", Args: []string{val, "$node0", to, spend}, Bit: 2})
	if r.Pct(40) {
		child.Acts = append(child.Acts, PAct{K: "pre", T: "staking", M: "transferFromShares", Args: []string{val, "$node0", to, unitAmount(0, 1e13)}, Bit: 3})
	}
	return Program{Nodes: []PNode{root, child}}
}

func (e EvmEngine) genProgram(r *Run) Program {
	st := bst(r)
	v := r.W.ViewChain(r.W.Ctx(), st.Chains[0].Name)
	n := 1 + r.Rng.IntN(5)
	p := Program{Nodes: make([]PNode, n)}
	bit := 0
	for j := 0; j < n; j++ {
		nl := r.Rng.IntN(3)
		if j == n-1 && bit == 0 {
			nl = 1 + r.Rng.IntN(2)
		}
		for k := 0; k < nl && bit < 40; k++ {
			acts := e.genLeaf(r, bit, n, v)
			p.Nodes[j].Acts = append(p.Nodes[j].Acts, acts...)
			bit += 2
		}
		ends := []string{"return", "return", "return", "return", "return", "revert", "revert", "invalid", "burn"}
		p.Nodes[j].End = ends[r.Rng.IntN(len(ends))]
		if j == 0 && r.Pct(70) {
			p.Nodes[j].End = "return"
		}
	}
	// tree edges: node j>0 is called by a parent p<j at a random position
	for j := 1; j < n; j++ {
		par := r.Rng.IntN(j)
		ch := PAct{K: "child", Child: j}
		if r.Pct(40) {
			ch.Fail = "revert"
		}
		if r.Pct(12) {
			ch.Call = "static"
		}
		if r.Pct(25) {
			ch.Gas = uint64(30_000 + r.Rng.IntN(600_000))
		}
		acts := p.Nodes[par].Acts
		pos := r.Rng.IntN(len(acts) + 1)
		acts = append(acts[:pos], append([]PAct{ch}, acts[pos:]...)...)
		p.Nodes[par].Acts = acts
	}
	return p
}

func (e EvmEngine) genLadder(r *Run) (string, uint64) {
	var pts []uint64
	pts = append(pts, 21_000, 21_500+uint64(r.Rng.IntN(1000)))
	n := 5 + r.Rng.IntN(5)
	for i := 0; i < n; i++ {
		// log-uniform between 22k and 3M
		x := math.Exp(math.Log(22_000) + r.Rng.Float64()*(math.Log(3_000_000)-math.Log(22_000)))
		pts = append(pts, uint64(x))
	}
	pts = append(pts, 20_000_000)
	var ss []string
	for _, p := range pts {
		ss = append(ss, fmt.Sprint(p))
	}
	commit := pts[2+r.Rng.IntN(len(pts)-2)]
	return strings.Join(ss, ","), commit
}

func (e EvmEngine) genC09(r *Run) Step {
	st := bst(r)
	progs := st.Evm.Programs
	nOK := 0
	for _, p := range progs {
		if p.OK {
			nOK++
		}
	}
	if r.Pct(12) {
		if s, ok := e.bridgeTick(r); ok {
			return s
		}
	}
	if nOK == 0 || r.Pct(35) {
		p := e.genProgram(r)
		if r.Pct(25) { // contracts that touch a token directly and convert it through a precompile
			p = e.genMixProgram(r, []string{"USDT", "WFX"}[r.Rng.IntN(2)])
		} else if r.Pct(25) {
			p = e.genAllowanceProgram(r)
		}
		bz, _ := json.Marshal(p)
		return Step{Kind: "deploy", A: A("prog", string(bz), "deployer", KeyName("user", r.Rng.IntN(st.NUsers)), "fund_fx", FX(100).String(), "fund_usdt", 20000)}
	}
	// run a deployed program (prefer the newest ones)
	var idx []int
	for i, p := range progs {
		if p.OK {
			idx = append(idx, i)
		}
	}
	pi := idx[len(idx)-1-r.Rng.IntN(min(len(idx), 3))]
	ladder, commit := e.genLadder(r)
	if r.Pct(30) {
		commit = 20_000_000
	}
	return Step{Kind: "run", A: A("prog", pi, "sender", KeyName("user", r.Rng.IntN(st.NUsers)), "ladder", ladder, "commit", commit)}
}
