package sim

import (
	"fmt"
	"sort"
	"time"

	sdkmath "cosmossdk.io/math"
	sdk "github.com/cosmos/cosmos-sdk/types"

	cctypes "github.com/functionx/fx-core/v8/x/crosschain/types"
)

// C13 — oracle registry one-to-one; stake recoverable; only missed signing is slashed.

type c13Oracle struct {
	Stake        sdkmath.Int // what the oracle transferred minus penalties paid (model)
	Known        bool
	RemovedByGov bool
	RemovedAt    time.Time
	SlashedOnce  bool
	Readmitted   bool  // came back by add-delegate after a governance removal (its old stake was undelegated)
	JoinHeight   int64 // height at which the oracle last came online (model's own record)
}

type c13Model struct {
	or          map[string]map[string]*c13Oracle // chain -> oracle bech32
	slashedSeen bool
	supplyPre   sdkmath.Int
	balPre      map[string]sdk.Coins
}

func newC13(st *BridgeSt) *c13Model {
	m := &c13Model{or: map[string]map[string]*c13Oracle{}, balPre: map[string]sdk.Coins{}}
	for _, c := range st.Chains {
		m.or[c.Name] = map[string]*c13Oracle{}
	}
	return m
}

func (m *c13Model) before(r *Run, s *Step) {
	if r.Prop != "C13" {
		return
	}
	w := r.W
	ctx := w.Ctx()
	m.supplyPre = w.App.BankKeeper.GetSupply(ctx, "FX").Amount
	m.balPre = map[string]sdk.Coins{}
	for _, ch := range bst(r).Chains {
		for i := range ch.Oracles {
			k := ch.oracleKey(w, i)
			m.balPre[k.Bech()] = w.App.BankKeeper.GetAllBalances(ctx, k.Acc())
			or := cctypes.Oracle{OracleAddress: k.Bech()}
			da := or.GetDelegateAddress(ch.Name)
			m.balPre["d:"+ch.Name+":"+k.Bech()] = w.App.BankKeeper.GetAllBalances(ctx, da)
		}
	}
}

// anySlashed: once any validator has been slashed, stake may have lost value at one validator
// and been moved to another; token comparisons are then skipped for the rest of the run.
func (m *c13Model) anySlashed(r *Run) bool {
	if m.slashedSeen {
		return true
	}
	vals, _ := r.W.App.StakingKeeper.GetAllValidators(r.W.Ctx())
	for _, v := range vals {
		if !v.Tokens.Equal(v.DelegatorShares.TruncateInt()) || !v.DelegatorShares.IsInteger() {
			m.slashedSeen = true
		}
	}
	return m.slashedSeen
}

func (m *c13Model) get(chain, oracle string) *c13Oracle {
	o, ok := m.or[chain][oracle]
	if !ok {
		o = &c13Oracle{Stake: sdkmath.ZeroInt()}
		m.or[chain][oracle] = o
	}
	return o
}

func (m *c13Model) check(r *Run, c *bridgeChecks, s *Step, o *Outcome) []Violation {
	var vs []Violation
	st := bst(r)
	w := r.W
	ctx := w.Ctx()
	for _, ch := range st.Chains {
		pre, post := c.pre[ch.Name], c.post[ch.Name]
		// ---- registry bijection
		bridgers := map[string]string{}
		externals := map[string]string{}
		for _, or := range post.OracleList {
			if o2, dup := bridgers[or.BridgerAddress]; dup {
				vs = append(vs, viol("registry-bijection", "bridger-shared", "%s: bridger %s belongs to oracles %s and %s", ch.Name, or.BridgerAddress, o2, or.OracleAddress))
			}
			bridgers[or.BridgerAddress] = or.OracleAddress
			if o2, dup := externals[or.ExternalAddress]; dup {
				vs = append(vs, viol("registry-bijection", "external-shared", "%s: external address %s belongs to oracles %s and %s", ch.Name, or.ExternalAddress, o2, or.OracleAddress))
			}
			externals[or.ExternalAddress] = or.OracleAddress
			if post.ByBridger[or.BridgerAddress] != or.OracleAddress {
				vs = append(vs, viol("registry-bijection", "bridger-index-disagrees", "%s: oracle %s bridger %s, index says %q", ch.Name, or.OracleAddress, or.BridgerAddress, post.ByBridger[or.BridgerAddress]))
			}
			if post.ByExternal[or.ExternalAddress] != or.OracleAddress {
				vs = append(vs, viol("registry-bijection", "external-index-disagrees", "%s: oracle %s external %s, index says %q", ch.Name, or.OracleAddress, or.ExternalAddress, post.ByExternal[or.ExternalAddress]))
			}
		}
		for _, b := range sortedKeys(post.ByBridger) {
			if or, ok := post.Oracles[post.ByBridger[b]]; !ok || or.BridgerAddress != b {
				vs = append(vs, viol("registry-bijection", "bridger-index-orphan", "%s: bridger index %s -> %s has no matching oracle record", ch.Name, b, post.ByBridger[b]))
			}
		}
		for _, e := range sortedKeys(post.ByExternal) {
			if or, ok := post.Oracles[post.ByExternal[e]]; !ok || or.ExternalAddress != e {
				vs = append(vs, viol("registry-bijection", "external-index-orphan", "%s: external index %s -> %s has no matching oracle record", ch.Name, e, post.ByExternal[e]))
			}
		}
		approved := map[string]bool{}
		for _, a := range pre.Approved {
			approved[a] = true
		}
		thr := pre.Params.DelegateThreshold.Amount
		maxStake := thr.MulRaw(pre.Params.DelegateMultiple)
		solo := deliveredCount(o) == 1 && s.N <= 1
		// ---- bond / add-delegate
		for _, t := range okTxs(o, "bond") {
			if t.Tx.A.Str("chain") != ch.Name {
				continue
			}
			ob := w.KeyByName(t.Tx.S).Bech()
			amt := t.Tx.A.SdkInt("amount")
			if !approved[ob] {
				vs = append(vs, viol("bond-gated", "bond/not-approved", "%s: %s bonded without being in the governance-approved list", ch.Name, t.Tx.S))
			}
			if amt.LT(thr) || amt.GT(maxStake) {
				vs = append(vs, viol("bond-gated", "bond/out-of-bounds", "%s: %s bonded %s outside [%s, %s]", ch.Name, t.Tx.S, amt, thr, maxStake))
			}
			mo := m.get(ch.Name, ob)
			mo.Stake, mo.Known, mo.RemovedByGov = amt, true, false
			mo.JoinHeight = w.Height
			r.Probe("bond-ok")
			if r.StepNo > 0 {
				r.Nontrivial = true
			}
		}
		for _, t := range okTxs(o, "add_delegate") {
			if t.Tx.A.Str("chain") != ch.Name {
				continue
			}
			ob := w.KeyByName(t.Tx.S).Bech()
			prev, ok := pre.Oracles[ob]
			if !ok {
				continue
			}
			if !approved[ob] {
				vs = append(vs, viol("bond-gated", "add-delegate/not-approved", "%s: %s added stake without being approved", ch.Name, t.Tx.S))
			}
			pen := prev.GetSlashAmount(pre.Params.SlashFraction)
			mo := m.get(ch.Name, ob)
			mo.Stake = mo.Stake.Add(t.Tx.A.SdkInt("amount")).Sub(pen)
			if solo {
				// what leaves the oracle's own account is exactly what the message names (penalty included in it)
				debit := m.balPre[ob].AmountOf("FX").Sub(w.App.BankKeeper.GetBalance(ctx, w.KeyByName(t.Tx.S).Acc(), "FX").Amount)
				if !debit.Equal(t.Tx.A.SdkInt("amount")) {
					vs = append(vs, viol("stake-accounting", "add-delegate/wallet-debit-differs", "%s: %s added %s (outstanding penalty %s): its account was debited %s", ch.Name, t.Tx.S, t.Tx.A.SdkInt("amount"), pen, debit))
				}
			}
			if pen.IsPositive() {
				r.Probe("penalty-paid-by-add-delegate")
				if solo && !m.supplyPre.Sub(w.App.BankKeeper.GetSupply(ctx, "FX").Amount).Equal(pen) && r.Cfg.World.NoInflation {
					vs = append(vs, viol("penalty-once", "add-delegate/burn", "%s: penalty %s due, supply changed by %s", ch.Name, pen, m.supplyPre.Sub(w.App.BankKeeper.GetSupply(ctx, "FX").Amount)))
				}
			}
			if np, ok := post.Oracles[ob]; ok {
				if np.DelegateAmount.LT(thr) || np.DelegateAmount.GT(maxStake) {
					vs = append(vs, viol("bond-gated", "add-delegate/out-of-bounds", "%s: %s stake %s outside [%s, %s]", ch.Name, t.Tx.S, np.DelegateAmount, thr, maxStake))
				}
				if !prev.Online && np.Online {
					r.Probe("oracle-back-online")
					mo.JoinHeight = w.Height
					if mo.RemovedByGov {
						// removed by governance (stake undelegated), approved again, back via add-delegate
						mo.RemovedByGov, mo.Readmitted = false, true
						r.Probe("readmitted-by-add-delegate")
					}
				}
			}
			r.Nontrivial = true
		}
		// ---- stake accounting
		for _, or := range post.OracleList {
			mo := m.get(ch.Name, or.OracleAddress)
			if !mo.Known {
				continue
			}
			if !or.DelegateAmount.Equal(mo.Stake) {
				vs = append(vs, viol("stake-accounting", "recorded-stake-differs", "%s: oracle %s recorded stake %s, transferred minus penalties %s", ch.Name, or.OracleAddress, or.DelegateAmount, mo.Stake))
			}
			if or.SlashTimes > 0 && or.GetSlashAmount(post.Params.SlashFraction).GT(or.DelegateAmount) {
				vs = append(vs, viol("penalty-once", "penalty-exceeds-stake", "%s: oracle %s penalty above stake", ch.Name, or.OracleAddress))
			}
			// delegated on its behalf (while online and the validator was never slashed)
			if or.Online && !mo.RemovedByGov && !m.anySlashed(r) {
				val, err := w.App.StakingKeeper.GetValidator(ctx, or.GetValidator())
				if err == nil && val.Tokens.Equal(val.DelegatorShares.TruncateInt()) && val.DelegatorShares.IsInteger() {
					del, err := w.App.StakingKeeper.GetDelegation(ctx, or.GetDelegateAddress(ch.Name), or.GetValidator())
					if err != nil {
						site := "delegation-missing"
						if mo.Readmitted {
							site += "/readmitted-after-governance-removal"
							mo.Known = false
						}
						vs = append(vs, viol("stake-accounting", site, "%s: online oracle %s has no delegation at %s", ch.Name, or.OracleAddress, or.DelegateValidator))
					} else if !val.TokensFromShares(del.Shares).TruncateInt().Equal(or.DelegateAmount) {
						site := "delegation-differs"
						if mo.Readmitted {
							site += "/readmitted-after-governance-removal"
							mo.Known = false // the ledger of this oracle is reported once
						}
						vs = append(vs, viol("stake-accounting", site, "%s: oracle %s delegated %s, recorded stake %s", ch.Name, or.OracleAddress, val.TokensFromShares(del.Shares).TruncateInt(), or.DelegateAmount))
					}
				}
			}
		}
		// ---- governance removal bookkeeping
		if s.Kind == "gov" && s.A.Str("what") == "update_oracles" && s.A.Str("chain") == ch.Name && o.Extra["status"] == "PASSED" {
			now := map[string]bool{}
			for _, a := range post.Approved {
				now[a] = true
			}
			for _, or := range post.OracleList {
				if approved[or.OracleAddress] && !now[or.OracleAddress] {
					mo := m.get(ch.Name, or.OracleAddress)
					mo.RemovedByGov, mo.RemovedAt = true, w.Now
					if or.Online {
						vs = append(vs, viol("registry", "removed-oracle-still-online", "%s: oracle %s removed by governance but still online", ch.Name, or.OracleAddress))
					}
					r.Probe("gov-removed-oracle")
					r.Nontrivial = true
				}
			}
		}
		// ---- slash-justified: online -> offline needs a witness object
		if !(s.Kind == "gov" && s.A.Str("what") == "update_oracles") {
			for _, or := range post.OracleList {
				prev, ok := pre.Oracles[or.OracleAddress]
				if !ok || !prev.Online || or.Online {
					continue
				}
				r.Probe("oracle-slashed")
				r.Nontrivial = true
				if or.SlashTimes != prev.SlashTimes+1 {
					vs = append(vs, viol("penalty-once", "slash-times-jump", "%s: oracle %s slash times %d -> %d in one step", ch.Name, or.OracleAddress, prev.SlashTimes, or.SlashTimes))
				}
				// the join height is the model's own record (bond / coming back online), not the stored field
				if mo := m.get(ch.Name, or.OracleAddress); mo.Known && mo.JoinHeight > prev.StartHeight {
					prev.StartHeight = mo.JoinHeight
				}
				if !m.hasWitness(pre, post, prev, uint64(w.Height)) {
					vs = append(vs, viol("slash-justified", "no-unconfirmed-object", "%s: oracle %s (start height %d) went offline at height %d without an object it left unconfirmed for the signed window %d", ch.Name, or.OracleAddress, prev.StartHeight, w.Height, pre.Params.SignedWindow))
				}
			}
		}
		// ---- unbond
		for _, t := range okTxs(o, "unbond") {
			if t.Tx.A.Str("chain") != ch.Name {
				continue
			}
			ob := w.KeyByName(t.Tx.S).Bech()
			prev, ok := pre.Oracles[ob]
			if !ok {
				vs = append(vs, viol("unbond-once", "unbond-without-record", "%s: unbond of %s succeeded without a record", ch.Name, t.Tx.S))
				continue
			}
			r.Probe("unbond-ok")
			r.Nontrivial = true
			if _, still := post.Oracles[ob]; still {
				vs = append(vs, viol("unbond-once", "record-survives", "%s: oracle record of %s survives unbond", ch.Name, t.Tx.S))
			}
			if approved[ob] {
				vs = append(vs, viol("unbond-once", "unbond-while-approved", "%s: %s unbonded while still approved by governance", ch.Name, t.Tx.S))
			}
			if solo && !m.get(ch.Name, ob).Readmitted {
				mo := m.get(ch.Name, ob)
				pen := prev.GetSlashAmount(pre.Params.SlashFraction)
				got := w.App.BankKeeper.GetBalance(ctx, w.KeyByName(t.Tx.S).Acc(), "FX").Amount.Sub(m.balPre[ob].AmountOf("FX"))
				// the stake must come back: everything it transferred minus penalties (validator slashing aside)
				want := mo.Stake.Sub(pen)
				valSlashed := m.anySlashed(r)
				if got.LT(want) && !valSlashed {
					// where is the stake?
					where := "nowhere"
					if ubd, err := w.App.StakingKeeper.GetUnbondingDelegation(ctx, prev.GetDelegateAddress(ch.Name), prev.GetValidator()); err == nil && len(ubd.Entries) > 0 {
						where = "still unbonding for the delegate address"
					}
					vs = append(vs, viol("unbond-once", "payout-below-stake", "%s: %s unbonded and received %s, its stake minus penalties is %s (stake is %s)", ch.Name, t.Tx.S, got, want, where))
				}
				mo.Known = false
			}
		}
		online := 0
		for _, or := range post.OracleList {
			if or.Online {
				online++
			}
		}
		r.State(fmt.Sprintf("%s:n%d/on%d/appr%d", ch.Name, min(len(post.OracleList), 9), online, min(len(post.Approved), 9)))
	}
	return vs
}

// hasWitness: an oracle set, batch or bridge call created at or after the oracle joined,
// not confirmed by it, and older than the signed window.
func (m *c13Model) hasWitness(pre, post *ChainView, or cctypes.Oracle, height uint64) bool {
	// governance may change the window inside the very step: take the smaller one
	w := pre.Params.SignedWindow
	if post.Params.SignedWindow < w {
		w = post.Params.SignedWindow
	}
	okObj := func(objHeight uint64, confirmed bool) bool {
		return !confirmed && objHeight >= uint64(or.StartHeight) && objHeight+w < height+1
	}
	for _, v := range []*ChainView{pre, post} {
		for _, os := range v.OracleSets {
			_, c1 := pre.SetConfirms[os.Nonce][or.OracleAddress]
			_, c2 := post.SetConfirms[os.Nonce][or.OracleAddress]
			if okObj(os.Height, c1 || c2) {
				return true
			}
		}
		for _, b := range v.Batches {
			id := batchID(b.TokenContract, b.BatchNonce)
			_, c1 := pre.BatchConfirms[id][or.OracleAddress]
			_, c2 := post.BatchConfirms[id][or.OracleAddress]
			if okObj(b.Block, c1 || c2) {
				return true
			}
		}
		for _, bc := range v.Calls {
			_, c1 := pre.CallConfirms[bc.Nonce][or.OracleAddress]
			_, c2 := post.CallConfirms[bc.Nonce][or.OracleAddress]
			if okObj(bc.BlockHeight, c1 || c2) {
				return true
			}
		}
	}
	return false
}

// finish: bounded liveness after faults stop — every oracle removed by governance can,
// once the unbonding period has passed, withdraw its stake minus penalties.
func (m *c13Model) finish(r *Run, c *bridgeChecks) []Violation {
	var vs []Violation
	st := bst(r)
	w := r.W
	type cand struct {
		ch  *ChainSt
		i   int
		key *Key
	}
	var cands []cand
	for _, ch := range st.Chains {
		v := w.ViewChain(w.Ctx(), ch.Name)
		appr := map[string]bool{}
		for _, a := range v.Approved {
			appr[a] = true
		}
		for i := range ch.Oracles {
			k := ch.oracleKey(w, i)
			or, ok := v.Oracles[k.Bech()]
			mo := m.get(ch.Name, k.Bech())
			// (a readmitted oracle's ledger is unreliable: recorded known finding, see 11.4)
			if ok && !or.Online && mo.RemovedByGov && !appr[k.Bech()] && mo.Known && !mo.Readmitted {
				cands = append(cands, cand{ch, i, k})
			}
		}
	}
	if len(cands) == 0 {
		return nil
	}
	sort.Slice(cands, func(i, j int) bool { return cands[i].key.Bech() < cands[j].key.Bech() })
	// let the unbonding period pass
	if _, halt := w.RunBlock(nil, time.Duration(r.Cfg.World.UnbondingSec+60)*time.Second); halt != nil {
		r.Foreign = "halt:" + halt.Site
		return nil
	}
	if _, halt := w.RunBlock(nil, 5*time.Second); halt != nil {
		r.Foreign = "halt:" + halt.Site
		return nil
	}
	for _, cd := range cands {
		v := w.ViewChain(w.Ctx(), cd.ch.Name)
		prev := v.Oracles[cd.key.Bech()]
		before := w.App.BankKeeper.GetBalance(w.Ctx(), cd.key.Acc(), "FX").Amount
		br := w.DeliverBlock([]Tx{{K: "unbond", S: KeyName("oracle", cd.key.Idx), A: A("chain", cd.ch.Name)}}, 5*time.Second, 0)
		if br.Halt != nil {
			r.Foreign = "halt:" + br.Halt.Site
			return vs
		}
		r.Probe("finish-unbond-attempt")
		res := br.Out[0].Res
		mo := m.get(cd.ch.Name, cd.key.Bech())
		pen := prev.GetSlashAmount(v.Params.SlashFraction)
		want := mo.Stake.Sub(pen)
		if !res.OK() {
			vs = append(vs, viol("unbond-once", "unbond-after-maturity-refused", "%s: oracle %d was removed by governance, the unbonding period has passed, unbond fails: %s", cd.ch.Name, cd.i, res.String()))
			continue
		}
		got := w.App.BankKeeper.GetBalance(w.Ctx(), cd.key.Acc(), "FX").Amount.Sub(before)
		valSlashed := m.anySlashed(r)
		if got.LT(want) && !valSlashed {
			vs = append(vs, viol("unbond-once", "payout-below-stake", "%s: oracle %d unbonded after maturity and received %s, stake minus penalties is %s", cd.ch.Name, cd.i, got, want))
		}
		// second unbond must fail
		br2 := w.DeliverBlock([]Tx{{K: "unbond", S: KeyName("oracle", cd.key.Idx), A: A("chain", cd.ch.Name)}}, 5*time.Second, 0)
		if br2.Halt == nil && br2.Out[0].Res.OK() {
			vs = append(vs, viol("unbond-once", "second-unbond-accepted", "%s: oracle %d unbonded twice", cd.ch.Name, cd.i))
		}
	}
	return vs
}
