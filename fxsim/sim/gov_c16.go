package sim

import (
	"fmt"
	"os"
	"sort"
	"strings"
	"time"

	msgv1 "cosmossdk.io/api/cosmos/msg/v1"
	"github.com/cosmos/cosmos-sdk/baseapp"
	codectypes "github.com/cosmos/cosmos-sdk/codec/types"
	sdk "github.com/cosmos/cosmos-sdk/types"
	authtypes "github.com/cosmos/cosmos-sdk/x/auth/types"
	govv1 "github.com/cosmos/cosmos-sdk/x/gov/types/v1"
	stakingtypes "github.com/cosmos/cosmos-sdk/x/staking/types"
	gogoproto "github.com/cosmos/gogoproto/proto"
	protov2 "google.golang.org/protobuf/proto"
	"google.golang.org/protobuf/reflect/protoreflect"
)

// ---------------------------------------------------------------------------------------
// enumeration of privileged message types

type c16Type struct {
	URL      string
	Field    string // name of the signer field (authority; "signer" for the listed ibc types)
	Routed   bool   // a handler is registered on the msg service router
	PerChain bool   // carries a chain_name field: one grid row per chain
}

// gsignerDesc returns the cosmos.msg.v1.signer option of a registered message type.
func gsignerDesc(url string) ([]string, protoreflect.MessageDescriptor) {
	d, err := gogoproto.HybridResolver.FindDescriptorByName(protoreflect.FullName(strings.TrimPrefix(url, "/")))
	if err != nil {
		return nil, nil
	}
	md, ok := d.(protoreflect.MessageDescriptor)
	if !ok {
		return nil, nil
	}
	ext, _ := protov2.GetExtension(md.Options(), msgv1.E_Signer).([]string)
	return ext, md
}

func gsignerField(url string) string {
	if s, _ := gsignerDesc(url); len(s) == 1 {
		return s[0]
	}
	return ""
}

// ibc-go names the authority field of its governance-only messages "signer"; they cannot be
// told from ordinary messages by the option, so they are listed by hand (if registered).
var c16ExtraGovOnly = map[string]bool{
	"/ibc.core.client.v1.MsgUpdateParams": true, "/ibc.core.client.v1.MsgRecoverClient": true, "/ibc.core.client.v1.MsgIBCSoftwareUpgrade": true,
	"/ibc.core.connection.v1.MsgUpdateParams": true, "/ibc.core.channel.v1.MsgUpdateParams": true, "/ibc.applications.transfer.v1.MsgUpdateParams": true,
}

// gEnumAuthorityMsgs lists every sdk.Msg implementation registered on the app's interface
// registry whose single signer field is named "authority" (plus the hand-listed ibc ones).
func gEnumAuthorityMsgs(w *World) []c16Type {
	var out []c16Type
	urls := w.App.InterfaceRegistry().ListImplementations(sdk.MsgInterfaceProtoName)
	sort.Strings(urls)
	for _, u := range urls {
		signers, md := gsignerDesc(u)
		if md == nil || len(signers) != 1 {
			continue
		}
		if signers[0] != "authority" && !c16ExtraGovOnly[u] {
			continue
		}
		t := c16Type{URL: u, Field: signers[0], Routed: w.App.MsgServiceRouter().HandlerByTypeURL(u) != nil}
		t.PerChain = md.Fields().ByName("chain_name") != nil
		out = append(out, t)
	}
	return out
}

// ---------------------------------------------------------------------------------------
// grid

var c16Classes = []string{"user", "module", "valoper", "upper", "hex", "empty", "long"}
var c16Modules = []string{"distribution", "bonded_tokens_pool", "erc20", "evm", "eth", "fee_collector", "mint", "bsc", "transfer", "migrate"}

type c16Cell struct {
	T     int
	Chain string
	Shape string // payload shape: valid, zero (only the authority set), or a type specific degenerate form
	Class string
	Path  int
}

// c16Shapes: several payload shapes per type. "valid" is the hand-written payload (the
// reflection filler for unknown types), "zero" the zero value with only the authority set
// (empty params / empty lists), the others are degenerate-but-valid forms that aim at
// objects which exist in the state (delete forms, no-op forms).
func c16Shapes(url string) []string {
	out := []string{"valid", "zero"}
	switch url {
	case "/fx.gov.v1.MsgUpdateCustomParams":
		out = append(out, "delete-existing", "delete-missing")
	case "/fx.gov.v1.MsgUpdateStore":
		out = append(out, "noop", "delete-form", "repeated-key")
	case "/fx.erc20.v1.MsgUpdateDenomAlias":
		out = append(out, "existing-alias")
	case "/cosmos.distribution.v1beta1.MsgCommunityPoolSpend":
		out = append(out, "zero-amount")
	case "/cosmos.bank.v1beta1.MsgSetSendEnabled":
		out = append(out, "use-default")
	case "/fx.gravity.crosschain.v1.MsgUpdateChainOracles":
		out = append(out, "empty-list")
	}
	return out
}

type c16State struct {
	types  []c16Type
	cells  []c16Cell
	cursor int
	coins  []string // base denoms registered by positive controls (generator memory)
	// twin: a second world that executes every step except the injected privileged txs; it is
	// the baseline "the same history without the rejected messages" of the byte-identity oracle
	twin    *World
	signers map[string]bool // x/auth keys of accounts that signed injected txs (sequence / pubkey may differ)
	// results of the current step (filled by apply, judged by check)
	vs []Violation
}

func newC16(r *Run) *c16State {
	c := &c16State{types: gEnumAuthorityMsgs(r.W), signers: map[string]bool{}}
	if tw, err := newGovWorld(r.Cfg); err == nil {
		c.twin = tw
	}
	for ti, t := range c.types {
		r.Probe("type:" + t.URL)
		chains := []string{""}
		if t.PerChain {
			chains = AllChains
		}
		for _, ch := range chains {
			for _, sh := range c16Shapes(t.URL) {
				for _, cl := range c16Classes {
					for p := 1; p <= 4; p++ {
						c.cells = append(c.cells, c16Cell{T: ti, Chain: ch, Shape: sh, Class: cl, Path: p})
					}
				}
			}
		}
	}
	if len(c.cells) > 0 {
		// windows of consecutive runs interleave over the grid: stride by a number coprime to it
		c.cursor = r.Cfg.KnobInt("grid_offset", 0) % len(c.cells)
	}
	if os.Getenv("FXSIM_C16_LIST") != "" {
		for _, t := range c.types {
			_, _, err := gmsg(r.W, t.URL, Args{}, r.W.GovAuthority())
			_, hw, _ := gmsg(r.W, t.URL, Args{}, r.W.GovAuthority())
			fmt.Printf("C16 type %-60s field=%s routed=%v perchain=%v handwritten=%v err=%v\n", t.URL, t.Field, t.Routed, t.PerChain, hw, err)
		}
		fmt.Println("grid cells:", len(c.cells))
	}
	return c
}

// authority builds the literal authority string of a cell; who is the index of the user key involved.
func c16Authority(w *World, class string, who int, variant int) string {
	user := w.Key("user", who)
	gov := authtypes.NewModuleAddress("gov")
	switch class {
	case "user":
		return user.Bech()
	case "module":
		return authtypes.NewModuleAddress(c16Modules[variant%len(c16Modules)]).String()
	case "valoper":
		if variant%2 == 0 {
			return sdk.ValAddress(gov).String() // the governance address itself under the validator prefix
		}
		return user.Val().String()
	case "long":
		// a different account whose address merely contains the governance address: 32 bytes ending
		// (or beginning) with it - passes stateless validation, must not pass the handler
		pad := []byte{0x11, 0x22, 0x33, 0x44, 0x55, 0x66, 0x77, 0x88, 0x99, 0xaa, 0xbb, byte(who + 1)}
		if variant%2 == 0 {
			return sdk.AccAddress(append(pad, gov.Bytes()...)).String()
		}
		return sdk.AccAddress(append(append([]byte{}, gov.Bytes()...), pad...)).String()
	case "upper":
		return strings.ToUpper(user.Bech())
	case "hex":
		if variant%2 == 0 {
			return "0x" + fmt.Sprintf("%x", gov.Bytes())
		}
		return user.Hex().Hex()
	}
	return ""
}

func (c *c16State) item(cell c16Cell, marker int) string {
	t := c.types[cell.T]
	kv := []interface{}{"marker", marker, "window", 5000 + marker, "timeout", 500_000 + marker, "shape", cell.Shape}
	if cell.Chain != "" {
		kv = append(kv, "chain", cell.Chain)
	}
	return gitem(t.URL, kv...)
}

// gen: "inject" = next window of grid cells at this point of the history; "cas" = a
// compare-and-set scenario; "positive" = positive control for a payload.
func (c *c16State) gen(r *Run, kind string) (Step, bool) {
	st := gst(r)
	rng := r.Rng
	switch kind {
	case "inject":
		if len(c.cells) == 0 {
			return Step{}, false
		}
		n := 10 + rng.IntN(10)
		s := Step{Kind: "inject", DtMs: gdt(r), N: 1}
		txSigners := 0
		for i := 0; i < n; i++ {
			cell := c.cells[c.cursor]
			c.cursor = (c.cursor + 1) % len(c.cells)
			st.Uniq++
			who := txSigners % st.NUser
			if cell.Path != 4 {
				if txSigners >= st.NUser { // one tx per signer and block: the rest of the window waits
					c.cursor = (c.cursor + len(c.cells) - 1) % len(c.cells)
					break
				}
				txSigners++
			}
			// the variant is drawn, not derived from the cursor: the grid walks paths in lockstep with the
			// counter, which would pin each (class, path) to one parity
			a := A("path", cell.Path, "class", cell.Class, "item", c.item(cell, st.Uniq), "auth", c16Authority(r.W, cell.Class, who, rng.IntN(1<<16)))
			signer := KeyName("user", who)
			if cell.Path == 2 && (cell.Class == "user" || cell.Class == "upper") && st.Uniq%2 == 0 {
				// authz with a real grant: the authority (another user) has granted the executor
				granter := (who + 1) % st.NUser
				a["auth"] = c16Authority(r.W, cell.Class, granter, st.Uniq)
				a["granter"] = KeyName("user", granter)
			}
			s.Txs = append(s.Txs, Tx{K: "g_priv", S: signer, A: a, Gas: 10_000_000})
		}
		return s, true
	case "cas":
		st.Uniq++
		u := st.Uniq
		variant := []string{"fresh", "stale", "partial", "race-ab", "race-ba", "fresh-multi", "absent", "dup-stale", "dup-chain", "dup-stale", "dup-chain"}[rng.IntN(11)]
		return Step{Kind: "cas", A: A("op", variant, "k1", fmt.Sprintf("f2%02x", rng.IntN(4)), "k2", fmt.Sprintf("f3%02x", rng.IntN(4)), "v", fmt.Sprintf("%06x", u))}, true
	case "positive":
		st.Uniq++
		u := st.Uniq
		item := []string{
			gitem("ccparams", "chain", AllChains[rng.IntN(len(AllChains))], "window", 7000+u),
			gitem("erc20params", "timeout", 700_000+u),
			gitem("custom", "url", "/fx.gov.v1.MsgUpdateSwitchParams", "ratio", "0", "period", 300+u, "quorum", "0.2"),
			gitem("switch", "msgs", fmt.Sprintf("/fxsim.Nonexistent%d", u)),
			gitem("ccoracles", "chain", "eth", "n", 1+u%3),
			gitem("regcoin", "symbol", fmt.Sprintf("TK%d", u)),
			gitem("callcontract", "marker", u),
			gitem("toggle", "token", "FX"),
			gitem("/cosmos.staking.v1beta1.MsgUpdateParams", "max_entries", 7+u%5),
			gitem("spend", "to", KeyName("rcpt", 100_000+u), "amount", 1+u),
			gitem("alias", "denom", "nocoin", "alias", fmt.Sprintf("ethalias%d", u)),
		}[rng.IntN(11)]
		if strings.HasPrefix(item, "regcoin") {
			c.coins = append(c.coins, fmt.Sprintf("tk%d", u))
		}
		if strings.HasPrefix(item, "alias") {
			if len(c.coins) == 0 {
				return Step{}, false
			}
			item = gitem("alias", "denom", c.coins[rng.IntN(len(c.coins))], "alias", fmt.Sprintf("ethalias%d", u))
		}
		return Step{Kind: "positive", A: A("item", item)}, true
	}
	return Step{}, false
}

// ---------------------------------------------------------------------------------------
// apply

func safeHandle(h baseapp.MsgServiceHandler, ctx sdk.Context, m sdk.Msg) (res *sdk.Result, err error) {
	defer func() {
		if rec := recover(); rec != nil {
			err = fmt.Errorf("handler panic: %v", rec)
		}
	}()
	return h(ctx, m)
}

func (c *c16State) bad(inv, site, f string, a ...interface{}) {
	c.vs = append(c.vs, gviol(inv, site, f, a...))
}

func (c *c16State) apply(r *Run, s *Step, o *Outcome) {
	c.vs = nil
	switch s.Kind {
	case "inject":
		c.applyInject(r, s, o)
	case "cas":
		c.applyCAS(r, s, o)
	case "positive":
		c.applyPositive(r, s, o)
	}
}

func typeOfItem(item string) string {
	kind, _ := gparseItem(item)
	if u, ok := gshort[kind]; ok {
		return u
	}
	return kind
}

func (c *c16State) applyInject(r *Run, s *Step, o *Outcome) {
	w := r.W
	gov := w.GovAuthority()
	// ---- path 4: direct router calls, each on its own branch of the committed state
	var base Dump
	var txs []Tx
	for i := range s.Txs {
		t := &s.Txs[i]
		if t.K != "g_priv" || t.A.Str("auth") == gov {
			continue // a replay edited by hand must not inject the real authority
		}
		url := typeOfItem(t.A.Str("item"))
		if t.A.Int("path") != 4 {
			txs = append(txs, *t)
			continue
		}
		kind, a := gparseItem(t.A.Str("item"))
		m, hw, err := gmsg(w, kind, a, t.A.Str("auth"))
		if err != nil {
			o.Txs = append(o.Txs, TxOutcome{Tx: t, Note: "build: " + err.Error()})
			continue
		}
		c.probeCell(r, url, t, hw)
		h := w.App.MsgServiceRouter().Handler(m)
		if h == nil {
			r.Probe("c16-unrouted")
			o.Txs = append(o.Txs, TxOutcome{Tx: t, Note: "no handler registered (rejected)"})
			continue
		}
		if base == nil {
			base = w.Dump()
		}
		ctx := w.Branch()
		cc, write := ctx.CacheContext()
		_, herr := safeHandle(h, cc, m)
		if herr == nil {
			write() // what every caller of the router does on success
		}
		diff := Diff(base, w.DumpCtx(ctx))
		note := "rejected"
		if herr == nil {
			note = "ACCEPTED"
			c.bad("authority", "router/"+shortType(url)+"/accepted", "%s with authority %q (%s) was executed by the msg router without error; %d keys changed%s", url, t.A.Str("auth"), t.A.Str("class"), len(diff), diffSample(diff))
		} else if len(diff) > 0 {
			c.bad("authority", "router/"+shortType(url)+"/state-changed", "%s with authority %q failed but changed %d keys%s", url, t.A.Str("auth"), len(diff), diffSample(diff))
		}
		o.Txs = append(o.Txs, TxOutcome{Tx: t, Note: note})
	}
	// ---- paths 1-3: one block carrying the injected txs; baseline = the same block without
	// them on a fork of the world
	dt := time.Duration(s.DtMs) * time.Millisecond
	if dt <= 0 {
		dt = 5 * time.Second
	}
	if len(txs) == 0 {
		br := govDeliver(w, nil, dt, 0)
		o.Halt = br.Halt
		c.mirror(func(tw *World) *HaltInfo { return govDeliver(tw, nil, dt, 0).Halt })
		return
	}
	// grants needed by path-2 cells go into a block of their own first (both worlds)
	var grants []Tx
	for _, t := range txs {
		if g := t.A.Str("granter"); g != "" {
			grants = append(grants, Tx{K: "g_grant", S: g, A: A("grantee", t.S, "url", typeOfItem(t.A.Str("item")))})
		}
	}
	if len(grants) > 0 {
		if br := govDeliver(w, cloneTxs(grants), dt, 0); br.Halt != nil {
			o.Halt = br.Halt
			return
		}
		c.mirror(func(tw *World) *HaltInfo { return govDeliver(tw, cloneTxs(grants), dt, 0).Halt })
	}
	br := govDeliver(w, txs, dt, 0)
	if br.Halt != nil {
		o.Halt = br.Halt
		return
	}
	c.mirror(func(tw *World) *HaltInfo { return govDeliver(tw, nil, dt, 0).Halt })
	var followUp []uint64
	for i := range br.Out {
		oc := br.Out[i]
		o.Txs = append(o.Txs, oc)
		t := oc.Tx
		url := typeOfItem(t.A.Str("item"))
		if !oc.Built {
			continue
		}
		_, hw, _ := gmsg(w, url, Args{}, w.GovAuthority())
		c.probeCell(r, url, t, hw)
		c.signers[string(append([]byte{0x01}, gmustAddr(w, t.S)...))] = true // x/auth Accounts map: prefix 1 + address
		if oc.Res.OK() {
			if t.A.Int("path") == 3 { // accepted into governance: must still fail at execution
				var id uint64
				if ids := oc.Res.EventAttr("submit_proposal", "proposal_id"); len(ids) > 0 {
					fmt.Sscan(ids[0], &id)
					followUp = append(followUp, id)
					continue
				}
			}
			c.bad("authority", fmt.Sprintf("tx-path%d/%s/accepted", t.A.Int("path"), shortType(url)), "%s with authority %q (%s) was accepted through path %d", url, t.A.Str("auth"), t.A.Str("class"), t.A.Int("path"))
		}
	}
	if len(followUp) == 0 && c.twin != nil {
		diff := FilterDiff(Diff(c.twin.Dump(), w.Dump()), func(e DiffEntry) bool {
			if e.Store == "acc" && c.signers[string(e.Key)] {
				return c16OnlyBookkeeping(w, e)
			}
			return c16BlockGasKey(e) || c16HistoricalAppHash(w, e)
		})
		r.Probe("c16-twin-compared")
		if len(diff) > 0 {
			var urls []string
			for _, t := range txs {
				urls = append(urls, shortType(typeOfItem(t.A.Str("item")))+fmt.Sprintf("/p%d/%s", t.A.Int("path"), t.A.Str("class")))
			}
			c.bad("authority", "tx/state-changed", "after a block with rejected privileged messages %v the stores differ from the same history without them in %d keys%s", urls, len(diff), diffSample(diff))
		}
	}
	for _, id := range followUp {
		c.twin = nil // the histories diverge legitimately (a proposal exists only in the primary world)
		status := gDrive(w, []uint64{id})[0]
		r.Probe("c16-wrong-authority-proposal-accepted")
		if status == "PASSED" {
			c.bad("authority", "proposal/passed-with-wrong-authority", "proposal %d carrying a message with a non-governance authority PASSED", id)
		}
	}
}

// mirror applies a step to the twin world; a twin that halts is dropped.
func (c *c16State) mirror(f func(tw *World) *HaltInfo) {
	if c.twin == nil {
		return
	}
	if h := f(c.twin); h != nil || c.twin.Halt != nil {
		c.twin = nil
	}
}

func cloneTxs(txs []Tx) []Tx {
	out := make([]Tx, len(txs))
	for i, t := range txs {
		out[i] = t
		out[i].A = Args{}
		for k, v := range t.A {
			out[i].A[k] = v
		}
	}
	return out
}

func (c *c16State) probeCell(r *Run, url string, t *Tx, handwritten bool) {
	r.Nontrivial = true
	r.Probe("msg:" + url)
	_, ia := gparseItem(t.A.Str("item"))
	r.Probe("shape:" + ia.Str("shape"))
	p := fmt.Sprintf("cell:%s/p%d", t.A.Str("class"), t.A.Int("path"))
	if t.A.Has("granter") {
		p += "+grant"
	}
	r.Probe(p)
	if handwritten {
		r.Probe("c16-payload-handwritten")
	} else {
		r.Probe("c16-payload-filler")
	}
}

// c16OnlyBookkeeping: the two account records differ at most in sequence and public key.
func c16OnlyBookkeeping(w *World, e DiffEntry) bool {
	if e.A == nil || e.B == nil {
		return false
	}
	var a, b sdk.AccountI
	cdc := w.App.AppCodec()
	if cdc.UnmarshalInterface(e.A, &a) != nil || cdc.UnmarshalInterface(e.B, &b) != nil {
		return false
	}
	_ = a.SetSequence(0)
	_ = b.SetSequence(0)
	_ = a.SetPubKey(nil)
	_ = b.SetPubKey(nil)
	ba, err1 := cdc.MarshalInterface(a)
	bb, err2 := cdc.MarshalInterface(b)
	return err1 == nil && err2 == nil && string(ba) == string(bb)
}

// c16BlockGasKey: per-block gas accounting of the fee market (the rejected txs consumed gas).
func c16BlockGasKey(e DiffEntry) bool {
	return e.Store == "feemarket" && len(e.Key) == 1 && e.Key[0] == 1 // KeyPrefixBlockGasWanted
}

// c16HistoricalAppHash: x/staking historical info embeds the block header and with it the
// previous app hash, which legitimately differs once an account sequence differs.
func c16HistoricalAppHash(w *World, e DiffEntry) bool {
	if e.Store != "staking" || len(e.Key) == 0 || e.Key[0] != 0x50 || e.A == nil || e.B == nil {
		return false
	}
	var a, b stakingtypes.HistoricalInfo
	cdc := w.App.AppCodec()
	if cdc.Unmarshal(e.A, &a) != nil || cdc.Unmarshal(e.B, &b) != nil {
		return false
	}
	a.Header.AppHash, b.Header.AppHash = nil, nil
	ba, err1 := cdc.Marshal(&a)
	bb, err2 := cdc.Marshal(&b)
	return err1 == nil && err2 == nil && string(ba) == string(bb)
}

func diffSample(d []DiffEntry) string {
	var sb strings.Builder
	for i, e := range d {
		if i >= 8 {
			sb.WriteString("; ...")
			break
		}
		sb.WriteString("; " + e.String())
	}
	return sb.String()
}

// gSubmitAll submits one proposal per message list from val/0 (one block each, in order) with
// the minimum deposit and returns the ids (0 = submission failed).
func gSubmitAll(w *World, lists [][]sdk.Msg) ([]uint64, *HaltInfo) {
	var ids []uint64
	proposer := gsign(w, "val/0")
	for i, msgs := range lists {
		p, _ := w.App.GovKeeper.Params.Get(w.Ctx())
		sub, err := govv1.NewMsgSubmitProposal(msgs, sdk.NewCoins(p.MinDeposit...), proposer.Addr.String(), "", fmt.Sprintf("c16-%d", i), "c16", false)
		if err != nil {
			ids = append(ids, 0)
			continue
		}
		raw, err := w.gSignTx(proposer, 0, 20_000_000, sub)
		if err != nil {
			ids = append(ids, 0)
			continue
		}
		resp, halt := w.RunBlock([][]byte{raw}, 5*time.Second)
		if halt != nil {
			return ids, halt
		}
		var id uint64
		if tr := FromExec(resp.TxResults[0]); tr.OK() {
			if l := tr.EventAttr("submit_proposal", "proposal_id"); len(l) > 0 {
				fmt.Sscan(l[0], &id)
			}
		}
		ids = append(ids, id)
	}
	return ids, nil
}

// gDrive lets every validator vote yes on the given proposals, jumps past the last voting
// end and returns the final statuses.
func gDrive(w *World, ids []uint64) []string {
	var votes [][]byte
	for vi := range w.Vals {
		v := gsign(w, KeyName("val", vi))
		var msgs []sdk.Msg
		for _, id := range ids {
			if id != 0 {
				msgs = append(msgs, govv1.NewMsgVote(v.Addr, id, govv1.OptionYes, ""))
			}
		}
		if len(msgs) == 0 {
			continue
		}
		if raw, err := w.gSignTx(v, 0, 10_000_000, msgs...); err == nil {
			votes = append(votes, raw)
		}
	}
	out := make([]string, len(ids))
	if _, halt := w.RunBlock(votes, 5*time.Second); halt != nil {
		return out
	}
	jump := 5 * time.Second
	for _, id := range ids {
		if p, err := w.App.GovKeeper.Proposals.Get(w.Ctx(), id); err == nil {
			if p.VotingEndTime != nil && p.VotingEndTime.Sub(w.Now)+time.Second > jump {
				jump = p.VotingEndTime.Sub(w.Now) + time.Second
			}
			if p.Status == govv1.StatusDepositPeriod && p.DepositEndTime != nil && p.DepositEndTime.Sub(w.Now)+time.Second > jump {
				jump = p.DepositEndTime.Sub(w.Now) + time.Second
			}
		}
	}
	if _, halt := w.RunBlock(nil, jump); halt != nil {
		return out
	}
	for i, id := range ids {
		out[i] = "NONE"
		if p, err := w.App.GovKeeper.Proposals.Get(w.Ctx(), id); err == nil {
			out[i] = strings.TrimPrefix(p.Status.String(), "PROPOSAL_STATUS_")
		}
	}
	return out
}

// applyCAS: MsgUpdateStore applies only if the current value equals the stated old value.
func (c *c16State) applyCAS(r *Run, s *Step, o *Outcome) {
	c.mirror(func(tw *World) *HaltInfo {
		c.casOn(nil, tw, s, &Outcome{Extra: map[string]string{}})
		return tw.Halt
	})
	c.casOn(r, r.W, s, o)
}

// casOn runs a compare-and-set scenario on w; r == nil: twin world (no judgement).
func (c *c16State) casOn(r *Run, w *World, s *Step, o *Outcome) {
	op, k1, k2, v := s.A.Str("op"), s.A.Str("k1"), s.A.Str("k2"), s.A.Str("v")
	if k1 == "" || k2 == "" || v == "" || k1 == k2 {
		return
	}
	space := "migrate"
	cur1, cur2 := gstoreGet(w, space, k1), gstoreGet(w, space, k2)
	stale := func(cur string) string { return cur + "aa" }
	gov := w.GovAuthority()
	mk := func(keys, olds, news string) []sdk.Msg {
		m, _, err := gmsg(w, "store", A("space", space, "key", keys, "old", olds, "new", news), gov)
		if err != nil {
			return nil
		}
		return []sdk.Msg{m}
	}
	type expect struct {
		key, val string // expected value after the scenario
	}
	var lists [][]sdk.Msg
	var wantStatus []string
	var exp []expect
	switch op {
	case "fresh", "absent":
		lists = [][]sdk.Msg{mk(k1, cur1, v)}
		wantStatus, exp = []string{"PASSED"}, []expect{{k1, v}}
	case "fresh-multi":
		lists = [][]sdk.Msg{mk(k1+"|"+k2, cur1+"|"+cur2, v+"|"+v+"01")}
		wantStatus, exp = []string{"PASSED"}, []expect{{k1, v}, {k2, v + "01"}}
	case "stale":
		lists = [][]sdk.Msg{mk(k1, stale(cur1), v)}
		wantStatus, exp = []string{"FAILED"}, []expect{{k1, cur1}}
	case "partial":
		lists = [][]sdk.Msg{mk(k1+"|"+k2, cur1+"|"+stale(cur2), v+"|"+v+"01")}
		wantStatus, exp = []string{"FAILED"}, []expect{{k1, cur1}, {k2, cur2}}
	case "dup-stale": // one message, the same key twice, the second entry still states the pre-message value
		lists = [][]sdk.Msg{mk(k1+"|"+k1, cur1+"|"+cur1, v+"02|"+v+"03")}
		wantStatus, exp = []string{"FAILED"}, []expect{{k1, cur1}}
	case "dup-chain": // one message, the same key twice, correctly chained
		lists = [][]sdk.Msg{mk(k1+"|"+k1, cur1+"|"+v+"02", v+"02|"+v+"03")}
		wantStatus, exp = []string{"PASSED"}, []expect{{k1, v + "03"}}
	case "race-ab", "race-ba":
		a, b := mk(k1, cur1, v+"0a"), mk(k1, cur1, v+"0b")
		first := v + "0a"
		lists = [][]sdk.Msg{a, b}
		if op == "race-ba" {
			lists, first = [][]sdk.Msg{b, a}, v+"0b"
		}
		wantStatus, exp = []string{"PASSED", "FAILED"}, []expect{{k1, first}}
	default:
		return
	}
	for _, l := range lists {
		if l == nil {
			return
		}
	}
	ids, halt := gSubmitAll(w, lists)
	if halt != nil {
		o.Halt = halt
		return
	}
	for _, id := range ids {
		if id == 0 {
			o.Note = "submission failed"
			return
		}
	}
	status := gDrive(w, ids)
	o.Halt = w.Halt
	if w.Halt != nil {
		return
	}
	if r == nil {
		return
	}
	r.Nontrivial = true
	r.Probe("c16-cas-" + op)
	o.Note = fmt.Sprintf("%s -> %v", op, status)
	for i := range status {
		if status[i] != wantStatus[i] {
			if wantStatus[i] == "PASSED" {
				c.bad("positive-control", "cas/"+op+"/fresh-update-not-applied", "MsgUpdateStore proposal %d with matching old value ended %s (expected PASSED)", ids[i], status[i])
			} else {
				c.bad("compare-and-set", "cas/"+op+"/stale-update-status", "MsgUpdateStore proposal %d with a stale old value ended %s (expected FAILED)", ids[i], status[i])
			}
		}
	}
	for _, e := range exp {
		if got := gstoreGet(w, space, e.key); got != e.val {
			inv := "compare-and-set"
			if wantStatus[0] == "PASSED" && len(wantStatus) == 1 {
				inv = "positive-control"
			}
			c.bad(inv, "cas/"+op+"/value", "%s: key %s/%s holds %q, expected %q (statuses %v)", op, space, e.key, got, e.val, status)
		}
	}
}

// positive controls: payloads that are valid in every state must PASS and take effect when
// issued with the governance authority; the others only feed the evidence (payload validity).
var c16AlwaysValid = map[string]bool{"ccparams": true, "erc20params": true, "custom": true, "switch": true, "/cosmos.staking.v1beta1.MsgUpdateParams": true}

func (c *c16State) applyPositive(r *Run, s *Step, o *Outcome) {
	w := r.W
	item := s.A.Str("item")
	kind, a := gparseItem(item)
	m, _, err := gmsg(w, kind, a, w.GovAuthority())
	if err != nil {
		o.Note = "build: " + err.Error()
		return
	}
	c.mirror(func(tw *World) *HaltInfo {
		if tm, _, err := gmsg(tw, kind, a, tw.GovAuthority()); err == nil {
			return tw.PassProposal("positive:"+kind, []sdk.Msg{tm}, 5*time.Second).Halt
		}
		return nil
	})
	before := w.Dump()
	gr := w.PassProposal("positive:"+kind, []sdk.Msg{m}, 5*time.Second)
	o.Halt = gr.Halt
	if gr.Halt != nil {
		return
	}
	o.Note = gr.Status + " " + gr.Note
	url := typeOfItem(item)
	// effect: a key outside the stores that every block / every proposal touches changed
	effect := 0
	for _, e := range Diff(before, w.Dump()) {
		switch e.Store {
		case "acc", "bank", "distribution", "slashing", "mint", "feemarket", "staking":
			if !(e.Store == "staking" && len(e.Key) > 0 && e.Key[0] == 0x51) && !(e.Store == "bank" && kind == "spend" || kind == "regcoin") {
				continue
			}
		case "gov":
			if len(e.Key) == 0 || (e.Key[0] != 0x92 && e.Key[0] != 0x93) {
				continue
			}
		}
		effect++
	}
	r.Nontrivial = true
	r.Probe(fmt.Sprintf("positive-%s:%s", strings.ToLower(gr.Status), url))
	if gr.Status == "PASSED" && effect > 0 {
		r.Probe("positive-effect:" + url)
	}
	if c16AlwaysValid[kind] && (gr.Status != "PASSED" || effect == 0) {
		c.bad("positive-control", "proposal/"+shortType(url), "%s with the governance authority inside a passed proposal: status %s (%s), %d effect keys", url, gr.Status, gr.Note, effect)
	}
}

func (c *c16State) check(r *Run, s *Step, o *Outcome) []Violation {
	vs := c.vs
	c.vs = nil
	return vs
}

func (c *c16State) finish(r *Run) []Violation { return nil }

var _ = codectypes.NewAnyWithValue
