package sim

import (
	"crypto/sha256"
	"encoding/hex"
	"encoding/json"
	"fmt"
	"math/rand/v2"
	"os"
	"sort"
	"strings"
)

// Violation of a property's oracle.
type Violation struct {
	Invariant string `json:"invariant"`
	Site      string `json:"site"`
	Step      int    `json:"step"`
	Message   string `json:"message"`
}

func (v Violation) ID() string { return v.Invariant + "@" + v.Site }

// TxOutcome records what happened to one delivered tx.
type TxOutcome struct {
	Tx    *Tx
	Res   *TxResult // nil when the tx could not be built (harmless no-op)
	Built bool
	Note  string
	Bytes []byte
}

// Outcome of applying one step.
type Outcome struct {
	Txs   []TxOutcome
	Note  string
	Halt  *HaltInfo
	Extra map[string]string
}

// Engine is a simulated environment around the app together with the oracles of the
// properties it serves.
type Engine interface {
	Name() string
	// GenConfig draws the run configuration (swarm style) for the property.
	GenConfig(rng *rand.Rand, prop string, tier string) RunConfig
	// Init builds the world and the model state for r.Cfg.
	Init(r *Run) error
	// Gen draws the next step.
	Gen(r *Run) Step
	// Apply executes a concrete step (generation-independent).
	Apply(r *Run, s *Step) *Outcome
	// Check evaluates the oracles of r.Prop after a step.
	Check(r *Run, s *Step, o *Outcome) []Violation
	// Finish runs end-of-run checks (bounded liveness after faults stop).
	Finish(r *Run) []Violation
}

// RunConfig is the complete, replayable configuration of a run.
type RunConfig struct {
	World   Config            `json:"world"`
	Steps   int               `json:"steps"`
	Faults  []string          `json:"faults_enabled"`
	Weights map[string]int    `json:"weights,omitempty"`
	Knobs   map[string]string `json:"knobs,omitempty"`
}

func (c RunConfig) FaultOn(name string) bool {
	for _, f := range c.Faults {
		if f == name {
			return true
		}
	}
	return false
}

func (c RunConfig) Knob(k string) string { return c.Knobs[k] }
func (c RunConfig) KnobInt(k string, def int) int {
	if v, ok := c.Knobs[k]; ok {
		var n int
		fmt.Sscan(v, &n)
		return n
	}
	return def
}

// Run is one simulated execution.
type Run struct {
	Prop    string
	Seed    uint64
	Cfg     RunConfig
	Rng     *rand.Rand
	Eng     Engine
	W       *World
	Steps   []Step
	StepNo  int
	Replay  bool // executing recorded steps (no generation)
	Verbose bool

	Probes     map[string]int
	FaultsHit  map[string]int
	States     map[string]struct{}
	ShapeHash  []byte
	Nontrivial bool
	SimTimeMs  int64
	ExtBlocks  int64
	Foreign    string // reason the run was aborted for a cause outside the property

	St interface{} // engine state
}

func NewRng(seed uint64) *rand.Rand { return rand.New(rand.NewPCG(seed, seed^0x9e3779b97f4a7c15)) }

func (r *Run) Probe(name string) { r.Probes[name]++ }
func (r *Run) Fault(name string) { r.FaultsHit[name]++ }
func (r *Run) State(s string)    { r.States[s] = struct{}{} }
func (r *Run) Pct(p int) bool    { return r.Rng.IntN(100) < p }
func (r *Run) Pick(n int) int    { return r.Rng.IntN(n) }
func (r *Run) Between(a, b int) int {
	if b <= a {
		return a
	}
	return a + r.Rng.IntN(b-a+1)
}

// Weighted draws a key of the weight map (keys sorted, so the draw is deterministic).
func Weighted(rng *rand.Rand, w map[string]int) string {
	var ks []string
	tot := 0
	for k, v := range w {
		if v > 0 {
			ks = append(ks, k)
			tot += v
		}
	}
	sort.Strings(ks)
	if tot == 0 {
		return ""
	}
	n := rng.IntN(tot)
	for _, k := range ks {
		n -= w[k]
		if n < 0 {
			return k
		}
	}
	return ks[len(ks)-1]
}

func newRun(eng Engine, prop string, seed uint64, cfg RunConfig) *Run {
	return &Run{
		Prop: prop, Seed: seed, Cfg: cfg, Eng: eng, Rng: NewRng(seed ^ 0xabcdef),
		Probes: map[string]int{}, FaultsHit: map[string]int{}, States: map[string]struct{}{},
	}
}

// RunResult summarises a finished run.
type RunResult struct {
	Seed       uint64         `json:"seed"`
	Steps      int            `json:"steps"`
	Probes     map[string]int `json:"probes"`
	Faults     map[string]int `json:"faults"`
	States     []string       `json:"states,omitempty"`
	Shape      string         `json:"shape"`
	Nontrivial bool           `json:"nontrivial"`
	SimTimeMs  int64          `json:"sim_ms"`
	ExtBlocks  int64          `json:"ext_blocks"`
	Foreign    string         `json:"foreign,omitempty"`
	Violations []Violation    `json:"violations,omitempty"`
	Known      []Violation    `json:"known,omitempty"` // violations listed in known_findings.jsonl (the run went on)
	AppHash    string         `json:"app_hash,omitempty"`
	Sample     []string       `json:"sample,omitempty"`
	ReplayPath string         `json:"replay,omitempty"`
}

// Replay file (self-contained).
type ReplayFile struct {
	Property  string     `json:"property"`
	Engine    string     `json:"engine"`
	Seed      uint64     `json:"seed"`
	Config    RunConfig  `json:"config"`
	Steps     []Step     `json:"steps"`
	Violation *Violation `json:"violation,omitempty"`
	Minimised bool       `json:"minimised"`
}

func (r *Run) step(s Step) (vs []Violation) {
	r.StepNo = len(r.Steps)
	r.Steps = append(r.Steps, s)
	sp := &r.Steps[len(r.Steps)-1]
	o := r.Eng.Apply(r, sp)
	h := sha256.New()
	h.Write(r.ShapeHash)
	h.Write([]byte(sp.Shape()))
	if o != nil {
		for _, t := range o.Txs {
			if t.Res.OK() {
				h.Write([]byte{1})
			} else {
				h.Write([]byte{0})
			}
		}
	}
	r.ShapeHash = h.Sum(nil)
	if r.Verbose {
		fmt.Println(TraceLines([]Step{*sp}, 1)[0])
		if o != nil {
			if o.Note != "" {
				fmt.Println("      note:", o.Note)
			}
			for _, t := range o.Txs {
				fmt.Printf("      -> %s %s %s %s\n", t.Tx.S, t.Tx.K, t.Res.String(), t.Note)
			}
		}
	}
	vs = r.Eng.Check(r, sp, o)
	for i := range vs {
		vs[i].Step = r.StepNo
	}
	return vs
}

// Execute generates and runs a whole run for seed.
func Execute(eng Engine, prop string, seed uint64, tier string) (*Run, *RunResult) {
	cfg := eng.GenConfig(NewRng(seed), prop, tier)
	r := newRun(eng, prop, seed, cfg)
	r.Verbose = os.Getenv("FXSIM_VERBOSE") != ""
	res := &RunResult{Seed: seed}
	if err := eng.Init(r); err != nil {
		r.Foreign = "init: " + err.Error()
		return r, r.finish(res, nil)
	}
	var vs []Violation
	known := loadKnown()
	seenKnown := map[string]bool{}
	for len(r.Steps) < cfg.Steps && r.Foreign == "" {
		s := eng.Gen(r)
		vs = r.step(s)
		// recorded findings do not end the run: exploration continues behind them
		var unknown []Violation
		for _, v := range vs {
			if isKnown(known, prop, v) != nil {
				if !seenKnown[v.ID()] {
					seenKnown[v.ID()] = true
					res.Known = append(res.Known, v)
				}
			} else {
				unknown = append(unknown, v)
			}
		}
		vs = unknown
		if len(vs) > 0 {
			break
		}
	}
	if len(vs) == 0 && r.Foreign == "" {
		vs = eng.Finish(r)
		for i := range vs {
			vs[i].Step = len(r.Steps)
		}
	}
	return r, r.finish(res, vs)
}

// ExecuteReplay re-executes recorded steps literally against a fresh world.
func ExecuteReplay(eng Engine, rf *ReplayFile) (*Run, *RunResult) {
	r := newRun(eng, rf.Property, rf.Seed, rf.Config)
	r.Replay = true
	r.Verbose = os.Getenv("FXSIM_VERBOSE") != ""
	res := &RunResult{Seed: rf.Seed}
	if err := eng.Init(r); err != nil {
		r.Foreign = "init: " + err.Error()
		return r, r.finish(res, nil)
	}
	var vs []Violation
	known := loadKnown()
	for _, s := range rf.Steps {
		vs = r.step(s)
		// as in Execute, recorded findings do not end the run - unless the replay is of that finding
		var keep []Violation
		for _, v := range vs {
			if isKnown(known, rf.Property, v) != nil && (rf.Violation == nil || rf.Violation.ID() != v.ID()) {
				continue
			}
			keep = append(keep, v)
		}
		vs = keep
		if len(vs) > 0 || r.Foreign != "" {
			break
		}
	}
	if len(vs) == 0 && r.Foreign == "" {
		vs = eng.Finish(r)
		for i := range vs {
			vs[i].Step = len(r.Steps)
		}
	}
	return r, r.finish(res, vs)
}

func (r *Run) finish(res *RunResult, vs []Violation) *RunResult {
	res.Steps = len(r.Steps)
	res.Probes = r.Probes
	res.Faults = r.FaultsHit
	for s := range r.States {
		res.States = append(res.States, s)
	}
	sort.Strings(res.States)
	res.Shape = hex.EncodeToString(r.ShapeHash)
	if len(res.Shape) > 16 {
		res.Shape = res.Shape[:16]
	}
	res.Nontrivial = r.Nontrivial
	res.SimTimeMs = r.SimTimeMs
	res.ExtBlocks = r.ExtBlocks
	res.Foreign = r.Foreign
	res.Violations = vs
	if r.W != nil && r.W.LastResp != nil {
		res.AppHash = hex.EncodeToString(r.W.LastResp.AppHash)
	}
	return res
}

func (r *Run) ReplayFile(v *Violation) *ReplayFile {
	return &ReplayFile{Property: r.Prop, Engine: r.Eng.Name(), Seed: r.Seed, Config: r.Cfg, Steps: r.Steps, Violation: v}
}

func WriteJSON(path string, v interface{}) error {
	bz, err := json.MarshalIndent(v, "", " ")
	if err != nil {
		return err
	}
	return os.WriteFile(path, bz, 0o644)
}

func ReadReplay(path string) (*ReplayFile, error) {
	bz, err := os.ReadFile(path)
	if err != nil {
		return nil, err
	}
	var rf ReplayFile
	if err := json.Unmarshal(bz, &rf); err != nil {
		return nil, err
	}
	return &rf, nil
}

// TraceLines renders steps for humans / evidence samples.
func TraceLines(steps []Step, max int) []string {
	var out []string
	for i, s := range steps {
		if len(out) >= max {
			out = append(out, fmt.Sprintf("… (%d more steps)", len(steps)-i))
			break
		}
		var sb strings.Builder
		fmt.Fprintf(&sb, "%d %s", i, s.Kind)
		if s.N > 1 {
			fmt.Fprintf(&sb, " x%d", s.N)
		}
		if s.DtMs > 0 {
			fmt.Fprintf(&sb, " dt=%dms", s.DtMs)
		}
		if len(s.A) > 0 {
			sb.WriteString(" " + s.A.String())
		}
		for _, t := range s.Txs {
			fmt.Fprintf(&sb, " [%s %s %s]", t.S, t.K, t.A.String())
		}
		out = append(out, sb.String())
	}
	return out
}
