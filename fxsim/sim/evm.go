package sim

import (
	"bytes"
	"encoding/hex"
	"encoding/json"
	"fmt"
	"math/big"
	"math/rand/v2"
	"strings"
	"time"

	sdk "github.com/cosmos/cosmos-sdk/types"
	"github.com/ethereum/go-ethereum/common"
	"github.com/ethereum/go-ethereum/core"
	ethtypes "github.com/ethereum/go-ethereum/core/types"
	evmtypes "github.com/evmos/ethermint/x/evm/types"

	erc20types "github.com/functionx/fx-core/v8/x/erc20/types"
)

// ---------------------------------------------------------------------------------------
// EVM engine (C08–C11): generated agent contracts around the two precompiles, on top of a
// bridge world (one external chain) so that the crosschain precompile has something to do.

type DeployedProgram struct {
	Spec     Program
	Addrs    []common.Address
	Deployer string
	OK       bool
}

type EvmSt struct {
	Bogus    bool // the bogus external result fault was injected
	Programs []*DeployedProgram
	Viol     []Violation
	c10      *c10Model
	c11      *c11Model
	c08      *c08Model
}

type EvmEngine struct{ B BridgeEngine }

func (EvmEngine) Name() string { return "evm" }

func est(r *Run) *EvmSt { return bst(r).Evm }

func init() {
	RegisterEngine([]string{"C08", "C09", "C10", "C11"}, func() Engine { return EvmEngine{} })
	gen := "seeded generation of agent-contract programs / EVM histories (one run = one PRNG seed); "
	levels["C09"] = levelInfo{"fault_enumeration", gen + "per program the gas ladder enumerates cut points (every limit is one evaluation of the kept-set oracle on a branch); distinct = hash of (step shapes, tx success); non-trivial = at least one program run in which a precompile call was undone (dead frame / out of gas) or kept inside a nested frame"}
	levels["C10"] = levelInfo{"exploration", gen + "distinct = shape hash; non-trivial = at least one attacker transaction touched a precompile while victims held assets"}
	levels["C11"] = levelInfo{"exploration", gen + "distinct = shape hash; non-trivial = at least one share transfer succeeded"}
	levels["C08"] = levelInfo{"exploration", gen + "distinct = shape hash; non-trivial = at least one conversion (message or precompile) of a registered pair happened"}
	RegisterTx("convert_coin", func(w *World, t *Tx) (*Built, error) {
		k := w.KeyByName(t.S)
		return &Built{Msgs: []sdk.Msg{&erc20types.MsgConvertCoin{Coin: sdk.NewCoin(t.A.Str("denom"), t.A.SdkInt("amount")), Receiver: t.A.Str("receiver"), Sender: k.Bech()}}}, nil
	})
	RegisterTx("convert_erc20", func(w *World, t *Tx) (*Built, error) {
		k := w.KeyByName(t.S)
		tok := t.A.Str("token")
		return &Built{Msgs: []sdk.Msg{&erc20types.MsgConvertERC20{ContractAddress: tok, Amount: t.A.SdkInt("amount"), Receiver: t.A.Str("receiver"), Sender: k.Hex().Hex()}}}, nil
	})
	RegisterTx("convert_denom", func(w *World, t *Tx) (*Built, error) {
		k := w.KeyByName(t.S)
		return &Built{Msgs: []sdk.Msg{&erc20types.MsgConvertDenom{Sender: k.Bech(), Receiver: t.A.Str("receiver"), Coin: sdk.NewCoin(t.A.Str("denom"), t.A.SdkInt("amount")), Target: t.A.Str("target")}}}, nil
	})
}

func (e EvmEngine) GenConfig(rng *rand.Rand, prop string, tier string) RunConfig {
	rc := e.B.GenConfig(rng, "EVM", tier)
	// one external chain (eth), few oracles, quiet bridge
	rc.World.Chains = rc.World.Chains[:1]
	rc.World.Chains[0].Oracles = 1 + rng.IntN(2)
	rc.World.Chains[0].SignedWindow = 10_000
	rc.World.Validators = 2 + rng.IntN(2)
	rc.World.ValStakeFX = nil
	for i := 0; i < rc.World.Validators; i++ {
		rc.World.ValStakeFX = append(rc.World.ValStakeFX, int64(500_000+rng.IntN(1_000_000)))
	}
	rc.World.Users = 4
	rc.Faults = nil
	rc.Steps = 25 + rng.IntN(30)
	if tier == "thorough" {
		rc.Steps = 40 + rng.IntN(80)
	}
	rc.Weights = map[string]int{}
	if prop == "C10" {
		rc.World.SlashWindow = int64(10 + rng.IntN(20)) // short window: a validator that misses blocks is slashed within a run
		rc.World.MinSignedPct = 50
	}
	if prop == "C11" {
		rc.World.SlashWindow = int64(10 + rng.IntN(30))
		rc.World.MinSignedPct = 50
		rc.World.NoInflation = false
		rc.Steps = 40 + rng.IntN(60)
	}
	return rc
}

func (e EvmEngine) Init(r *Run) error {
	if err := e.B.Init(r); err != nil {
		return err
	}
	st := bst(r)
	st.Evm = &EvmSt{c10: newC10(), c11: newC11(), c08: newC08()}
	if r.Prop == "C08" {
		c := st.Chains[0]
		c.Tokens = append(c.Tokens, &TokenInfo{Symbol: "TST", Base: "tst", Contract: tokenContract(c.Name, "TST"), Kind: "erc20"})
	}
	if !r.Replay {
		if r.Prop == "C08" {
			// the native ERC-20 pair is set up before the deposits are claimed
			var keep []Step
			for _, s0 := range st.Setup {
				keep = append(keep, s0)
				if s0.Kind == "gov" && s0.A.Str("what") == "register_coin" {
					keep = append(keep, e.c08Setup(r)...)
				}
			}
			st.Setup = keep
		}
		// extra setup: the oracles claim the initial deposits, then the users execute them
		c := st.Chains[0]
		var txs []Tx
		for n := 1; n <= 3+len(c.Tokens)*st.NUsers+2; n++ {
			for i := 0; i < c.Cfg.Oracles; i++ {
				txs = append(txs, Tx{K: "claim", S: KeyName("bridger", c.bridgerKey(r.W, i).Idx), A: A("chain", c.Name, "o", i, "n", n)})
			}
		}
		st.Setup = append(st.Setup, Step{Kind: "block", DtMs: 5000, N: 1, Txs: txs})
		for u := 0; u < 1; u++ {
			st.Setup = append(st.Setup, Step{Kind: "block", DtMs: 5000, N: 1, Txs: []Tx{
				{K: "execute_claim_all", S: KeyName("user", u)},
			}})
		}
	}
	return nil
}

// resolver for placeholders used in program specs and direct calls
func (e EvmEngine) resolver(r *Run, addrs []common.Address) Resolver {
	w := r.W
	st := bst(r)
	ch := st.Chains[0]
	return func(s string) string {
		if !strings.HasPrefix(s, "$") {
			return s
		}
		name := s[1:]
		var idx int
		switch {
		case strings.HasPrefix(name, "node"):
			fmt.Sscan(name[4:], &idx)
			if idx < len(addrs) {
				return addrs[idx].Hex()
			}
			return common.Address{}.Hex()
		case strings.HasPrefix(name, "valacc"): // the operator's own account: it always holds the self-delegation
			fmt.Sscan(name[6:], &idx)
			return w.Key("val", idx%len(w.Vals)).Hex().Hex()
		case strings.HasPrefix(name, "valop"):
			fmt.Sscan(name[5:], &idx)
			return w.Key("val", idx%len(w.Vals)).Val().String()
		case strings.HasPrefix(name, "user"):
			fmt.Sscan(name[4:], &idx)
			return w.Key("user", idx).Hex().Hex()
		case strings.HasPrefix(name, "prog"): // $progP.N
			var p, n int
			fmt.Sscanf(name, "prog%d.%d", &p, &n)
			if p < len(st.Evm.Programs) && n < len(st.Evm.Programs[p].Addrs) {
				return st.Evm.Programs[p].Addrs[n].Hex()
			}
			return common.Address{}.Hex()
		case name == "USDT":
			if pair, ok := w.App.Erc20Keeper.GetTokenPair(w.Ctx(), "usdt"); ok {
				return pair.Erc20Address
			}
			return common.Address{}.Hex()
		case name == "TST":
			if pair, ok := w.App.Erc20Keeper.GetTokenPair(w.Ctx(), "tst"); ok {
				return pair.Erc20Address
			}
			return common.Address{}.Hex()
		case name == "WFX":
			if pair, ok := w.App.Erc20Keeper.GetTokenPair(w.Ctx(), "FX"); ok {
				return pair.Erc20Address
			}
			return common.Address{}.Hex()
		case name == "chain":
			return ch.Name
		case strings.HasPrefix(name, "ext"):
			fmt.Sscan(name[3:], &idx)
			return ExtAddrStr(ch.Name, w.Key("extuser", idx).Hex())
		case name == "target":
			return ch.Name
		}
		return s
	}
}

func (e EvmEngine) Apply(r *Run, s *Step) *Outcome {
	st := bst(r)
	if s.Kind != "block" {
		st.Evm.c10.before(r, s)
		st.Evm.c11.before(r, s)
		st.Evm.c08.before(r, s)
	}
	switch s.Kind {
	case "deploy":
		st.Chk.before(r, s)
		o := &Outcome{Extra: map[string]string{}}
		e.applyDeploy(r, s, o)
		return o
	case "run":
		st.Chk.before(r, s)
		o := &Outcome{Extra: map[string]string{}}
		e.applyRun(r, s, o)
		return o
	case "block":
		// expand helper intents
		var txs []Tx
		for _, t := range s.Txs {
			if t.K == "execute_claim_all" {
				v := r.W.ViewChain(r.W.Ctx(), st.Chains[0].Name)
				for _, n := range v.SortedPending() {
					txs = append(txs, Tx{K: "execute_claim", S: t.S, A: A("chain", st.Chains[0].Name, "n", n), Gas: 5_000_000})
				}
				continue
			}
			if t.K == "pcall" {
				t = e.resolvePcall(r, t)
			}
			if t.K == "convert_erc20" && strings.HasPrefix(t.A.Str("token"), "$") {
				a := copyArgs(t.A)
				a["token"] = e.resolver(r, nil)(t.A.Str("token"))
				t.A = a
			}
			txs = append(txs, t)
		}
		s2 := *s
		s2.Txs = txs
		st.Evm.c10.before(r, &s2)
		st.Evm.c11.before(r, &s2)
		st.Evm.c08.before(r, &s2)
		o := e.B.Apply(r, &s2)
		return o
	}
	return e.B.Apply(r, s)
}

// resolvePcall turns a symbolic direct precompile/token call into an eth_call intent.
func (e EvmEngine) resolvePcall(r *Run, t Tx) Tx {
	act := PAct{K: "pre", T: t.A.Str("t"), M: t.A.Str("m")}
	if t.A.Str("args") != "" {
		act.Args = strings.Split(t.A.Str("args"), "|")
	}
	to, data, err := resolveAct(&act, e.resolver(r, nil))
	if err != nil {
		return Tx{K: "invalid", S: t.S, A: A("err", err.Error())}
	}
	val := "0"
	if t.A.Has("value") {
		val = t.A.Str("value")
	}
	a := copyArgs(t.A)
	a["to"], a["data"], a["value"] = to.Hex(), hex.EncodeToString(data), val
	return Tx{K: "eth_call", S: t.S, A: a, Gas: t.Gas}
}

func (e EvmEngine) applyDeploy(r *Run, s *Step, o *Outcome) {
	w := r.W
	st := bst(r)
	var spec Program
	if err := json.Unmarshal([]byte(s.A.Str("prog")), &spec); err != nil || len(spec.Nodes) == 0 || len(spec.Nodes) > 12 {
		o.Note = "bad program"
		st.Evm.Programs = append(st.Evm.Programs, &DeployedProgram{})
		return
	}
	dep := w.KeyByName(s.A.Str("deployer"))
	nonce0 := w.EthNonce(dep.Hex())
	addrs := spec.NodeAddresses(dep.Hex(), nonce0)
	dp := &DeployedProgram{Spec: spec, Addrs: addrs, Deployer: s.A.Str("deployer")}
	st.Evm.Programs = append(st.Evm.Programs, dp)
	res := e.resolver(r, addrs)
	var txs []Tx
	for j := len(spec.Nodes) - 1; j >= 0; j-- {
		code, err := spec.Compile(j, addrs, res)
		if err != nil {
			o.Note = "compile: " + err.Error()
			return
		}
		txs = append(txs, Tx{K: "eth_call", S: s.A.Str("deployer"), A: A("to", "", "data", hex.EncodeToString(InitCode(code)), "value", "0"), Gas: 3_000_000})
	}
	// fund every node: FX for staking, usdt ERC-20 and WFX for bridge operations
	fund := s.A.SdkInt("fund_fx")
	for j := range spec.Nodes {
		if fund.IsPositive() {
			txs = append(txs, Tx{K: "bank_send", S: s.A.Str("deployer"), A: A("to", sdk.AccAddress(addrs[j].Bytes()).String(), "denom", "FX", "amount", fund.String())})
		}
		if u := s.A.SdkInt("fund_usdt"); u.IsPositive() {
			txs = append(txs, Tx{K: "convert_coin", S: s.A.Str("deployer"), A: A("denom", "usdt", "amount", u.String(), "receiver", addrs[j].Hex())})
		}
	}
	br := w.DeliverBlock(txs, 5*time.Second, 0)
	o.Txs, o.Halt = br.Out, br.Halt
	dp.OK = br.Halt == nil
	for i := 0; i < len(spec.Nodes) && i < len(br.Out); i++ {
		if !br.Out[i].Res.OK() {
			dp.OK = false
			o.Note = "deploy failed: " + br.Out[i].Res.String()
		}
	}
	r.SimTimeMs += 5000
}

// branchCtx: a cache context over committed state, positioned as the next block.
func (w *World) branchCtx() sdk.Context {
	ctx := w.Branch()
	h := ctx.BlockHeader()
	h.Height = w.Height + 1
	h.Time = w.Now.Add(5 * time.Second)
	h.ProposerAddress = w.Vals[0].ConsAddr
	return ctx.WithBlockHeader(h)
}

type evmRun struct {
	K     *big.Int
	Err   string // consensus-level error (e.g. intrinsic gas)
	VmErr string
	Dump  Dump
	Gas   uint64
	Logs  int
}

// runOnBranch executes a call through the real EVM + precompiles on a branch and returns
// the kept set (return data bitmap) and the full resulting dump.
func (w *World) runOnBranch(from common.Address, to common.Address, data []byte, gas uint64) *evmRun {
	ctx := w.branchCtx()
	msg := &core.Message{From: from, To: &to, Nonce: w.App.EvmKeeper.GetNonce(ctx, from), Value: big.NewInt(0), GasLimit: gas,
		GasPrice: big.NewInt(0), GasFeeCap: big.NewInt(0), GasTipCap: big.NewInt(0), Data: data, AccessList: ethtypes.AccessList{}}
	out := &evmRun{K: big.NewInt(0)}
	var res *evmtypes.MsgEthereumTxResponse
	var err error
	func() {
		defer func() {
			if rec := recover(); rec != nil {
				err = fmt.Errorf("panic: %v", rec)
			}
		}()
		res, err = w.App.EvmKeeper.ApplyMessage(ctx, msg, evmtypes.NewNoOpTracer(), true)
	}()
	if err != nil {
		out.Err = err.Error()
	} else {
		out.VmErr = res.VmError
		out.Gas = res.GasUsed
		out.Logs = len(res.Logs)
		if res.VmError == "" && len(res.Ret) == 32 {
			out.K = new(big.Int).SetBytes(res.Ret)
		}
	}
	out.Dump = w.DumpCtx(ctx)
	return out
}

func (e EvmEngine) applyRun(r *Run, s *Step, o *Outcome) {
	w := r.W
	st := bst(r)
	pi := s.A.Int("prog")
	if pi >= len(st.Evm.Programs) || !st.Evm.Programs[pi].OK {
		o.Note = "no such program"
		return
	}
	dp := st.Evm.Programs[pi]
	sender := w.KeyByName(s.A.Str("sender"))
	root := dp.Addrs[0]
	mask := MaskAll()
	nb := dp.Spec.NBits()
	full := new(big.Int).Sub(new(big.Int).Lsh(big.NewInt(1), uint(nb)), big.NewInt(1))
	var ladder []uint64
	for _, g := range strings.Split(s.A.Str("ladder"), ",") {
		var n uint64
		if _, err := fmt.Sscan(g, &n); err == nil && n > 0 {
			ladder = append(ladder, n)
		}
	}
	pre := w.Dump()
	for _, g := range ladder {
		run := w.runOnBranch(sender.Hex(), root, mask, g)
		r.Probe("ladder-point")
		if run.Err != "" {
			// rejected before execution: nothing may change
			if d := Diff(pre, run.Dump); len(d) > 0 {
				st.Evm.Viol = append(st.Evm.Viol, viol("all-or-nothing", "rejected-call-changed-state", "gas %d: %s, but state changed: %s", g, firstLine(run.Err), d[0]))
			}
			r.Probe("rejected-before-execution")
			continue
		}
		ref := w.runOnBranch(sender.Hex(), root, MaskHonest(run.K), 25_000_000)
		e.judgeRun(r, dp, g, run, ref, full, pre)
	}
	// the committed run keeps the history moving
	if cg := s.A.U64("commit"); cg > 0 {
		br := w.DeliverBlock([]Tx{{K: "eth_call", S: s.A.Str("sender"), A: A("to", root.Hex(), "data", hex.EncodeToString(mask), "value", "0", "victimcall", s.A.Str("victimcall")), Gas: cg}}, 5*time.Second, 0)
		o.Txs, o.Halt = br.Out, br.Halt
		r.SimTimeMs += 5000
	}
}

func popcount(b *big.Int) int {
	n := 0
	for i := 0; i < b.BitLen(); i++ {
		if b.Bit(i) == 1 {
			n++
		}
	}
	return n
}

func (e EvmEngine) judgeRun(r *Run, dp *DeployedProgram, gas uint64, run, ref *evmRun, full *big.Int, pre Dump) {
	st := bst(r)
	site := func(kind string) string { return kind + "/" + e.siteOf(dp, run.K, ref.K) }
	if run.K.Cmp(full) != 0 {
		r.Nontrivial = true
		if run.K.Sign() > 0 {
			r.Probe("partial-kept-set")
		} else {
			r.Probe("empty-kept-set")
		}
	} else {
		r.Probe("full-kept-set")
	}
	if run.VmErr != "" {
		r.Probe("top-level-failed:" + strings.SplitN(run.VmErr, ":", 2)[0])
		// a failed transaction keeps nothing
		if d := Diff(pre, run.Dump); len(d) > 0 {
			st.Evm.Viol = append(st.Evm.Viol, viol("all-or-nothing", site("failed-tx-left-effects"), "gas %d: top-level call failed (%s) but state changed: %s (+%d more)", gas, run.VmErr, d[0], len(d)-1))
		}
		return
	}
	if ref.Err != "" || ref.VmErr != "" {
		st.Evm.Viol = append(st.Evm.Viol, viol("all-or-nothing", site("kept-call-not-reproducible"), "gas %d: kept set %s, but replaying only the kept calls fails: %s %s", gas, run.K.Text(2), ref.Err, ref.VmErr))
		return
	}
	if ref.K.Cmp(run.K) != 0 {
		st.Evm.Viol = append(st.Evm.Viol, viol("all-or-nothing", site("kept-call-not-reproducible"), "gas %d: the EVM kept calls %s; replaying exactly those keeps %s", gas, run.K.Text(2), ref.K.Text(2)))
		return
	}
	if d := Diff(run.Dump, ref.Dump); len(d) > 0 {
		st.Evm.Viol = append(st.Evm.Viol, viol("all-or-nothing", site("state-differs-from-kept-calls"), "gas %d: kept set %s of %s; state differs from executing exactly the kept calls: %s (+%d more)", gas, run.K.Text(2), full.Text(2), d[0], len(d)-1))
		return
	}
	// a call the EVM kept must have its Cosmos-side effect (the reference above runs the same code, so a
	// precompile that reports success without doing anything would agree with itself): every kept
	// bridgeCall issued one bridge-call id, every kept crossChain to the bridge one pool id, and the
	// precompile accounts hold no value afterwards that they did not hold before
	chain := st.Chains[0].Name
	seq := func(d Dump, name string) uint64 {
		if v, ok := d[chain][string(append([]byte{0x25}, []byte(name)...))]; ok && len(v) == 8 {
			return be64(v)
		}
		return 0
	}
	keptBC, keptCC := uint64(0), uint64(0)
	for _, nd := range dp.Spec.Nodes {
		for _, a := range nd.Acts {
			if a.K == "pre" && a.T == "crosschain" && run.K.Bit(a.Bit) == 1 {
				switch a.M {
				case "bridgeCall":
					keptBC++
				case "crossChain":
					keptCC++
				}
			}
		}
	}
	if got := seq(run.Dump, "bridgeCallId") - seq(pre, "bridgeCallId"); got < keptBC { // executeClaim may issue refund calls of its own: lower bound only
		st.Evm.Viol = append(st.Evm.Viol, viol("all-or-nothing", "kept-call-without-effect/crosschain.bridgeCall", "gas %d: the EVM kept %d bridgeCall calls (kept set %s) but only %d outgoing bridge calls were issued", gas, keptBC, run.K.Text(2), got))
	}
	if got := seq(run.Dump, "lastTxPoolId") - seq(pre, "lastTxPoolId"); got < keptCC { // executeClaim of a deposit with a bridge target issues pool ids too: lower bound only
		st.Evm.Viol = append(st.Evm.Viol, viol("all-or-nothing", "kept-call-without-effect/crosschain.crossChain", "gas %d: the EVM kept %d crossChain calls (kept set %s) but only %d pool transfers were issued", gas, keptCC, run.K.Text(2), got))
	}
	for _, pa := range []common.Address{common.HexToAddress("0x0000000000000000000000000000000000001004"), common.HexToAddress("0x0000000000000000000000000000000000001003")} {
		key := string(append(append([]byte{0x02}, byte(len(pa.Bytes()))), append(pa.Bytes(), []byte("FX")...)...))
		if !bytes.Equal(pre["bank"][key], run.Dump["bank"][key]) {
			st.Evm.Viol = append(st.Evm.Viol, viol("all-or-nothing", "value-stranded-in-precompile-account", "gas %d: FX balance record of precompile account %s changed in a successful transaction (kept set %s)", gas, pa.Hex(), run.K.Text(2)))
		}
	}
}

// siteOf names the precompile methods involved: those dropped (dead) and those kept.
func (e EvmEngine) siteOf(dp *DeployedProgram, k, refK *big.Int) string {
	// programs that both touch a token through the running EVM and convert it through a
	// keeper-level (nested state DB) precompile path form one class (see C08 known finding)
	running, keeperLevel := false, false
	for _, nd := range dp.Spec.Nodes {
		for _, a := range nd.Acts {
			if a.K != "pre" {
				continue
			}
			switch {
			case strings.HasPrefix(a.T, "token:") || a.T == "wfx":
				running = true
			case a.T == "crosschain" && (a.M == "crossChain" || a.M == "increaseBridgeFee"):
				running = true
			case a.T == "crosschain" && (a.M == "bridgeCall" || a.M == "executeClaim" || a.M == "cancelSendToExternal"):
				keeperLevel = true
			}
		}
	}
	if running && keeperLevel {
		return "running-evm-token-access+keeper-level-conversion"
	}
	dead := map[string]bool{}
	for _, nd := range dp.Spec.Nodes {
		for _, a := range nd.Acts {
			if a.K == "pre" && k.Bit(a.Bit) == 0 {
				dead[a.T+"."+a.M+"/"+callName(a.Call)] = true
			}
		}
	}
	ks := sortedKeys(dead)
	if len(ks) > 3 {
		ks = ks[:3]
	}
	if len(ks) == 0 {
		return "all-kept"
	}
	return "dead:" + strings.Join(ks, "+")
}

func callName(c string) string {
	if c == "" {
		return "call"
	}
	return c
}

func (e EvmEngine) Check(r *Run, s *Step, o *Outcome) []Violation {
	st := bst(r)
	if o != nil && o.Halt != nil {
		r.Foreign = "halt:" + o.Halt.Site
		return nil
	}
	// keep the shared bridge tracking alive (views)
	ctx := r.W.Ctx()
	st.Chk.post = map[string]*ChainView{}
	for _, ch := range st.Chains {
		st.Chk.post[ch.Name] = r.W.ViewChain(ctx, ch.Name)
	}
	if o == nil {
		o = &Outcome{}
	}
	var vs []Violation
	switch r.Prop {
	case "C09":
		vs = st.Evm.Viol
		st.Evm.Viol = nil
	case "C10":
		vs = st.Evm.c10.check(r, s, o)
	case "C11":
		vs = st.Evm.c11.check(r, s, o)
	case "C08":
		vs = st.Evm.c08.check(r, s, o)
	}
	return vs
}

func (e EvmEngine) Finish(r *Run) []Violation {
	switch r.Prop {
	case "C11":
		return bst(r).Evm.c11.finish(r)
	}
	return nil
}
