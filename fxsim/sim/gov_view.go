package sim

import (
	"fmt"
	"sort"
	"strings"
	"time"

	"cosmossdk.io/collections"
	sdkmath "cosmossdk.io/math"
	sdk "github.com/cosmos/cosmos-sdk/types"
	authtypes "github.com/cosmos/cosmos-sdk/x/auth/types"
	distrtypes "github.com/cosmos/cosmos-sdk/x/distribution/types"
	govv1 "github.com/cosmos/cosmos-sdk/x/gov/types/v1"

	fxtypes "github.com/functionx/fx-core/v8/types"
	fxgovtypes "github.com/functionx/fx-core/v8/x/gov/types"
)

const gSpendURL = "/cosmos.distribution.v1beta1.MsgCommunityPoolSpend"

// gProp is the stored state of one proposal.
type gProp struct {
	ID        uint64
	Status    govv1.ProposalStatus
	Proposer  string
	Expedited bool
	Title     string
	Failed    string   // failure reason recorded by the executor
	Types     []string // type urls of its messages
	Msgs      []sdk.Msg
	Total     sdkmath.Int // FX
	DepEnd    time.Time
	VStart    *time.Time
	VEnd      *time.Time
	Deposits  map[string]sdkmath.Int // bech32 -> FX
	Votes     map[string]govv1.WeightedVoteOptions
}

func (p *gProp) Open() bool {
	return p.Status == govv1.StatusDepositPeriod || p.Status == govv1.StatusVotingPeriod
}

func (p *gProp) Type() string {
	if len(p.Types) == 0 {
		return ""
	}
	return p.Types[0]
}

// SpendTotal is the requested FX amount if all messages are community-pool spends.
func (p *gProp) SpendTotal() (sdkmath.Int, bool) {
	if len(p.Msgs) == 0 {
		return sdkmath.ZeroInt(), false
	}
	tot := sdkmath.ZeroInt()
	for _, m := range p.Msgs {
		sp, ok := m.(*distrtypes.MsgCommunityPoolSpend)
		if !ok {
			return sdkmath.ZeroInt(), false
		}
		tot = tot.Add(sp.Amount.AmountOf(fxtypes.DefaultDenom))
	}
	return tot, true
}

type govView struct {
	Now    time.Time
	Params govv1.Params
	Custom map[string]fxgovtypes.CustomParams
	Props  map[uint64]*gProp
	IDs    []uint64
	GovBal sdk.Coins
	Supply sdkmath.Int
	Pool   sdkmath.Int // community pool, FX truncated
}

func readGovView(w *World, ctx sdk.Context) *govView {
	k := w.App.GovKeeper
	v := &govView{Now: w.Now, Custom: map[string]fxgovtypes.CustomParams{}, Props: map[uint64]*gProp{}}
	v.Params, _ = k.Params.Get(ctx)
	_ = k.CustomerParams.Walk(ctx, nil, func(url string, cp fxgovtypes.CustomParams) (bool, error) {
		v.Custom[url] = cp
		return false, nil
	})
	_ = k.Proposals.Walk(ctx, nil, func(id uint64, p govv1.Proposal) (bool, error) {
		gp := &gProp{ID: id, Status: p.Status, Proposer: p.Proposer, Expedited: p.Expedited, Title: p.Title, Failed: p.FailedReason,
			Total: sdk.NewCoins(p.TotalDeposit...).AmountOf(fxtypes.DefaultDenom), VStart: p.VotingStartTime, VEnd: p.VotingEndTime,
			Deposits: map[string]sdkmath.Int{}, Votes: map[string]govv1.WeightedVoteOptions{}}
		if p.DepositEndTime != nil {
			gp.DepEnd = *p.DepositEndTime
		}
		for _, a := range p.Messages {
			gp.Types = append(gp.Types, a.TypeUrl)
		}
		gp.Msgs, _ = p.GetMsgs()
		v.Props[id] = gp
		v.IDs = append(v.IDs, id)
		return false, nil
	})
	_ = k.Deposits.Walk(ctx, nil, func(key collections.Pair[uint64, sdk.AccAddress], d govv1.Deposit) (bool, error) {
		gp := v.Props[key.K1()]
		if gp == nil { // deposit without proposal: keep it visible under a phantom entry
			gp = &gProp{ID: key.K1(), Status: govv1.StatusNil, Total: sdkmath.ZeroInt(), Deposits: map[string]sdkmath.Int{}, Votes: map[string]govv1.WeightedVoteOptions{}}
			v.Props[key.K1()] = gp
			v.IDs = append(v.IDs, key.K1())
		}
		gp.Deposits[key.K2().String()] = sdk.NewCoins(d.Amount...).AmountOf(fxtypes.DefaultDenom)
		return false, nil
	})
	_ = k.Votes.Walk(ctx, nil, func(key collections.Pair[uint64, sdk.AccAddress], vt govv1.Vote) (bool, error) {
		if gp := v.Props[key.K1()]; gp != nil {
			gp.Votes[key.K2().String()] = vt.Options
		}
		return false, nil
	})
	sort.Slice(v.IDs, func(i, j int) bool { return v.IDs[i] < v.IDs[j] })
	v.GovBal = w.App.BankKeeper.GetAllBalances(ctx, authtypes.NewModuleAddress("gov"))
	v.Supply = w.App.BankKeeper.GetSupply(ctx, fxtypes.DefaultDenom).Amount
	if fp, err := w.App.DistrKeeper.FeePool.Get(ctx); err == nil {
		v.Pool = fp.CommunityPool.AmountOf(fxtypes.DefaultDenom).TruncateInt()
	} else {
		v.Pool = sdkmath.ZeroInt()
	}
	return v
}

func (v *govView) open(status govv1.ProposalStatus) []*gProp {
	var out []*gProp
	for _, id := range v.IDs {
		if p := v.Props[id]; p.Status == status {
			out = append(out, p)
		}
	}
	return out
}

// gRequired is the deposit a proposal needs to enter voting according to the property:
// the (expedited) minimum, or for pure community-pool spends the configured share of the
// requested amount when that is larger. Returned as a decimal (the share may be fractional).
func gRequired(p *gProp, params govv1.Params, custom map[string]fxgovtypes.CustomParams) sdkmath.LegacyDec {
	min := sdk.NewCoins(params.MinDeposit...).AmountOf(fxtypes.DefaultDenom)
	if p.Expedited {
		min = sdk.NewCoins(params.ExpeditedMinDeposit...).AmountOf(fxtypes.DefaultDenom)
	}
	req := sdkmath.LegacyNewDecFromInt(min)
	if tot, ok := p.SpendTotal(); ok {
		if cp, ok := custom[gSpendURL]; ok {
			if ratio, err := sdkmath.LegacyNewDecFromStr(cp.DepositRatio); err == nil && ratio.IsPositive() {
				if share := ratio.MulInt(tot); share.GT(req) {
					req = share
				}
			}
		}
	}
	return req
}

// ---------------------------------------------------------------------------------------
// generator of governance / staking traffic (shared by C14, C15, C16)

var gTypedURLs = []string{gSpendURL, "/fx.gravity.crosschain.v1.MsgUpdateParams", "/fx.erc20.v1.MsgUpdateParams", "/fx.gov.v1.MsgUpdateCustomParams", "/fx.gov.v1.MsgUpdateStore", "/cosmos.gov.v1.MsgExecLegacyContent", ""}

func gActors(r *Run) []string {
	st := gst(r)
	var out []string
	for i := 0; i < st.NUser; i++ {
		out = append(out, KeyName("user", i))
	}
	for i := 0; i < st.NVal; i++ {
		out = append(out, KeyName("val", i))
	}
	if c := st.C14; c != nil { // sources and (future) targets take part in governance at every stage
		for k := 0; k < 2; k++ {
			out = append(out, c.legNames(r, true)...)
		}
		out = append(out, c.funded...)
		for _, p := range c.pairs {
			out = append(out, p.To)
		}
	}
	return out
}

func gdt(r *Run) int64 { return int64(1000 + r.Rng.IntN(9000)) }

func genGovTraffic(r *Run, kind string) (Step, bool) {
	st := gst(r)
	w := r.W
	rng := r.Rng
	v := readGovView(w, w.Ctx())
	blk := func(txs ...Tx) Step { return Step{Kind: "block", DtMs: gdt(r), N: 1, Txs: txs} }
	actors := gActors(r)
	pickActor := func() string { return actors[rng.IntN(len(actors))] }
	minDep := sdk.NewCoins(v.Params.MinDeposit...).AmountOf(fxtypes.DefaultDenom)
	switch kind {
	case "submit", "custom":
		st.Uniq++
		u := st.Uniq
		typ := []string{"text", "ccparams", "erc20params", "spend", "spend", "multispend", "multicc", "mixed", "custom", "store", "legacytext"}[rng.IntN(11)]
		if kind == "custom" {
			typ = "custom"
		}
		if r.Cfg.Knob("c07_engine") == "gov" && rng.IntN(5) == 0 {
			// only as a surrogate workload of C07 (these proposals break what C15's own oracles assume): the
			// gov account pays out money it holds as deposits, and a proposal asks the crisis module to verify
			// the gov invariant - that handler panics by design when the invariant is broken
			typ = []string{"govsend", "verifyinv", "verifyinv"}[rng.IntN(3)]
		}
		var spec string
		need := sdkmath.LegacyNewDecFromInt(minDep)
		switch typ {
		case "govsend":
			bal := w.App.BankKeeper.GetBalance(w.Ctx(), authtypes.NewModuleAddress("gov"), fxtypes.DefaultDenom).Amount
			amt := bal.QuoRaw(int64(1 + rng.IntN(3)))
			if !amt.IsPositive() {
				amt = sdkmath.NewInt(1)
			}
			spec = gitem("send", "to", KeyName("rcpt", u*4), "amount", amt.String())
			r.Probe("c07-gov-account-pays-out")
		case "verifyinv":
			spec = gitem("verifyinv", "module", "gov", "route", "module-account")
			r.Probe("c07-verify-invariant-proposal")
		case "text":
			spec = "text"
		case "legacytext":
			spec = gitem("legacytext", "title", fmt.Sprintf("legacy-%d", u))
		case "ccparams":
			spec = gitem("ccparams", "chain", "eth", "window", 1000+u)
		case "erc20params":
			spec = gitem("erc20params", "timeout", 100_000+u)
		case "spend", "multispend":
			n := 1
			if typ == "multispend" {
				n = 2 + rng.IntN(2)
			}
			// amounts around the point where ratio*amount crosses the default minimum, some beyond the pool
			ratio := sdkmath.LegacyNewDecWithPrec(1, 1)
			if cp, ok := v.Custom[gSpendURL]; ok {
				if d, err := sdkmath.LegacyNewDecFromStr(cp.DepositRatio); err == nil && d.IsPositive() {
					ratio = d
				}
			}
			cross := sdkmath.LegacyNewDecFromInt(minDep).Quo(ratio).TruncateInt()
			var items []string
			for j := 0; j < n; j++ {
				var amt sdkmath.Int
				switch rng.IntN(6) {
				case 0:
					amt = cross.QuoRaw(int64(n)).SubRaw(1)
				case 1:
					amt = cross.QuoRaw(int64(n)).AddRaw(1)
				case 2:
					amt = cross.MulRaw(int64(2 + rng.IntN(8)))
				case 3:
					amt = v.Pool.AddRaw(1).Add(FX(int64(rng.IntN(1000)))) // more than the pool holds
				default:
					amt = FX(int64(1 + rng.IntN(5000)))
				}
				if !amt.IsPositive() {
					amt = sdkmath.NewInt(1)
				}
				items = append(items, gitem("spend", "to", KeyName("rcpt", u*4+j), "amount", amt.String()))
			}
			spec = strings.Join(items, ";")
		case "multicc":
			spec = gitem("ccparams", "chain", "eth", "window", 1000+u) + ";" + gitem("ccparams", "chain", "bsc", "window", 1000+u)
		case "mixed":
			spec = []string{
				gitem("spend", "to", KeyName("rcpt", u*4), "amount", FX(1).String()) + ";" + gitem("ccparams", "chain", "eth", "window", 1000+u),
				gitem("ccparams", "chain", "eth", "window", 1000+u) + ";" + gitem("erc20params", "timeout", 100_000+u),
				gitem("erc20params", "timeout", 100_000+u) + ";" + gitem("custom", "url", gSpendURL, "ratio", "0.2", "period", 700, "quorum", "0.5"),
			}[rng.IntN(3)]
		case "custom":
			url := gTypedURLs[rng.IntN(len(gTypedURLs)-1)]
			if _, ok := v.Custom[url]; ok && rng.IntN(3) == 0 {
				spec = gitem("custom", "url", url, "remove", 1)
			} else {
				ratio := []string{"0", "0.05", "0.1", "0.25", "0.5", "1"}[rng.IntN(6)]
				quorum := []string{"0.05", "0.2", "0.334", "0.5", "0.67", "0.9", "1"}[rng.IntN(7)]
				if rng.IntN(100) < 15 {
					// malformed values: must be refused, whatever else the message carries
					bad := []string{"EMPTY", "abc", "1.5", "-0.1", "SPACE", "EMPTY"}[rng.IntN(6)]
					if rng.IntN(2) == 0 {
						quorum = bad
					} else {
						ratio = bad
					}
				}
				spec = gitem("custom", "url", url, "ratio", ratio, "period", 200+rng.IntN(5000), "quorum", quorum)
			}
		case "store":
			// scratch keys in the migrate store space; old value read from state (fresh) or made stale
			key := fmt.Sprintf("f0%02x", rng.IntN(3))
			old := gstoreGet(w, "migrate", key)
			if rng.IntN(3) == 0 {
				old = "dead"
			}
			spec = gitem("store", "space", "migrate", "key", key, "old", old, "new", fmt.Sprintf("%04x", u))
			if rng.IntN(2) == 0 { // second message of the same type on another key, fresh or stale: all or nothing
				key2 := fmt.Sprintf("f1%02x", rng.IntN(3))
				old2 := gstoreGet(w, "migrate", key2)
				if rng.IntN(2) == 0 {
					old2 = "beef"
				}
				spec += ";" + gitem("store", "space", "migrate", "key", key2, "old", old2, "new", fmt.Sprintf("%04x", u))
			}
		}
		// required deposit for the generator's boundary choices (property semantics)
		msgs, err := gspecMsgs(w, spec, w.GovAuthority())
		if err == nil {
			gp := &gProp{Msgs: msgs}
			need = gRequired(gp, v.Params, v.Custom)
		}
		needI := need.Ceil().TruncateInt()
		var dep sdkmath.Int
		switch rng.IntN(8) {
		case 0:
			dep = sdkmath.ZeroInt()
		case 1:
			dep = minDep.QuoRaw(2)
		case 2:
			dep = minDep.SubRaw(1)
		case 3:
			dep = minDep
		case 4:
			dep = needI.SubRaw(1)
		default:
			dep = needI
		}
		if kind == "custom" && rng.IntN(4) != 0 {
			dep = needI
		}
		t := Tx{K: "g_submit", S: pickActor(), A: A("spec", spec, "deposit", dep.String(), "title", fmt.Sprintf("p%d", u))}
		if typ == "mixed" {
			t.A["mixed"] = "1"
		}
		if rng.IntN(12) == 0 && typ == "text" {
			t.A["expedited"] = "1"
		}
		return blk(t), true
	case "deposit":
		var cands []*gProp
		cands = append(cands, v.open(govv1.StatusDepositPeriod)...)
		if len(cands) == 0 || rng.IntN(5) == 0 {
			cands = append(cands, v.open(govv1.StatusVotingPeriod)...)
		}
		if len(cands) == 0 {
			return Step{}, false
		}
		var txs []Tx
		for n := 1 + rng.IntN(2); n > 0; n-- {
			p := cands[rng.IntN(len(cands))]
			need := gRequired(p, v.Params, v.Custom).Ceil().TruncateInt()
			remaining := need.Sub(p.Total)
			remDefault := minDep.Sub(p.Total)
			var amt sdkmath.Int
			switch rng.IntN(7) {
			case 0:
				amt = remaining.SubRaw(1)
			case 1, 2:
				amt = remaining
			case 3:
				amt = remDefault
			case 4:
				amt = remDefault.SubRaw(1)
			case 5:
				amt = sdkmath.NewInt(1)
			default:
				amt = FX(int64(1 + rng.IntN(300)))
			}
			if !amt.IsPositive() {
				amt = FX(int64(1 + rng.IntN(50)))
			}
			da := A("id", p.ID, "amount", amt.String())
			if rng.IntN(100) < 25 {
				da["legacy"] = "1"
			}
			txs = append(txs, Tx{K: "g_deposit", S: pickActor(), A: da})
		}
		return blk(txs...), true
	case "vote":
		cands := v.open(govv1.StatusVotingPeriod)
		if len(cands) == 0 {
			return Step{}, false
		}
		p := cands[rng.IntN(len(cands))]
		var txs []Tx
		seen := map[string]bool{}
		for n := 1 + rng.IntN(4); n > 0; n-- {
			voter := pickActor()
			if rng.IntN(2) == 0 {
				voter = KeyName("val", rng.IntN(st.NVal))
			}
			if seen[voter] {
				continue
			}
			seen[voter] = true
			opts := []string{"1", "1", "1", "1", "2", "3", "4", "1:0.7|3:0.3", "1:0.5|2:0.5", "1:0.4|3:0.35|4:0.25"}[rng.IntN(10)]
			va := A("id", p.ID, "opts", opts)
			if rng.IntN(100) < 25 {
				va["legacy"] = "1"
			}
			txs = append(txs, Tx{K: "g_vote", S: voter, A: va})
		}
		return blk(txs...), true
	case "time":
		// small advance, or a jump to just before / exactly / just after the next deadline
		var deadlines []time.Time
		for _, id := range v.IDs {
			p := v.Props[id]
			if p.Status == govv1.StatusDepositPeriod {
				deadlines = append(deadlines, p.DepEnd)
			}
			if p.Status == govv1.StatusVotingPeriod && p.VEnd != nil {
				deadlines = append(deadlines, *p.VEnd)
			}
		}
		sort.Slice(deadlines, func(i, j int) bool { return deadlines[i].Before(deadlines[j]) })
		if len(deadlines) > 0 && rng.IntN(3) != 0 {
			d := deadlines[0]
			if len(deadlines) > 1 && rng.IntN(4) == 0 {
				d = deadlines[rng.IntN(len(deadlines))]
			}
			off := []int64{-1000, 0, 1, 1000, 60_000}[rng.IntN(5)]
			dt := d.Sub(w.Now).Milliseconds() + off
			if dt <= 0 {
				dt = 1000
			}
			return Step{Kind: "block", DtMs: dt, N: 1 + rng.IntN(2)}, true
		}
		return Step{Kind: "block", DtMs: int64(1000 + rng.IntN(400_000)), N: 1 + rng.IntN(3)}, true
	case "stake":
		ui := rng.IntN(st.NUser)
		u := KeyName("user", ui)
		if rng.IntN(3) == 0 && st.NVal > 1 {
			// redelegate part of an existing delegation
			dels, _ := w.App.StakingKeeper.GetDelegatorDelegations(w.Ctx(), w.Key("user", ui).Acc(), 10)
			if len(dels) > 0 {
				d := dels[rng.IntN(len(dels))]
				for a := 0; a < st.NVal; a++ {
					if w.Key("val", a).Val().String() == d.ValidatorAddress {
						return blk(Tx{K: "g_redelegate", S: u, A: A("val", a, "dst", (a+1+rng.IntN(st.NVal-1))%st.NVal, "amount", FX(int64(1+rng.IntN(1000))).String())}), true
					}
				}
			}
		}
		return blk(Tx{K: "g_delegate", S: u, A: A("val", rng.IntN(st.NVal), "amount", FX(int64(100+rng.IntN(300_000))).String())}), true
	case "donate":
		return blk(Tx{K: "g_send", S: pickActor(), A: A("to", "mod:gov", "amount", FX(int64(1+rng.IntN(500))).String())}), true
	}
	return Step{}, false
}

func mustHex(s string) []byte {
	b := make([]byte, len(s)/2)
	fmt.Sscanf(s, "%x", &b)
	return b
}

// gstoreGet returns the hex value stored under a hex key of a store ("" if absent).
func gstoreGet(w *World, space, keyHex string) string {
	sk, ok := w.App.GetKVStoreKey()[space]
	if !ok {
		return ""
	}
	return fmt.Sprintf("%x", w.Ctx().KVStore(sk).Get(mustHex(keyHex)))
}
