package sim

import (
	"github.com/ethereum/go-ethereum/common"
	ethcrypto "github.com/ethereum/go-ethereum/crypto"
)

// RecorderRuntime: a payable contract that accepts every call and records it:
// slot 0 += call value, slot 1 = keccak(call data), slot 2 += 1, slot 3 = caller.
func RecorderRuntime() []byte {
	const (
		opKECCAK    = 0x20
		opCALLVALUE = 0x34
	)
	a := NewAsm()
	a.Push(0).Op(opSLOAD).Op(opCALLVALUE, opADD).Push(0).Op(opSSTORE)
	a.Op(opCALLDATASIZE).Push(0).Push(0).Op(opCALLDATACOPY)
	a.Op(opCALLDATASIZE).Push(0).Op(opKECCAK).Push(1).Op(opSSTORE)
	a.Push(2).Op(opSLOAD).Push(1).Op(opADD).Push(2).Op(opSSTORE)
	a.Op(opCALLER).Push(3).Op(opSSTORE)
	a.Op(opSTOP)
	return a.Bytes()
}

// RecorderAddr: the first contract user/0 creates (C03 worlds deploy it during set-up).
func RecorderAddr(w *World) common.Address { return ethcrypto.CreateAddress(w.Key("user", 0).Hex(), 0) }
