package sim

import (
	"github.com/ethereum/go-ethereum/common"
	ethcrypto "github.com/ethereum/go-ethereum/crypto"
)

// RecorderRuntime: a payable contract that accepts every call and records it:
// slot 0 += call value, slot 1 = keccak(call data), slot 2 += 1, slot 3 = caller.
func RecorderRuntime() []byte {
	const (
		opKECCAK    = 0x20
		opCALLVALUE = 0x34
	)
	a := NewAsm()
	a.Push(0).Op(opSLOAD).Op(opCALLVALUE, opADD).Push(0).Op(opSSTORE)
	a.Op(opCALLDATASIZE).Push(0).Push(0).Op(opCALLDATACOPY)
	a.Op(opCALLDATASIZE).Push(0).Op(opKECCAK).Push(1).Op(opSSTORE)
	a.Push(2).Op(opSLOAD).Push(1).Op(opADD).Push(2).Op(opSSTORE)
	a.Op(opCALLER).Push(3).Op(opSSTORE)
	a.Op(opSTOP)
	return a.Bytes()
}

// RecorderAddr: the first contract user/0 creates (C03 worlds deploy it during set-up).
func RecorderAddr(w *World) common.Address { return ethcrypto.CreateAddress(w.Key("user", 0).Hex(), 0) }

// ForwarderRuntime: a contract that re-enters the bridge from inside a bridge call - ONCE per arming.
// With call data and a non-zero balance it first gives its whole balance away (the one-shot flag: native
// balances are what a nested keeper-level EVM run can see), then forwards the call data unchanged to the
// cross-chain precompile, ignores the outcome and succeeds. Without call data it just accepts value
// (arming). Unarmed it does nothing.
func ForwarderRuntime() []byte {
	const opSELFBALANCE = 0x47
	a := NewAsm()
	a.Op(opCALLDATASIZE, opISZERO).JumpI("end")
	a.Op(opSELFBALANCE, opISZERO).JumpI("end")
	// call(gas, 0xdead, selfbalance, 0, 0, 0, 0)
	a.Push(0).Push(0).Push(0).Push(0).Op(opSELFBALANCE)
	a.PushAddr(common.HexToAddress("0x000000000000000000000000000000000000dEaD")).Op(opGAS).Op(opCALL, opPOP)
	a.Op(opCALLDATASIZE).Push(0).Push(0).Op(opCALLDATACOPY)
	// call(gas, 0x1004, 0, 0, calldatasize, 0, 0)
	a.Push(0).Push(0).Op(opCALLDATASIZE).Push(0).Push(0)
	a.PushAddr(common.HexToAddress("0x0000000000000000000000000000000000001004")).Op(opGAS).Op(opCALL, opPOP)
	a.Label("end")
	a.Op(opSTOP)
	return a.Bytes()
}
