package sim

import (
	"fmt"
	"sort"
	"strings"

	sdkmath "cosmossdk.io/math"
	authtypes "github.com/cosmos/cosmos-sdk/x/auth/types"

	cctypes "github.com/functionx/fx-core/v8/x/crosschain/types"
)

// bridgeChecks holds the model state of the BRIDGE engine's oracles.
type bridgeChecks struct {
	prop string
	pre  map[string]*ChainView // per chain, before the step
	post map[string]*ChainView

	// relayer memory (objects + signatures seen while they existed)
	batches map[string]*seenBatch
	calls   map[string]*seenCall

	// C01
	observedNonces map[string][]uint64          // chain -> observed nonces in order (from events)
	executed       map[string]map[uint64]int    // chain -> nonce -> successful executions
	lastAccepted   map[string]map[string]uint64 // chain -> oracle -> last accepted claim nonce
	hasAccepted    map[string]map[string]bool
	supplyPre      map[string]sdkmath.Int // chain|base -> coin supply (FX: escrow of the chain module) before the step

	// C05 / C06 / C13 / C04 models live in their own files
	pendingViol []Violation
	c05         *c05Model
	c06         *c06Model
	c13         *c13Model
	c04         *c04Model
	c12         *c12Model
	c03         *c03Model
}

type seenBatch struct {
	b    *ExtBatch
	sigs [][]byte
}
type seenCall struct {
	c    *ExtCall
	sigs [][]byte
}

func newBridgeChecks(r *Run, st *BridgeSt) *bridgeChecks {
	c := &bridgeChecks{prop: r.Prop, batches: map[string]*seenBatch{}, calls: map[string]*seenCall{},
		observedNonces: map[string][]uint64{}, executed: map[string]map[uint64]int{},
		lastAccepted: map[string]map[string]uint64{}, hasAccepted: map[string]map[string]bool{}}
	for _, ch := range st.Chains {
		c.executed[ch.Name] = map[uint64]int{}
		c.lastAccepted[ch.Name] = map[string]uint64{}
		c.hasAccepted[ch.Name] = map[string]bool{}
	}
	c.c05 = newC05(st)
	c.c06 = newC06(st)
	c.c13 = newC13(st)
	c.c04 = newC04(st)
	c.c12 = newC12(st)
	c.c03 = newC03(st)
	return c
}

func (c *bridgeChecks) rememberBatch(ch *ChainSt, b *ExtBatch, sigs [][]byte) {
	c.batches[fmt.Sprintf("%s|%s|%d", ch.Name, ExtAddrStr(ch.Name, b.Token), b.Nonce)] = &seenBatch{b, sigs}
}
func (c *bridgeChecks) recallBatch(ch *ChainSt, token string, nonce uint64) (*ExtBatch, [][]byte) {
	if s, ok := c.batches[fmt.Sprintf("%s|%s|%d", ch.Name, token, nonce)]; ok {
		return s.b, s.sigs
	}
	return nil, nil
}
func (c *bridgeChecks) rememberCall(ch *ChainSt, ec *ExtCall, sigs [][]byte) {
	c.calls[fmt.Sprintf("%s|%d", ch.Name, ec.Nonce)] = &seenCall{ec, sigs}
}
func (c *bridgeChecks) recallCall(ch *ChainSt, nonce uint64) (*ExtCall, [][]byte) {
	if s, ok := c.calls[fmt.Sprintf("%s|%d", ch.Name, nonce)]; ok {
		return s.c, s.sigs
	}
	return nil, nil
}

// staleObject proposes re-submitting an object that fxcore no longer holds.
func (c *bridgeChecks) staleObject(r *Run, ch *ChainSt, v *ChainView) (Args, bool) {
	live := map[string]bool{}
	for _, b := range v.Batches {
		live[fmt.Sprintf("%s|%s|%d", ch.Name, b.TokenContract, b.BatchNonce)] = true
	}
	for _, bc := range v.Calls {
		live[fmt.Sprintf("%s|%d", ch.Name, bc.Nonce)] = true
	}
	var cands []Args
	for _, k := range sortedKeys(c.batches) {
		if strings.HasPrefix(k, ch.Name+"|") && !live[k] {
			sb := c.batches[k]
			cands = append(cands, A("chain", ch.Name, "op", "batch", "nonce", sb.b.Nonce, "token", ExtAddrStr(ch.Name, sb.b.Token)))
		}
	}
	for _, k := range sortedKeys(c.calls) {
		if strings.HasPrefix(k, ch.Name+"|") && !live[k] {
			sc := c.calls[k]
			cands = append(cands, A("chain", ch.Name, "op", "bridge_call", "nonce", sc.c.Nonce, "success", 1))
		}
	}
	if len(cands) == 0 {
		return nil, false
	}
	return cands[r.Rng.IntN(len(cands))], true
}

func (c *bridgeChecks) before(r *Run, s *Step) {
	st := bst(r)
	c.pre = map[string]*ChainView{}
	ctx := r.W.Ctx()
	for _, ch := range st.Chains {
		c.pre[ch.Name] = r.W.ViewChain(ctx, ch.Name)
	}
	c.supplyPre = map[string]sdkmath.Int{}
	for _, ch := range st.Chains {
		for _, tk := range ch.Tokens {
			if tk.Base == "FX" {
				c.supplyPre[ch.Name+"|FX"] = r.W.App.BankKeeper.GetBalance(ctx, authtypes.NewModuleAddress(ch.Name), "FX").Amount
			} else {
				c.supplyPre[ch.Name+"|"+tk.Base] = r.W.App.BankKeeper.GetSupply(ctx, tk.Base).Amount
			}
		}
	}
	c.c04.before(r, s)
	c.c05.before(r)
	c.c13.before(r, s)
}

func (c *bridgeChecks) afterRelay(r *Run, ch *ChainSt, kind string, nonce uint64, token string, err error) {
	c.c06.afterRelay(r, ch, kind, nonce, token, err)
	c.c12.afterRelay(r, ch, kind, nonce, token, err)
}

func viol(inv, site, format string, a ...interface{}) Violation {
	return Violation{Invariant: inv, Site: site, Message: fmt.Sprintf(format, a...)}
}

// Check runs the oracles of the run's property after a step.
func (e BridgeEngine) Check(r *Run, s *Step, o *Outcome) []Violation {
	st := bst(r)
	c := st.Chk
	if o != nil && o.Halt != nil {
		if r.Prop == "C07" {
			r.Nontrivial = true
			return []Violation{viol("no-halt", o.Halt.Phase+":"+o.Halt.Site, "%s: %s", o.Halt.Phase, firstLine(o.Halt.Msg))}
		}
		r.Foreign = "halt:" + o.Halt.Site
		return nil
	}
	ctx := r.W.Ctx()
	c.post = map[string]*ChainView{}
	for _, ch := range st.Chains {
		c.post[ch.Name] = r.W.ViewChain(ctx, ch.Name)
	}
	// model bookkeeping that several oracles share runs for every property
	c.trackCommon(r, s, o)
	var vs []Violation
	if o == nil {
		o = &Outcome{}
	}
	// the life-cycle model is shared (C04, C06 read it); its own violations count only for C05
	nt := r.Nontrivial
	v05 := c.c05.check(r, c, s, o)
	if r.Prop != "C05" {
		r.Nontrivial = nt
	}
	switch r.Prop {
	case "C07":
		c.probeC07(r, s, o)
	case "C01":
		vs = c.checkC01(r, s, o)
	case "C02":
		vs = c.checkC02(r, s, o)
		// "have each voted for that very event": votes tallied together must describe one event - judged by
		// the differential oracle of C03 (claims sharing an attestation are executed on branches)
		for _, v := range c.c03.check(r, c, s, o) {
			v.Invariant = "voted-for-that-very-event"
			vs = append(vs, v)
		}
	case "C03":
		vs = c.c03.check(r, c, s, o)
	case "C04":
		vs = c.c04.check(r, c, s, o)
	case "C05":
		vs = v05
	case "C06":
		vs = c.c06.check(r, c, s, o)
	case "C12":
		vs = c.c12.check(r, c, s, o)
	case "C13":
		vs = c.c13.check(r, c, s, o)
	}
	return vs
}

func (e BridgeEngine) Finish(r *Run) []Violation {
	st := bst(r)
	c := st.Chk
	switch r.Prop {
	case "C06":
		return c.c06.finish(r, c)
	case "C13":
		return c.c13.finish(r, c)
	case "C04":
		return c.c04.finish(r, c)
	}
	return nil
}

func firstLine(s string) string {
	if i := strings.Index(s, "\n"); i >= 0 {
		s = s[:i]
	}
	if len(s) > 200 {
		s = s[:200]
	}
	return s
}

// claimOutcomes returns the delivered claim txs of a block step.
func claimTxs(o *Outcome) []TxOutcome {
	var out []TxOutcome
	if o == nil {
		return nil
	}
	for _, t := range o.Txs {
		if t.Tx != nil && t.Tx.K == "claim" && t.Res != nil {
			out = append(out, t)
		}
	}
	return out
}

func (c *bridgeChecks) trackCommon(r *Run, s *Step, o *Outcome) {
	if o == nil {
		return
	}
	for _, t := range o.Txs {
		if t.Tx == nil || t.Res == nil {
			continue
		}
		for _, n := range t.Res.EventAttr("observation", "event_nonce") {
			var nn uint64
			fmt.Sscan(n, &nn)
			chain := t.Tx.A.Str("chain")
			// the module attribute names the chain that observed
			if mods := t.Res.EventAttr("observation", "module"); len(mods) > 0 {
				chain = mods[0]
			}
			c.observedNonces[chain] = append(c.observedNonces[chain], nn)
		}
	}
}

// ---------------------------------------------------------------------------------------
// C07 probes (the oracle itself is the halt detection above)

func (c *bridgeChecks) probeC07(r *Run, s *Step, o *Outcome) {
	h := uint64(r.W.Height)
	for name, v := range c.post {
		w := v.Params.SignedWindow
		for _, os := range v.OracleSets {
			if os.Height+w < h && len(v.SetConfirms[os.Nonce]) < len(v.OracleList) {
				r.Probe("window-elapsed-unconfirmed-oracleset")
				r.Nontrivial = true
			}
		}
		for _, b := range v.Batches {
			if b.Block+w < h {
				r.Probe("window-elapsed-batch")
				r.Nontrivial = true
			}
		}
		for _, bc := range v.Calls {
			if bc.BlockHeight+w < h {
				r.Probe("window-elapsed-bridgecall")
				r.Nontrivial = true
			}
		}
		online := 0
		for _, or := range v.OracleList {
			if or.Online {
				online++
			}
		}
		if online == 0 && len(v.OracleList) > 0 {
			r.Probe("all-oracles-offline")
		}
		r.State(fmt.Sprintf("%s:on%d/sets%d/b%d/c%d/p%d", name, online, min(len(v.OracleSets), 4), min(len(v.Batches), 3), min(len(v.Calls), 3), min(len(v.Pending), 3)))
	}
	if s.Kind == "gov" {
		r.Nontrivial = true
	}
}

// ---------------------------------------------------------------------------------------
// C01 — events take effect exactly once, in nonce order

func (c *bridgeChecks) checkC01(r *Run, s *Step, o *Outcome) []Violation {
	var vs []Violation
	st := bst(r)
	for _, ch := range st.Chains {
		pre, post := c.pre[ch.Name], c.post[ch.Name]
		// last-observed-step: the counter moves only by observation events, one at a time
		var evNonces []uint64
		if o != nil {
			for _, t := range o.Txs {
				if t.Res == nil {
					continue
				}
				mods := t.Res.EventAttr("observation", "module")
				ns := t.Res.EventAttr("observation", "event_nonce")
				for i, n := range ns {
					if i < len(mods) && mods[i] != ch.Name {
						continue
					}
					var nn uint64
					fmt.Sscan(n, &nn)
					evNonces = append(evNonces, nn)
					if t.Tx == nil || t.Tx.K != "claim" {
						vs = append(vs, viol("last-observed-step", "observation-outside-claim", "%s: observation of nonce %d in a %v tx", ch.Name, nn, t.Tx))
					}
				}
			}
		}
		if post.LastObs != pre.LastObs+uint64(len(evNonces)) {
			vs = append(vs, viol("last-observed-step", "counter-vs-events", "%s: last observed %d -> %d but %d observation events", ch.Name, pre.LastObs, post.LastObs, len(evNonces)))
		}
		for i, n := range evNonces {
			if n != pre.LastObs+uint64(i)+1 {
				vs = append(vs, viol("last-observed-step", "gap-or-repeat", "%s: observed nonce %d, expected %d", ch.Name, n, pre.LastObs+uint64(i)+1))
			}
			r.Nontrivial = true
		}
		// one-observed-per-nonce & one-vote-per-oracle over all stored attestations
		obs := map[uint64]int{}
		voters := map[uint64]map[string]int{}
		variants := map[uint64]int{}
		for _, a := range post.Atts {
			variants[a.Nonce]++
			if a.Observed {
				obs[a.Nonce]++
			}
			if voters[a.Nonce] == nil {
				voters[a.Nonce] = map[string]int{}
			}
			for _, v := range a.Votes {
				voters[a.Nonce][v]++
			}
		}
		var nonces []uint64
		for n := range voters {
			nonces = append(nonces, n)
		}
		sort.Slice(nonces, func(i, j int) bool { return nonces[i] < nonces[j] })
		for _, n := range nonces {
			if obs[n] > 1 {
				vs = append(vs, viol("one-observed-per-nonce", "two-attestations-observed", "%s: nonce %d has %d observed attestations", ch.Name, n, obs[n]))
			}
			if variants[n] > 1 {
				r.Probe("competing-claims")
			}
			var vl []string
			for v := range voters[n] {
				vl = append(vl, v)
			}
			sort.Strings(vl)
			for _, v := range vl {
				if voters[n][v] > 1 {
					vs = append(vs, viol("one-vote-per-oracle", "oracle-counted-twice", "%s: oracle %s appears %d times in the votes of nonce %d", ch.Name, v, voters[n][v], n))
				}
			}
			if n > post.LastObs+1 && len(voters[n]) > 0 {
				r.Probe("later-nonce-voted-before-earlier-observed")
			}
		}
		// observed attestation with nonce > LastObs must not exist
		for _, a := range post.Atts {
			if a.Observed && a.Nonce > post.LastObs {
				vs = append(vs, viol("last-observed-step", "observed-ahead", "%s: attestation nonce %d observed but last observed is %d", ch.Name, a.Nonce, post.LastObs))
			}
		}
		// no-skip / no-double vote per accepted claim
		for _, t := range claimTxs(o) {
			if t.Tx.A.Str("chain") != ch.Name || !t.Res.OK() {
				continue
			}
			n := t.Tx.A.U64("n")
			oi := t.Tx.A.Int("o")
			if oi >= len(ch.Oracles) {
				continue
			}
			ob := ch.oracleKey(r.W, oi).Bech()
			if c.hasAccepted[ch.Name][ob] {
				prev := c.lastAccepted[ch.Name][ob]
				_, stillStored := pre.OracleNonce[ob]
				if n <= prev && stillStored {
					vs = append(vs, viol("one-vote-per-oracle", "claim-accepted-twice", "%s: oracle %d claim for nonce %d accepted, last accepted was %d", ch.Name, oi, n, prev))
				}
				if n > prev+1 && n-1 > pre.LastObs && stillStored {
					vs = append(vs, viol("no-skip", "claim-skips-nonce", "%s: oracle %d claim nonce %d accepted after %d (last observed %d)", ch.Name, oi, n, prev, pre.LastObs))
				}
			} else if n >= 2 && n-1 > pre.LastObs+uint64(len(evNonces)) {
				// first claim of an oracle may only start at the observed frontier
				vs = append(vs, viol("no-skip", "first-claim-ahead", "%s: oracle %d first claim nonce %d, last observed %d", ch.Name, oi, n, pre.LastObs))
			}
			c.hasAccepted[ch.Name][ob] = true
			if n > c.lastAccepted[ch.Name][ob] {
				c.lastAccepted[ch.Name][ob] = n
			}
		}
		// execute-once
		if o != nil {
			for _, t := range o.Txs {
				if t.Tx == nil || t.Tx.K != "execute_claim" || t.Tx.A.Str("chain") != ch.Name || !t.Res.OK() {
					continue
				}
				n := t.Tx.A.U64("n")
				c.executed[ch.Name][n]++
				r.Probe("execute-claim-ok")
				if c.executed[ch.Name][n] > 1 {
					vs = append(vs, viol("execute-once", "executed-twice", "%s: pending claim %d executed %d times", ch.Name, n, c.executed[ch.Name][n]))
				}
				if _, still := post.Pending[n]; still {
					vs = append(vs, viol("execute-once", "pending-survives", "%s: pending claim %d still stored after successful execution", ch.Name, n))
				}
				if _, was := pre.Pending[n]; !was {
					vs = append(vs, viol("execute-once", "executed-without-record", "%s: execute claim %d succeeded without a pending record", ch.Name, n))
				}
				// the effects of ONE execution bound what the transaction may have created: for every token of the
				// executed claim the supply of its coin grows by at most the claimed amount (FX: the escrow shrinks
				// by at most the amount) - a handler that ran twice (re-entrancy) exceeds it
				if s.Kind == "block" && deliveredCount(o) == 1 && s.N <= 1 {
					vs = append(vs, c.effectBound(r, ch, n, pre.Pending[n])...)
				}
			}
		}
		// a pending record may only appear for a nonce observed in this step
		for _, n := range post.SortedPending() {
			if _, was := pre.Pending[n]; !was {
				found := false
				for _, en := range evNonces {
					if en == n {
						found = true
					}
				}
				if !found {
					vs = append(vs, viol("execute-once", "pending-reappears", "%s: pending claim %d appeared without an observation", ch.Name, n))
				}
			}
		}
		gap := uint64(0)
		for _, oc := range post.OracleNonce {
			if post.LastObs > oc && post.LastObs-oc > gap {
				gap = post.LastObs - oc
			}
		}
		r.State(fmt.Sprintf("%s:gap%d/var%d/pend%d", ch.Name, min(int(gap), 5), len(variants), min(len(post.Pending), 4)))
	}
	return vs
}

// ---------------------------------------------------------------------------------------
// C02 — 66% quorum of distinct registered oracles

func stakeChanging(o *Outcome) bool {
	if o == nil {
		return false
	}
	for _, t := range o.Txs {
		if t.Tx == nil {
			continue
		}
		switch t.Tx.K {
		case "bond", "add_delegate", "unbond", "cc_redelegate":
			return true
		}
	}
	return false
}

func (c *bridgeChecks) checkC02(r *Run, s *Step, o *Outcome) []Violation {
	var vs []Violation
	st := bst(r)
	for _, ch := range st.Chains {
		pre, post := c.pre[ch.Name], c.post[ch.Name]
		// total-power-floor: recorded total never below the power of the online oracles
		if post.TotalPower.LT(post.OnlinePower()) {
			site := "after-" + s.Kind
			if s.Kind == "block" && len(s.Txs) > 0 {
				site = "after-" + s.Txs[0].K
			}
			if s.Kind == "gov" {
				site = "after-gov-" + s.A.Str("what")
			}
			vs = append(vs, viol("total-power-floor", site, "%s: recorded total power %s < online power %s", ch.Name, post.TotalPower, post.OnlinePower()))
		}
		if s.Kind != "block" || o == nil {
			continue
		}
		// vote-admission: a successful claim tx must be signed by the registered bridger of an online oracle,
		// and that is the oracle whose vote is recorded
		for _, t := range claimTxs(o) {
			if t.Tx.A.Str("chain") != ch.Name || !t.Res.OK() {
				continue
			}
			signer := r.W.KeyByName(t.Tx.S).Bech()
			oracleOfSigner, isBridger := pre.ByBridger[signer]
			inner := ch.bridgerKey(r.W, t.Tx.A.Int("o")).Bech()
			if t.Tx.A.Has("inner") {
				inner = r.W.KeyByName(t.Tx.A.Str("inner")).Bech()
			}
			votedFor := pre.ByBridger[inner]
			// the registry record is the truth: the signer must be the bridger written in the record of
			// the oracle the index maps it to (a stale index entry does not make a key a bridger)
			if rec, ok := pre.Oracles[oracleOfSigner]; isBridger && (!ok || rec.BridgerAddress != signer) {
				vs = append(vs, viol("vote-admission", "MsgClaim/retired-bridger", "%s: claim tx signed by %s accepted, but that key is not the registered bridger of any oracle (index -> %s, record bridger %q)", ch.Name, t.Tx.S, oracleOfSigner, rec.BridgerAddress))
				continue
			}
			if !isBridger {
				vs = append(vs, viol("vote-admission", "MsgClaim/foreign-wrap", "%s: claim tx signed by %s (not a registered bridger) accepted; vote recorded for oracle %s", ch.Name, t.Tx.S, votedFor))
				continue
			}
			if oracleOfSigner != votedFor {
				vs = append(vs, viol("vote-admission", "MsgClaim/other-bridger", "%s: claim tx signed by bridger of %s recorded a vote for %s", ch.Name, oracleOfSigner, votedFor))
			}
			if or, ok := pre.Oracles[votedFor]; ok && !or.Online && !stakeChanging(o) {
				vs = append(vs, viol("vote-admission", "offline-oracle-voted", "%s: claim of offline oracle %s accepted", ch.Name, votedFor))
			}
			if t.Tx.A.Has("wchain") && t.Tx.A.Str("wchain") != ch.Name {
				r.Probe("claim-wrapped-for-other-chain-accepted")
			}
		}
		// quorum at every observation
		if stakeChanging(o) {
			r.Probe("c02-quorum-skipped-mixed-block")
			continue
		}
		for _, a := range post.Atts {
			if !a.Observed || a.Nonce <= pre.LastObs {
				continue
			}
			// observed in this block
			seen := map[string]bool{}
			p := sdkmath.ZeroInt()
			for _, v := range a.Votes {
				if seen[v] {
					continue
				}
				seen[v] = true
				if or, ok := pre.Oracles[v]; ok {
					p = p.Add(or.GetPower())
				}
			}
			t := pre.TotalPower
			r.Nontrivial = true
			lhs := p.MulRaw(100)
			rhs := t.MulRaw(66)
			if lhs.LT(rhs) {
				vs = append(vs, viol("quorum-66", "observed-below-66pct", "%s: nonce %d observed with power %s of recorded total %s (%d distinct registered voters)", ch.Name, a.Nonce, p, t, len(seen)))
			}
			// how close to the boundary did we get
			if t.IsPositive() {
				pct := lhs.Quo(t).Int64()
				switch {
				case pct < 70:
					r.Probe("quorum-within-66-70")
				case pct < 100:
					r.Probe("quorum-70-99")
				default:
					r.Probe("quorum-unanimous")
				}
			}
			r.State(fmt.Sprintf("%s:n%d/v%d/o%d", ch.Name, min(len(post.OracleList), 9), len(seen), len(a.Votes)))
		}
	}
	return vs
}

// effectBound: see the call site (C01 execute-once).
func (c *bridgeChecks) effectBound(r *Run, ch *ChainSt, n uint64, claim cctypes.ExternalClaim) []Violation {
	var vs []Violation
	w := r.W
	ctx := w.Ctx()
	type ta struct {
		contract string
		amt      sdkmath.Int
	}
	var toks []ta
	kind := ""
	switch cl := claim.(type) {
	case *cctypes.MsgSendToFxClaim:
		kind = "send_to_fx"
		toks = append(toks, ta{cl.TokenContract, cl.Amount})
	case *cctypes.MsgBridgeCallClaim:
		kind = "bridge_call"
		for i, t := range cl.TokenContracts {
			if i < len(cl.Amounts) {
				toks = append(toks, ta{t, cl.Amounts[i]})
			}
		}
	default:
		return nil
	}
	sum := map[string]sdkmath.Int{}
	for _, t := range toks {
		for _, tk := range ch.Tokens {
			if ExtAddrStr(ch.Name, tk.Contract) == t.contract {
				if _, ok := sum[tk.Base]; !ok {
					sum[tk.Base] = sdkmath.ZeroInt()
				}
				sum[tk.Base] = sum[tk.Base].Add(t.amt)
			}
		}
	}
	for _, base := range sortedKeys(sum) {
		pre, ok := c.supplyPre[ch.Name+"|"+base]
		if !ok {
			continue
		}
		var delta sdkmath.Int
		if base == "FX" {
			delta = pre.Sub(w.App.BankKeeper.GetBalance(ctx, authtypes.NewModuleAddress(ch.Name), "FX").Amount)
		} else {
			delta = w.App.BankKeeper.GetSupply(ctx, base).Amount.Sub(pre)
		}
		r.Probe("execute-effect-bound-checked")
		if delta.GT(sum[base]) {
			vs = append(vs, viol("execute-once", "effects-exceed-one-execution/"+kind, "%s: executing pending claim %d (%s of %s %s) released %s %s", ch.Name, n, kind, sum[base], base, delta, base))
		}
	}
	return vs
}
