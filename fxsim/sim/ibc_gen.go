package sim

import (
	"crypto/sha256"
	"encoding/hex"
	"math/big"
	"sort"
	"strings"

	sdkmath "cosmossdk.io/math"
	sdk "github.com/cosmos/cosmos-sdk/types"
	"github.com/cosmos/cosmos-sdk/types/bech32"
	authtypes "github.com/cosmos/cosmos-sdk/x/auth/types"
	"github.com/ethereum/go-ethereum/common"
	ethcrypto "github.com/ethereum/go-ethereum/crypto"

	"github.com/functionx/fx-core/v8/contract"
	fxtypes "github.com/functionx/fx-core/v8/types"
	cctypes "github.com/functionx/fx-core/v8/x/crosschain/types"
	erc20types "github.com/functionx/fx-core/v8/x/erc20/types"
)

const ibcRelayer = "relayer/0"
const ibcRelayGas = 25_000_000

func ibcBlk(dt int64, txs ...Tx) Step { return Step{Kind: "block", DtMs: dt, N: 1, Txs: txs} }

func ibcEth(signer, what string, to string, data []byte, value string, extra ...interface{}) Tx {
	a := A("what", what, "to", to, "data", hex.EncodeToString(data), "value", value)
	for i := 0; i+1 < len(extra); i += 2 {
		a[extra[i].(string)] = ibcToStr(extra[i+1])
	}
	return Tx{K: "eth_call", S: signer, A: a}
}

func ibcToStr(v interface{}) string {
	switch x := v.(type) {
	case string:
		return x
	case *big.Int:
		return x.String()
	}
	return A("v", v)["v"]
}

var ibcMaxUint = new(big.Int).Sub(new(big.Int).Lsh(big.NewInt(1), 256), big.NewInt(1))

// setupSteps: relayer account, two channel handshakes, recorder contract and an own ERC-20
// (proxy over the FIP20 logic contract), token-pair registration by governance, WFX deposits
// and allowances for the crosschain precompile.
func (e IbcEngine) setupSteps(r *Run, st *IbcSt) []Step {
	w := r.W
	rng := r.Rng
	var out []Step
	e18 := new(big.Int).Exp(big.NewInt(10), big.NewInt(18), nil)
	out = append(out, ibcBlk(5000, Tx{K: "bank_send", S: "user/0", A: A("to", w.Key("relayer", 0).Bech(), "denom", fxtypes.DefaultDenom, "amount", e18.String())}))
	for i := 0; i+1 < len(st.Chans); i += 2 {
		a, b := st.Chans[i], st.Chans[i+1]
		out = append(out,
			ibcBlk(5000, Tx{K: "ibc_chan_init", S: ibcRelayer}),
			ibcBlk(5000, Tx{K: "ibc_chan_try", S: ibcRelayer, A: A("cp", a)}),
			ibcBlk(5000, Tx{K: "ibc_chan_ack", S: ibcRelayer, A: A("ch", a, "cp", b)}),
			ibcBlk(5000, Tx{K: "ibc_chan_confirm", S: ibcRelayer, A: A("ch", b)}))
	}
	// contracts (all created by user/0, whose nonce is 1 after the bank send above)
	u0 := w.Key("user", 0)
	n0 := w.EthNonce(u0.Hex()) + 1
	callee := ethcrypto.CreateAddress(u0.Hex(), n0)
	token := ethcrypto.CreateAddress(u0.Hex(), n0+1)
	pc := contract.GetERC1967Proxy()
	ctor, _ := pc.ABI.Pack("", contract.GetFIP20().Address, []byte{})
	fip := contract.GetFIP20().ABI
	initd, _ := fip.Pack("initialize", "Token B", "TKB", uint8(18), common.BytesToAddress(authtypes.NewModuleAddress(erc20types.ModuleName)))
	txs := []Tx{
		ibcEth("user/0", "deploy", "", ibcCalleeInit(), "0", "role", "callee", "addr", callee.Hex()),
		ibcEth("user/0", "deploy", "", append(append([]byte{}, pc.Bin...), ctor...), "0", "role", "token", "addr", token.Hex()),
		ibcEth("user/0", "init", token.Hex(), initd, "0"),
	}
	for i := 0; i < st.NUser; i++ {
		amt := new(big.Int).Mul(e18, big.NewInt(int64(100+rng.IntN(900))))
		d, _ := fip.Pack("mint", w.Key("user", i).Hex(), amt)
		txs = append(txs, ibcEth("user/0", "mint", token.Hex(), d, "0", "mint_to", w.Key("user", i).Hex().Hex(), "mint_amount", amt))
	}
	// a deep escrow of the own token inside the erc20 module (as if much of it had been converted
	// to its coin form and bridged out earlier), so that releasing tokens to receivers of the
	// alias vouchers can never be limited by the escrow
	{
		mod := common.BytesToAddress(authtypes.NewModuleAddress(erc20types.ModuleName))
		amt := new(big.Int).Mul(e18, big.NewInt(1_000_000_000))
		d, _ := fip.Pack("mint", mod, amt)
		txs = append(txs, ibcEth("user/0", "mint", token.Hex(), d, "0", "mint_to", mod.Hex(), "mint_amount", amt))
	}
	out = append(out, ibcBlk(5000, txs...))
	// governance
	if s := r.Cfg.Knob("ibc_timeout_s"); s != "" && s != "43200" {
		out = append(out, Step{Kind: "gov", DtMs: 5000, A: A("what", "erc20_params", "ibc_timeout_s", s)})
	}
	aliases := []string{ibcV("channel-1")}
	if r.Cfg.Knob("v3") == "alias" {
		aliases = append(aliases, ibcV("channel-3"))
	}
	out = append(out, Step{Kind: "gov", DtMs: 5000, A: A("what", "register_erc20", "token", token.Hex(), "aliases", strings.Join(aliases, ","))})
	if r.Cfg.Knob("v3") == "base" {
		out = append(out, Step{Kind: "gov", DtMs: 5000, A: A("what", "register_coin", "base", ibcV("channel-3"), "name", "Token C", "symbol", "TKC")})
	}
	// deposits and allowances
	txs = nil
	dep, _ := contract.GetWFX().ABI.Pack("deposit")
	appr, _ := fip.Pack("approve", cctypes.GetAddress(), ibcMaxUint)
	for i := 0; i < st.NUser; i++ {
		u := KeyName("user", i)
		v := new(big.Int).Mul(e18, big.NewInt(int64(100+rng.IntN(900))))
		txs = append(txs, ibcEth(u, "deposit", st.WFX.Hex(), dep, v.String()),
			ibcEth(u, "approve", st.WFX.Hex(), appr, "0"),
			ibcEth(u, "approve", token.Hex(), appr, "0"))
	}
	out = append(out, ibcBlk(5000, txs...))
	// some memo-call senders exist as accounts, others do not
	txs = nil
	for _, ch := range st.Chans[:4] {
		for i := 0; i < st.NUser; i++ {
			if st.C18 || rng.IntN(100) < 50 {
				is := ibcIntermediate(ibcPort, ch, w.Key("user", i).Bech())
				st.FundedInt[is.Hex()] = true
				txs = append(txs, Tx{K: "bank_send", S: "user/0", A: A("to", sdk.AccAddress(is.Bytes()).String(), "denom", fxtypes.DefaultDenom, "amount", "1000")})
			}
		}
	}
	// decoys: accounts a weaker derivation (channel ignored) would use also exist, so that a call
	// running under such a sender is executed and judged instead of failing for a missing account
	for i := 0; i < st.NUser; i++ {
		th := sha256.Sum256([]byte(ibcPort))
		h := sha256.New()
		h.Write(th[:])
		h.Write([]byte(w.Key("user", i).Bech()))
		decoy := common.BytesToAddress(h.Sum(nil))
		txs = append(txs, Tx{K: "bank_send", S: "user/0", A: A("to", sdk.AccAddress(decoy.Bytes()).String(), "denom", fxtypes.DefaultDenom, "amount", "1000")})
	}
	out = append(out, ibcBlk(5000, txs...))
	return out
}

// ---------------------------------------------------------------------------------------

func (e IbcEngine) Gen(r *Run) Step {
	st := ibcState(r)
	if len(st.Setup) > 0 {
		s := st.Setup[0]
		st.Setup = st.Setup[1:]
		return s
	}
	if r.Cfg.Weights["toggle"] > 0 && r.Pct(6) {
		if off := e.disabledPairs(r); len(off) > 0 { // governance switches a disabled pair on again
			return Step{Kind: "gov", DtMs: 5000, A: A("what", "toggle", "token", off[0])}
		}
	}
	for try := 0; try < 20; try++ {
		kind := Weighted(r.Rng, r.Cfg.Weights)
		if s, ok := e.genKind(r, kind); ok {
			return s
		}
	}
	return ibcBlk(5000)
}

func (e IbcEngine) dt(r *Run) int64 { return int64(1000 + r.Rng.IntN(9000)) }

func (e IbcEngine) genKind(r *Run, kind string) (Step, bool) {
	st := ibcState(r)
	w := r.W
	switch kind {
	case "xfer":
		txs := []Tx{e.genXfer(r)}
		if r.Pct(25) {
			if t := e.genXfer(r); t.S != txs[0].S {
				txs = append(txs, t)
			}
		}
		return ibcBlk(e.dt(r), txs...), true
	case "evm":
		t, ok := e.genEvm(r)
		if !ok {
			return Step{}, false
		}
		txs := []Tx{t}
		if r.Pct(25) {
			if t2, ok := e.genEvm(r); ok && t2.S != t.S {
				txs = append(txs, t2)
			}
		}
		if r.Pct(15) { // a relay races with the send in the same block
			if rt, ok := e.genRelayTx(r, nil); ok {
				txs = append(txs, rt)
				r.Rng.Shuffle(len(txs), func(i, j int) { txs[i], txs[j] = txs[j], txs[i] })
			}
		}
		return ibcBlk(e.dt(r), txs...), true
	case "relay":
		t, ok := e.genRelayTx(r, nil)
		if !ok {
			return Step{}, false
		}
		txs := []Tx{t}
		for len(txs) < 4 && r.Pct(30) {
			if t2, ok := e.genRelayTx(r, txs); ok {
				txs = append(txs, t2)
			} else {
				break
			}
		}
		s := ibcBlk(e.dt(r), txs...)
		s.A = A("op", "relay")
		return s, true
	case "jump":
		dt := []int64{60_000, 600_000, 3_600_000, 46_800_000}[r.Rng.IntN(4)]
		return Step{Kind: "block", DtMs: dt, N: 1 + r.Rng.IntN(3), A: A("op", "jump")}, true
	case "empty":
		return Step{Kind: "block", DtMs: e.dt(r), N: 1 + r.Rng.IntN(4)}, true
	case "toggle":
		return e.genToggle(r)
	case "collide":
		return e.genCollide(r)
	case "fundint":
		ch := st.Chans[r.Rng.IntN(len(st.Chans))]
		is := ibcIntermediate(ibcPort, ch, w.Key("user", r.Rng.IntN(st.NUser)).Bech())
		if st.FundedInt[is.Hex()] {
			return Step{}, false
		}
		st.FundedInt[is.Hex()] = true
		return ibcBlk(e.dt(r), Tx{K: "bank_send", S: "user/0", A: A("to", sdk.AccAddress(is.Bytes()).String(), "denom", fxtypes.DefaultDenom, "amount", "1000")}), true
	}
	return Step{}, false
}

func (e IbcEngine) disabledPairs(r *Run) []string {
	w := r.W
	var off []string
	for _, p := range w.App.Erc20Keeper.GetAllTokenPairs(w.Ctx()) {
		if !p.Enabled {
			off = append(off, p.Erc20Address)
		}
	}
	sort.Strings(off)
	return off
}

// genToggle: governance switches the conversion of a token pair off (or on again) while
// transfers of that token may be in flight.
func (e IbcEngine) genToggle(r *Run) (Step, bool) {
	st := ibcState(r)
	if off := e.disabledPairs(r); len(off) > 0 {
		return Step{Kind: "gov", DtMs: 5000, A: A("what", "toggle", "token", off[r.Rng.IntN(len(off))])}, true
	}
	// prefer the token with EVM-started transfers in flight
	inflight := map[string]int{}
	for _, id := range st.Order {
		if p := st.Pkts[id]; p.Settled == "" && p.FromEVM && !p.Origin {
			inflight[p.Token]++
		}
	}
	tok := st.WFX
	if st.HasToken && (inflight[st.Token.Hex()] > inflight[st.WFX.Hex()] || (inflight[st.Token.Hex()] == inflight[st.WFX.Hex()] && r.Pct(50))) {
		tok = st.Token
	}
	if inflight[tok.Hex()] == 0 && r.Pct(80) {
		return Step{}, false
	}
	if _, ok := r.W.App.Erc20Keeper.GetTokenPair(r.W.Ctx(), tok.Hex()); !ok {
		return Step{}, false
	}
	return Step{Kind: "gov", DtMs: 5000, A: A("what", "toggle", "token", tok.Hex())}, true
}

const ibcFiller = "filler"

// genCollide (runs with seven channel pairs): one block that brings the send sequences of
// channel-1 and channel-1d (d = 1..3) to 10d+y and y with cheap filler transfers and then starts
// one EVM transfer on each, so that both are in flight together.
func (e IbcEngine) genCollide(r *Run) (Step, bool) {
	st := ibcState(r)
	w := r.W
	if len(st.Chans) < 14 {
		return Step{}, false
	}
	ctx := w.Ctx()
	next := func(ch string) int {
		n, ok := w.App.IBCKeeper.ChannelKeeper.GetNextSequenceSend(ctx, ibcPort, ch)
		if !ok {
			return -1
		}
		return int(n)
	}
	n1 := next("channel-1")
	ds := []int{1, 2, 3}
	r.Rng.Shuffle(3, func(i, j int) { ds[i], ds[j] = ds[j], ds[i] })
	for _, d := range ds {
		chx := "channel-1" + string(rune('0'+d))
		nx := next(chx)
		if n1 < 1 || nx < 1 || nx > 9 {
			continue
		}
		y := nx
		if n1-10*d > y {
			y = n1 - 10*d
		}
		if y > 9 {
			continue
		}
		f1, fx := 10*d+y-n1, y-nx
		if f1 < 0 || f1+fx > 14 {
			continue
		}
		var txs []Tx
		filler := func(ch, denom string, i int) Tx {
			u := i % st.NUser
			return Tx{K: "ibc_transfer", S: KeyName("user", u), A: A("ch", ch, "denom", denom, "amount", "1", "receiver", w.Key("user", (u+1)%st.NUser).Bech(), "th", w.Height+1_000_000, "tt", 0, "memo", ibcFiller)}
		}
		for i := 0; i < f1; i++ {
			txs = append(txs, filler("channel-1", ibcV("channel-1"), i))
		}
		for i := 0; i < fx; i++ {
			txs = append(txs, filler(chx, fxtypes.DefaultDenom, i))
		}
		// the two EVM-started transfers
		ua, ub := r.Rng.IntN(st.NUser), r.Rng.IntN(st.NUser)
		tokA := st.WFX
		if st.HasToken && r.Pct(60) {
			tokA = st.Token
		}
		recA := w.Key("user", r.Rng.IntN(st.NUser)).Hex().Hex()
		if r.Pct(35) {
			recA = common.BytesToAddress(authtypes.NewModuleAddress(authtypes.FeeCollectorName)).Hex() // rejected on arrival
		}
		mk := func(u int, tok common.Address, ch string, receipt string) (Tx, bool) {
			amt := big.NewInt(int64(1 + r.Rng.IntN(1_000_000)))
			target := "ibc/" + ibcChanNum(ch) + "/0x"
			data, err := cctypes.GetABI().Pack("crossChain", tok, receipt, amt, big.NewInt(0), fxtypes.MustStrToByte32(target), "")
			if err != nil {
				return Tx{}, false
			}
			return ibcEth(KeyName("user", u), "crosschain", cctypes.GetAddress().Hex(), data, "0", "token", tok.Hex(), "amount", amt, "receipt", receipt, "target", target), true
		}
		ta, ok1 := mk(ua, tokA, "channel-1", recA)
		tb, ok2 := mk(ub, st.WFX, chx, w.Key("user", r.Rng.IntN(st.NUser)).Hex().Hex())
		if !ok1 || !ok2 {
			return Step{}, false
		}
		txs = append(txs, ta, tb)
		s := ibcBlk(e.dt(r), txs...)
		s.A = A("op", "collide")
		r.Probe("collide-attempt")
		return s, true
	}
	return Step{}, false
}

func (e IbcEngine) genUser(r *Run) string {
	st := ibcState(r)
	if r.Pct(6) {
		return KeyName("adv", r.Rng.IntN(2))
	}
	return KeyName("user", r.Rng.IntN(st.NUser))
}

// genReceiver draws a receiver string; form "" = any, "0x" = hex only, "fx" = bech32 only.
func (e IbcEngine) genReceiver(r *Run, form string) string {
	st := ibcState(r)
	w := r.W
	k := w.Key("user", r.Rng.IntN(st.NUser))
	blocked := authtypes.NewModuleAddress(authtypes.FeeCollectorName)
	n := r.Rng.IntN(100)
	hexForm := form == "0x" || (form == "" && n < 55)
	m := r.Rng.IntN(100)
	if hexForm {
		switch {
		case m < 70:
			return k.Hex().Hex()
		case m < 78 && st.HasCallee:
			return st.Callee.Hex()
		case m < 84:
			return common.BytesToAddress(blocked).Hex()
		case m < 90:
			return strings.ToLower(k.Hex().Hex()) // not check-summed: rejected
		case m < 94:
			return w.Key("fresh", r.Rng.IntN(1000)).Hex().Hex() // account that does not exist yet
		case m < 97:
			return "0x" + strings.Repeat("zz", 20)
		}
		return k.Hex().Hex()
	}
	switch {
	case m < 70:
		return k.Bech()
	case m < 78:
		return blocked.String()
	case m < 86:
		s, _ := bech32.ConvertAndEncode("cosmos", k.Acc())
		return s
	case m < 92:
		return w.Key("fresh", r.Rng.IntN(1000)).Bech()
	case m < 96:
		return "not-an-address"
	}
	return k.Bech()
}

func (e IbcEngine) genMemo(r *Run) string {
	st := ibcState(r)
	if !st.HasCallee {
		return ""
	}
	c := st.Callee.Hex()
	n := r.Rng.IntN(100)
	if st.C18 { // mostly calls that fail after the transfer's own writes
		switch {
		case n < 14:
			return ibcMemoString(c, "00", "0")
		case n < 34:
			return ibcMemoString(c, "01", "0")
		case n < 46:
			return ibcMemoString(c, "04", "0")
		case n < 58:
			return ibcMemoString(c, "03", "0")
		case n < 63:
			return ibcMemoString(c, "02", "0")
		case n < 72:
			return ibcMemoString(c, "01", "1")
		case n < 76:
			return ibcMemoString(c, "03", "1")
		case n < 81:
			return ibcMemoString(c, "00", "1")
		case n < 86:
			return ibcMemoString(c, "00", "100000") // more than the sender account holds
		case n < 90:
			return ""
		case n < 94:
			return ibcMemoString("0x12", "00", "0")
		case n < 97:
			return "{not json"
		}
		return ibcMemoString(r.W.Key("user", 0).Hex().Hex(), "", "0")
	}
	switch {
	case n < 41:
		return ""
	case n < 43:
		return ibcMemoString(c, "03", "0") // INVALID opcode
	case n < 45:
		return ibcMemoString(c, "04", "0") // reverts with data
	case n < 65:
		return ibcMemoString(c, "00", "0")
	case n < 74:
		return ibcMemoString(c, "01", "0") // reverts after its writes
	case n < 76:
		return ibcMemoString(c, "02", "0") // burns all gas
	case n < 81:
		return ibcMemoString(c, "00", "1") // needs a funded intermediate sender
	case n < 84:
		return ibcMemoString(r.W.Key("user", 0).Hex().Hex(), "", "0") // call to an EOA
	case n < 88:
		return ibcMemoString("0x12", "00", "0") // invalid target
	case n < 91:
		return ibcMemoString(c, "zz", "0") // invalid data
	case n < 94:
		return "{not json"
	case n < 97:
		return `{"forward":{"receiver":"x"}}` // someone else's memo format
	}
	return ibcMemoString(c, "00", "-1")
}

func (e IbcEngine) genAmount(r *Run, bal *big.Int) *big.Int {
	n := r.Rng.IntN(100)
	switch {
	case n < 5:
		return big.NewInt(0)
	case n < 10:
		return new(big.Int).Add(bal, big.NewInt(1))
	case n < 20:
		return big.NewInt(1)
	case n < 25 && bal.Sign() > 0:
		return new(big.Int).Set(bal)
	}
	return new(big.Int).Mul(big.NewInt(int64(1+r.Rng.IntN(1_000_000))), big.NewInt(int64(1+r.Rng.IntN(1_000_000))))
}

func (e IbcEngine) genXfer(r *Run) Tx {
	st := ibcState(r)
	w := r.W
	signer := e.genUser(r)
	k := w.KeyByName(signer)
	ch, denom := "channel-0", fxtypes.DefaultDenom
	n := r.Rng.IntN(100)
	switch {
	case n < 30:
		ch = "channel-0"
	case n < 60:
		ch = "channel-2"
	case n < 66:
		ch = "channel-1"
	case n < 72:
		ch = "channel-3"
	case n < 90:
		ch, denom = "channel-1", ibcV("channel-1") // seeded voucher going home
	case n < 96:
		ch, denom = "channel-3", ibcV("channel-3")
	default:
		ch, denom = "channel-0", ibcV("channel-1") // voucher over the wrong channel: second hop
	}
	bal := w.App.BankKeeper.GetBalance(w.Ctx(), k.Acc(), denom).Amount.BigInt()
	amt := e.genAmount(r, bal)
	if st.C18 && r.Pct(85) {
		// a packet that is credited (and converted) before its memo call runs
		signer = KeyName("user", r.Rng.IntN(st.NUser))
		amt = big.NewInt(int64(1 + r.Rng.IntN(1_000_000)))
		recv := w.Key("user", r.Rng.IntN(st.NUser)).Hex().Hex()
		if denom != fxtypes.DefaultDenom && r.Pct(30) {
			recv = w.Key("user", r.Rng.IntN(st.NUser)).Bech() // native FX returning home to a bech32 receiver
		}
		return Tx{K: "ibc_transfer", S: signer, A: A("ch", ch, "denom", denom, "amount", amt.String(), "receiver", recv, "th", w.Height+100000, "tt", 0, "memo", e.genMemo(r))}
	}
	var th int64
	var tt uint64
	switch r.Rng.IntN(4) {
	case 0:
		th = w.Height + []int64{3, 6, 30, 5000}[r.Rng.IntN(4)]
	case 1:
		tt = uint64(w.Now.UnixNano()) + []uint64{20, 120, 7200}[r.Rng.IntN(3)]*1_000_000_000
	case 2:
		th = w.Height + []int64{3, 6, 30, 5000}[r.Rng.IntN(4)]
		tt = uint64(w.Now.UnixNano()) + []uint64{20, 120, 7200}[r.Rng.IntN(3)]*1_000_000_000
	default:
		th = w.Height + 100000
	}
	return Tx{K: "ibc_transfer", S: signer, A: A("ch", ch, "denom", denom, "amount", amt.String(), "receiver", e.genReceiver(r, ""), "th", th, "tt", tt, "memo", e.genMemo(r))}
}

// genEvm draws a crossChain precompile call with an IBC target.
func (e IbcEngine) genEvm(r *Run) (Tx, bool) {
	st := ibcState(r)
	w := r.W
	signer := e.genUser(r)
	k := w.KeyByName(signer)
	var token common.Address
	chNum := "1"
	n := r.Rng.IntN(100)
	switch {
	case n < 45 && st.HasToken:
		token = st.Token
		chNum = "1"
		if r.Cfg.Knob("v3") == "alias" && r.Pct(40) {
			chNum = "3"
		}
		if r.Pct(6) {
			chNum = "0" // no alias for this channel
		}
	case n < 90:
		token = st.WFX
		chNum = ibcChanNum(st.Chans[r.Rng.IntN(len(st.Chans))])
	default:
		token = common.Address{} // origin token: msg.value
		chNum = ibcChanNum(st.Chans[r.Rng.IntN(len(st.Chans))])
	}
	if r.Pct(3) {
		chNum = "7" // channel that does not exist
	}
	prefix := "0x"
	if r.Pct(40) {
		prefix = "fx"
	}
	receipt := e.genReceiver(r, prefix)
	if r.Pct(5) { // form that does not match the target prefix
		receipt = e.genReceiver(r, map[string]string{"0x": "fx", "fx": "0x"}[prefix])
	}
	var bal *big.Int
	if token == (common.Address{}) {
		bal = big.NewInt(1_000_000_000_000)
	} else {
		bal = ibcErc20Balance(w, w.Ctx(), token, k.Hex())
	}
	amt := e.genAmount(r, bal)
	fee := big.NewInt(0)
	if r.Pct(3) {
		fee = big.NewInt(1)
	}
	target := "ibc/" + chNum + "/" + prefix
	memo := ""
	if r.Pct(35) {
		memo = e.genMemo(r)
	}
	data, err := cctypes.GetABI().Pack("crossChain", token, receipt, amt, fee, fxtypes.MustStrToByte32(target), memo)
	if err != nil {
		return Tx{}, false
	}
	value := "0"
	if token == (common.Address{}) {
		value = new(big.Int).Add(amt, fee).String()
	}
	return ibcEth(signer, "crosschain", cctypes.GetAddress().Hex(), data, value, "token", token.Hex(), "amount", amt, "receipt", receipt, "target", target), true
}

// genRelayTx draws one relayer decision. have = relay txs already chosen for the block.
func (e IbcEngine) genRelayTx(r *Run, have []Tx) (Tx, bool) {
	st := ibcState(r)
	w := r.W
	cfg := r.Cfg
	used := map[string]bool{}
	for _, t := range have {
		used[t.A.Str("pkt")] = true
	}
	var unsettled, settled, recvd []*ibcPacket
	for _, id := range st.Order {
		p := st.Pkts[id]
		if used[id] {
			continue
		}
		if p.Settled == "" {
			unsettled = append(unsettled, p)
		} else {
			settled = append(settled, p)
		}
		if p.Recvd {
			recvd = append(recvd, p)
		}
	}
	relay := func(kind string, p *ibcPacket, extra ...interface{}) (Tx, bool) {
		a := A(append([]interface{}{"pkt", p.ID}, extra...)...)
		t := Tx{K: kind, S: ibcRelayer, A: a}
		if kind == "ibc_recv" {
			t.Gas = ibcRelayGas
		}
		return t, true
	}
	elapsedNext := func(p *ibcPacket) bool { return ibcElapsed(p, w.Height+1, w.Now.Add(10_000_000_000)) }
	pick := func(l []*ibcPacket) *ibcPacket { return l[r.Rng.IntN(len(l))] }
	n := r.Rng.IntN(100)
	// duplicates and replays
	if n < 18 && len(st.Order) > 0 {
		switch r.Rng.IntN(4) {
		case 0:
			if cfg.FaultOn("dup-recv") && len(recvd) > 0 {
				return relay("ibc_recv", pick(recvd))
			}
		case 1:
			if cfg.FaultOn("dup-ack") && len(settled) > 0 {
				if p := pick(settled); len(p.Ack) > 0 {
					return relay("ibc_ack", p)
				}
			}
		case 2:
			if cfg.FaultOn("dup-timeout") && len(settled) > 0 {
				return relay("ibc_timeout", pick(settled))
			}
		case 3:
			if cfg.FaultOn("dup-timeout") && len(recvd) > 0 { // timeout although the packet was received
				return relay("ibc_timeout", pick(recvd))
			}
		}
	}
	// a Byzantine relayer
	if n >= 18 && n < 28 && len(unsettled) > 0 {
		p := pick(unsettled)
		switch r.Rng.IntN(3) {
		case 0:
			if cfg.FaultOn("forged-ack") {
				forge := "success"
				if p.Recvd && p.AckOK {
					forge = "error"
				}
				return relay("ibc_ack", p, "forge", forge)
			}
		case 1:
			if cfg.FaultOn("tamper-recv") && !p.Recvd {
				return relay("ibc_recv", p, "tamper", "amount")
			}
		case 2:
			if cfg.FaultOn("early-timeout") && !p.Recvd && !elapsedNext(p) {
				return relay("ibc_timeout", p)
			}
		}
	}
	// packet loss: the relayer forgets a packet until it can be timed out
	if n >= 28 && n < 36 && cfg.FaultOn("packet-loss") {
		for _, p := range unsettled {
			if !p.Recvd && !p.Dropped && r.Pct(50) {
				p.Dropped = true
				break
			}
		}
	}
	// honest work, in order unless reordering is on
	var work []*ibcPacket
	for _, p := range unsettled {
		if p.Dropped && !p.Recvd && !elapsedNext(p) {
			continue
		}
		if p.RawOK && p.Data.Memo == ibcFiller { // sequence fillers are left to the final drain
			continue
		}
		work = append(work, p)
	}
	if len(work) == 0 {
		return Tx{}, false
	}
	// while governance has a token pair switched off the relayer is eager to settle the
	// EVM-started transfers of that token (their refunds need the conversion)
	if off := e.disabledPairs(r); len(off) > 0 && r.Pct(70) {
		for _, q := range work {
			if q.FromEVM && !q.Origin && (q.Token == off[0] || (len(off) > 1 && q.Token == off[1])) && (q.Recvd || elapsedNext(q)) {
				if q.Recvd {
					return relay("ibc_ack", q)
				}
				return relay("ibc_timeout", q)
			}
		}
	}
	p := work[0]
	if cfg.FaultOn("reorder") && len(work) > 1 && r.Pct(50) {
		p = pick(work)
		if p != work[0] {
			r.Fault("reorder")
		}
	}
	switch {
	case p.Recvd:
		return relay("ibc_ack", p)
	case elapsedNext(p):
		return relay("ibc_timeout", p)
	}
	return relay("ibc_recv", p)
}

var _ = sdkmath.ZeroInt
