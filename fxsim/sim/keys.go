package sim

import (
	"crypto/ecdsa"
	"crypto/sha256"
	"fmt"

	"github.com/cometbft/cometbft/crypto/ed25519"
	sdk "github.com/cosmos/cosmos-sdk/types"
	"github.com/ethereum/go-ethereum/common"
	ethcrypto "github.com/ethereum/go-ethereum/crypto"
	"github.com/evmos/ethermint/crypto/ethsecp256k1"
)

// Key is a deterministic account key. Keys depend only on (role, index), never on the
// run seed, so replay files stay valid when the generator changes.
type Key struct {
	Role  string
	Idx   int
	Priv  *ethsecp256k1.PrivKey
	ECDSA *ecdsa.PrivateKey
}

func NewKey(role string, idx int) *Key {
	h := sha256.Sum256([]byte(fmt.Sprintf("fxsim/%s/%d", role, idx)))
	for {
		k, err := ethcrypto.ToECDSA(h[:])
		if err == nil {
			return &Key{Role: role, Idx: idx, Priv: &ethsecp256k1.PrivKey{Key: h[:]}, ECDSA: k}
		}
		h = sha256.Sum256(h[:])
	}
}

func (k *Key) Acc() sdk.AccAddress { return sdk.AccAddress(k.Priv.PubKey().Address()) }
func (k *Key) Hex() common.Address { return common.BytesToAddress(k.Priv.PubKey().Address()) }
func (k *Key) Bech() string        { return k.Acc().String() }
func (k *Key) Val() sdk.ValAddress { return sdk.ValAddress(k.Priv.PubKey().Address()) }
func (k *Key) Name() string        { return fmt.Sprintf("%s%d", k.Role, k.Idx) }

// ConsKey is a deterministic validator consensus key.
func ConsKey(idx int) ed25519.PrivKey {
	h := sha256.Sum256([]byte(fmt.Sprintf("fxsim/cons/%d", idx)))
	return ed25519.GenPrivKeyFromSecret(h[:])
}
