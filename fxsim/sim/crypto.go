package sim

import (
	ethcrypto "github.com/ethereum/go-ethereum/crypto"
)

// ethSign returns the 65-byte [R || S || V] signature (V in {0,1}) of hash h.
func ethSign(h []byte, k *Key) ([]byte, error) {
	return ethcrypto.Sign(h, k.ECDSA)
}

func Keccak(b ...[]byte) []byte { return ethcrypto.Keccak256(b...) }
