package sim

import (
	"encoding/json"
	"fmt"
	"runtime/debug"
	"sort"
	"strings"
	"time"

	"cosmossdk.io/log"
	sdkmath "cosmossdk.io/math"
	abci "github.com/cometbft/cometbft/abci/types"
	cmtproto "github.com/cometbft/cometbft/proto/tendermint/types"
	dbm "github.com/cosmos/cosmos-db"
	"github.com/cosmos/cosmos-sdk/baseapp"
	codectypes "github.com/cosmos/cosmos-sdk/codec/types"
	cryptocodec "github.com/cosmos/cosmos-sdk/crypto/codec"
	sdk "github.com/cosmos/cosmos-sdk/types"
	authtypes "github.com/cosmos/cosmos-sdk/x/auth/types"
	banktypes "github.com/cosmos/cosmos-sdk/x/bank/types"
	crisistypes "github.com/cosmos/cosmos-sdk/x/crisis/types"
	distrtypes "github.com/cosmos/cosmos-sdk/x/distribution/types"
	govv1 "github.com/cosmos/cosmos-sdk/x/gov/types/v1"
	minttypes "github.com/cosmos/cosmos-sdk/x/mint/types"
	slashingtypes "github.com/cosmos/cosmos-sdk/x/slashing/types"
	stakingtypes "github.com/cosmos/cosmos-sdk/x/staking/types"
	transfertypes "github.com/cosmos/ibc-go/v8/modules/apps/transfer/types"
	ibcexported "github.com/cosmos/ibc-go/v8/modules/core/exported"
	coretypes "github.com/cosmos/ibc-go/v8/modules/core/types"
	evmtypes "github.com/evmos/ethermint/x/evm/types"
	feemarkettypes "github.com/evmos/ethermint/x/feemarket/types"
	"github.com/spf13/viper"

	"github.com/functionx/fx-core/v8/app"
	fxtypes "github.com/functionx/fx-core/v8/types"
	crosschaintypes "github.com/functionx/fx-core/v8/x/crosschain/types"
)

func init() {
	fxtypes.SetConfig(false)
}

const ChainID = "fxcore"

var AllChains = []string{"arbitrum", "avalanche", "bsc", "eth", "layer2", "optimism", "polygon", "tron"}

func FX(n int64) sdkmath.Int { return sdkmath.NewInt(n).MulRaw(1e18) }

// ChainCfg is the per-run configuration of one crosschain module.
type ChainCfg struct {
	Name                string `json:"name"`
	GravityID           string `json:"gravity_id"`
	Oracles             int    `json:"oracles"`       // approved (ProposalOracle) at genesis
	SignedWindow        uint64 `json:"signed_window"` // blocks
	AvgBlockTimeMs      uint64 `json:"avg_block_ms"`
	AvgExtBlockTimeMs   uint64 `json:"avg_ext_block_ms"`
	BatchTimeoutMs      uint64 `json:"batch_timeout_ms"`
	BridgeCallTimeoutMs uint64 `json:"bridge_call_timeout_ms"`
	SlashFractionPct    int64  `json:"slash_fraction_pct"`
	PowerChangePct      int64  `json:"power_change_pct"`
	DelegateThresholdFX int64  `json:"delegate_threshold_fx"`
	DelegateMultiple    int64  `json:"delegate_multiple"`
	BridgeCallMaxGas    uint64 `json:"bridge_call_max_gas"`
	IbcTimeoutHeight    uint64 `json:"ibc_timeout_height"`
}

// Config is everything a world is built from; it is part of every replay file.
type Config struct {
	Validators      int               `json:"validators"`
	ValStakeFX      []int64           `json:"val_stake_fx"`
	Users           int               `json:"users"`
	UserFundFX      int64             `json:"user_fund_fx"`
	Chains          []ChainCfg        `json:"chains"`
	UnbondingSec    int64             `json:"unbonding_sec"`
	GovMinDepositFX int64             `json:"gov_min_deposit_fx"`
	GovDepositSec   int64             `json:"gov_deposit_sec"`
	GovVotingSec    int64             `json:"gov_voting_sec"`
	GovQuorumPct    int64             `json:"gov_quorum_pct"`
	SlashWindow     int64             `json:"slash_window"`
	MinSignedPct    int64             `json:"min_signed_pct"`
	NoInflation     bool              `json:"no_inflation"`
	NodeOpts        map[string]string `json:"node_opts,omitempty"`
	IbcVoucher      *IbcVoucherCfg    `json:"ibc_voucher,omitempty"`
	SharedOracles   bool              `json:"shared_oracles,omitempty"` // the same oracle / bridger / external keys serve every chain (one operator, several bridges)
}

// OKI: key index of oracle i of chain ci.
func (c Config) OKI(ci, i int) int {
	if c.SharedOracles {
		return OracleKeyIdx(0, i)
	}
	return OracleKeyIdx(ci, i)
}

// IbcVoucherCfg: IBC history that exists at genesis in a bridge world - a voucher received over
// (transfer, Chan) earlier, part of which sits in the transfer module account (the stock out of
// which deposits with an IBC target are paid when the voucher is an alias of a bridged token).
type IbcVoucherCfg struct {
	Chan        string `json:"chan"`         // e.g. channel-0
	Base        string `json:"base"`         // base denom on the source chain, e.g. xusd
	ModuleStock string `json:"module_stock"` // vouchers held by the transfer module account
}

func DefaultChainCfg(name string) ChainCfg {
	return ChainCfg{
		Name: name, GravityID: "fx-" + name + "-bridge", Oracles: 3, SignedWindow: 20,
		AvgBlockTimeMs: 5000, AvgExtBlockTimeMs: 5000, BatchTimeoutMs: 600_000, BridgeCallTimeoutMs: 3_600_001 + 600_000,
		SlashFractionPct: 80, PowerChangePct: 10, DelegateThresholdFX: 10_000, DelegateMultiple: 10,
		BridgeCallMaxGas: 30_000_000, IbcTimeoutHeight: 20_000,
	}
}

func DefaultConfig() Config {
	return Config{
		Validators: 2, ValStakeFX: []int64{1_000_000, 800_000}, Users: 4, UserFundFX: 10_000_000,
		Chains:       []ChainCfg{DefaultChainCfg("eth")},
		UnbondingSec: 3600, GovMinDepositFX: 1000, GovDepositSec: 3600, GovVotingSec: 3600, GovQuorumPct: 40,
		SlashWindow: 100, MinSignedPct: 50, NoInflation: false,
	}
}

type ValInfo struct {
	Op       *Key
	ConsAddr []byte
	Power    int64
}

// World is one simulated fxcore node plus everything around it.
type World struct {
	Cfg    Config
	App    *app.App
	DB     dbm.DB
	Height int64
	Now    time.Time
	Vals   []ValInfo

	// faults applied to the next block(s)
	AbsentVals map[int]bool
	Evidence   []abci.Misbehavior

	// last finalize response
	LastResp *abci.ResponseFinalizeBlock
	// a halt observed (panic or error from FinalizeBlock / Commit)
	Halt *HaltInfo

	Transcript *Transcript // optional: raw block transcript recording (C17)
	keys       map[string]*Key
}

type HaltInfo struct {
	Phase string `json:"phase"`
	Msg   string `json:"msg"`
	Site  string `json:"site"`
	Stack string `json:"stack,omitempty"`
}

type mapOpts map[string]interface{}

func (m mapOpts) Get(k string) interface{} { return m[k] }

var GenesisTime = time.Date(2024, 9, 1, 0, 0, 0, 0, time.UTC)

func (w *World) Key(role string, idx int) *Key {
	n := fmt.Sprintf("%s/%d", role, idx)
	if k, ok := w.keys[n]; ok {
		return k
	}
	k := NewKey(role, idx)
	w.keys[n] = k
	return k
}

func (c ChainCfg) Params() crosschaintypes.Params {
	return crosschaintypes.Params{
		GravityId:                         c.GravityID,
		AverageBlockTime:                  c.AvgBlockTimeMs,
		AverageExternalBlockTime:          c.AvgExtBlockTimeMs,
		ExternalBatchTimeout:              c.BatchTimeoutMs,
		SignedWindow:                      c.SignedWindow,
		SlashFraction:                     sdkmath.LegacyNewDecWithPrec(c.SlashFractionPct, 2),
		OracleSetUpdatePowerChangePercent: sdkmath.LegacyNewDecWithPrec(c.PowerChangePct, 2),
		IbcTransferTimeoutHeight:          c.IbcTimeoutHeight,
		DelegateThreshold:                 crosschaintypes.NewDelegateAmount(FX(c.DelegateThresholdFX)),
		DelegateMultiple:                  c.DelegateMultiple,
		BridgeCallTimeout:                 c.BridgeCallTimeoutMs,
		BridgeCallMaxGasLimit:             c.BridgeCallMaxGas,
	}
}

// NewApp constructs the real application over db with the given node options.
func NewApp(db dbm.DB, nodeOpts map[string]string, extra ...func(*baseapp.BaseApp)) *app.App {
	v := viper.New()
	for k, val := range nodeOpts {
		v.Set(k, val)
	}
	opts := append([]func(*baseapp.BaseApp){baseapp.SetChainID(ChainID)}, extra...)
	return app.New(log.NewNopLogger(), db, nil, true, map[int64]bool{}, "/nonexistent-fxsim-home", v, opts...)
}

// OracleKeyIdx maps (chain index, oracle index) to a key index.
func OracleKeyIdx(chainIdx, i int) int { return chainIdx*1000 + i }

// NewWorld builds the app, a genesis from cfg, runs InitChain and the first block.
func NewWorld(cfg Config) (*World, error) {
	w := &World{Cfg: cfg, keys: map[string]*Key{}, AbsentVals: map[int]bool{}}
	w.DB = dbm.NewMemDB()
	w.App = NewApp(w.DB, cfg.NodeOpts)
	gen, err := w.buildGenesis()
	if err != nil {
		return nil, err
	}
	if err := w.InitChain(gen); err != nil {
		return nil, err
	}
	// genesis state becomes readable (committed) with the first block
	if _, halt := w.RunBlock(nil, 5*time.Second); halt != nil {
		return nil, fmt.Errorf("first block: %s %s", halt.Phase, halt.Msg)
	}
	return w, nil
}

func (w *World) GenesisBytes() ([]byte, error) { return w.buildGenesis() }

func (w *World) InitChain(gen []byte) error {
	cp := app.CustomGenesisConsensusParams().ToProto()
	if RecordTranscripts && w.Transcript == nil { // C17: every engine's world records its raw ABCI history
		w.Transcript = &Transcript{Cfg: w.Cfg}
	}
	if w.Transcript != nil {
		w.Transcript.Genesis = gen
	}
	var err error
	func() {
		defer func() {
			if r := recover(); r != nil {
				err = fmt.Errorf("InitChain panic: %v\n%s", r, debug.Stack())
			}
		}()
		_, err = w.App.InitChain(&abci.RequestInitChain{
			ChainId: ChainID, ConsensusParams: &cp, AppStateBytes: gen, InitialHeight: 1, Time: GenesisTime,
		})
	}()
	if err != nil {
		return err
	}
	w.Height = 0
	w.Now = GenesisTime
	return nil
}

func (w *World) buildGenesis() ([]byte, error) {
	cfg := w.Cfg
	a := w.App
	cdc := a.AppCodec()
	gs := app.NewDefAppGenesisByDenom(cdc, a.ModuleBasics)

	// ---- accounts & balances
	var accs authtypes.GenesisAccounts
	var bals []banktypes.Balance
	seenAcc := map[string]bool{}
	addAcc := func(k *Key, amt sdkmath.Int) {
		if seenAcc[k.Bech()] {
			return
		}
		seenAcc[k.Bech()] = true
		accs = append(accs, authtypes.NewBaseAccount(k.Acc(), nil, 0, 0))
		if amt.IsPositive() {
			bals = append(bals, banktypes.Balance{Address: k.Bech(), Coins: sdk.NewCoins(sdk.NewCoin(fxtypes.DefaultDenom, amt))})
		}
	}
	for i := 0; i < cfg.Users; i++ {
		addAcc(w.Key("user", i), FX(cfg.UserFundFX))
	}
	for ci, c := range cfg.Chains {
		// fund twice as many oracle identities as approved, so that governance can add some later
		for i := 0; i < c.Oracles*2+2; i++ {
			fund := FX(c.DelegateThresholdFX * c.DelegateMultiple * 3)
			if cfg.SharedOracles { // one key bonds on every chain
				fund = sdkmath.ZeroInt()
				for _, c2 := range cfg.Chains {
					fund = fund.Add(FX(c2.DelegateThresholdFX * c2.DelegateMultiple * 3))
				}
			}
			addAcc(w.Key("oracle", cfg.OKI(ci, i)), fund)
			addAcc(w.Key("bridger", cfg.OKI(ci, i)), FX(1000))
		}
	}
	addAcc(w.Key("adv", 0), FX(cfg.UserFundFX))
	addAcc(w.Key("adv", 1), FX(cfg.UserFundFX))

	// ---- validators
	var vals []stakingtypes.Validator
	var dels []stakingtypes.Delegation
	var signInfos []slashingtypes.SigningInfo
	bonded := sdkmath.ZeroInt()
	w.Vals = nil
	for i := 0; i < cfg.Validators; i++ {
		op := w.Key("val", i)
		stake := FX(cfg.ValStakeFX[i%len(cfg.ValStakeFX)])
		addAcc(op, FX(cfg.UserFundFX))
		cons := ConsKey(i)
		pk, err := cryptocodec.FromCmtPubKeyInterface(cons.PubKey())
		if err != nil {
			return nil, err
		}
		pkAny, err := codectypes.NewAnyWithValue(pk)
		if err != nil {
			return nil, err
		}
		v := stakingtypes.Validator{
			OperatorAddress: op.Val().String(), ConsensusPubkey: pkAny, Status: stakingtypes.Bonded,
			Tokens: stake, DelegatorShares: sdkmath.LegacyNewDecFromInt(stake),
			Description:       stakingtypes.Description{Moniker: op.Name()},
			UnbondingTime:     time.Unix(0, 0).UTC(),
			Commission:        stakingtypes.NewCommission(sdkmath.LegacyNewDecWithPrec(5, 2), sdkmath.LegacyNewDecWithPrec(5, 1), sdkmath.LegacyNewDecWithPrec(1, 2)),
			MinSelfDelegation: sdkmath.OneInt(),
		}
		vals = append(vals, v)
		dels = append(dels, stakingtypes.NewDelegation(op.Bech(), op.Val().String(), sdkmath.LegacyNewDecFromInt(stake)))
		bonded = bonded.Add(stake)
		consAddr := sdk.ConsAddress(pk.Address())
		signInfos = append(signInfos, slashingtypes.SigningInfo{
			Address:              consAddr.String(),
			ValidatorSigningInfo: slashingtypes.NewValidatorSigningInfo(consAddr, 0, 0, time.Unix(0, 0).UTC(), false, 0),
		})
		w.Vals = append(w.Vals, ValInfo{Op: op, ConsAddr: pk.Address(), Power: sdk.TokensToConsensusPower(stake, sdk.DefaultPowerReduction)})
	}
	bals = append(bals, banktypes.Balance{
		Address: authtypes.NewModuleAddress(stakingtypes.BondedPoolName).String(),
		Coins:   sdk.NewCoins(sdk.NewCoin(fxtypes.DefaultDenom, bonded)),
	})

	// auth
	var authGen authtypes.GenesisState
	cdc.MustUnmarshalJSON(gs[authtypes.ModuleName], &authGen)
	packed, err := authtypes.PackAccounts(accs)
	if err != nil {
		return nil, err
	}
	authGen.Accounts = packed
	gs[authtypes.ModuleName] = cdc.MustMarshalJSON(&authGen)

	// bank: keep the eth-module reserve from the default genesis, recompute supply
	var bankGen banktypes.GenesisState
	cdc.MustUnmarshalJSON(gs[banktypes.ModuleName], &bankGen)
	bankGen.Balances = append(bankGen.Balances, bals...)
	bankGen.Supply = sdk.Coins{}
	gs[banktypes.ModuleName] = cdc.MustMarshalJSON(&bankGen)

	// staking
	var stGen stakingtypes.GenesisState
	cdc.MustUnmarshalJSON(gs[stakingtypes.ModuleName], &stGen)
	stGen.Params.MaxValidators = 20
	stGen.Params.UnbondingTime = time.Duration(cfg.UnbondingSec) * time.Second
	stGen.Params.HistoricalEntries = 10
	stGen.Validators = vals
	stGen.Delegations = dels
	gs[stakingtypes.ModuleName] = cdc.MustMarshalJSON(&stGen)

	// slashing
	var slGen slashingtypes.GenesisState
	cdc.MustUnmarshalJSON(gs[slashingtypes.ModuleName], &slGen)
	slGen.Params.SignedBlocksWindow = cfg.SlashWindow
	slGen.Params.MinSignedPerWindow = sdkmath.LegacyNewDecWithPrec(cfg.MinSignedPct, 2)
	slGen.Params.DowntimeJailDuration = 60 * time.Second
	slGen.Params.SlashFractionDowntime = sdkmath.LegacyNewDecWithPrec(1, 2)
	slGen.Params.SlashFractionDoubleSign = sdkmath.LegacyNewDecWithPrec(5, 2)
	slGen.SigningInfos = signInfos
	gs[slashingtypes.ModuleName] = cdc.MustMarshalJSON(&slGen)

	// gov
	var govGen govv1.GenesisState
	cdc.MustUnmarshalJSON(gs["gov"], &govGen)
	dep := time.Duration(cfg.GovDepositSec) * time.Second
	vot := time.Duration(cfg.GovVotingSec) * time.Second
	govGen.Params.MinDeposit = sdk.NewCoins(sdk.NewCoin(fxtypes.DefaultDenom, FX(cfg.GovMinDepositFX)))
	govGen.Params.MaxDepositPeriod = &dep
	govGen.Params.VotingPeriod = &vot
	govGen.Params.Quorum = sdkmath.LegacyNewDecWithPrec(cfg.GovQuorumPct, 2).String()
	govGen.Params.ExpeditedVotingPeriod = func() *time.Duration { d := vot / 2; return &d }()
	govGen.Params.ExpeditedMinDeposit = sdk.NewCoins(sdk.NewCoin(fxtypes.DefaultDenom, FX(cfg.GovMinDepositFX*5)))
	gs["gov"] = cdc.MustMarshalJSON(&govGen)

	// mint
	if cfg.NoInflation {
		var mGen minttypes.GenesisState
		cdc.MustUnmarshalJSON(gs[minttypes.ModuleName], &mGen)
		mGen.Params.InflationMin = sdkmath.LegacyZeroDec()
		mGen.Params.InflationMax = sdkmath.LegacyZeroDec()
		mGen.Params.InflationRateChange = sdkmath.LegacyZeroDec()
		mGen.Minter.Inflation = sdkmath.LegacyZeroDec()
		gs[minttypes.ModuleName] = cdc.MustMarshalJSON(&mGen)
	}

	// distribution: keep default fx params
	_ = distrtypes.ModuleName
	_ = crisistypes.ModuleName

	// ibc: allow localhost for the loop-back channels
	var ibcGen coretypes.GenesisState
	cdc.MustUnmarshalJSON(gs[ibcexported.ModuleName], &ibcGen)
	ibcGen.ClientGenesis.Params.AllowedClients = []string{ibcexported.Tendermint, ibcexported.Localhost}
	gs[ibcexported.ModuleName] = cdc.MustMarshalJSON(&ibcGen)

	// feemarket: fees off (every balance delta exact)
	var fmGen feemarkettypes.GenesisState
	cdc.MustUnmarshalJSON(gs[feemarkettypes.ModuleName], &fmGen)
	fmGen.Params.NoBaseFee = true
	fmGen.Params.BaseFee = sdkmath.ZeroInt()
	fmGen.Params.MinGasPrice = sdkmath.LegacyZeroDec()
	gs[feemarkettypes.ModuleName] = cdc.MustMarshalJSON(&fmGen)

	_ = evmtypes.ModuleName

	// crosschain modules
	for ci, c := range cfg.Chains {
		var ccGen crosschaintypes.GenesisState
		cdc.MustUnmarshalJSON(gs[c.Name], &ccGen)
		ccGen.Params = c.Params()
		var approved []string
		for i := 0; i < c.Oracles; i++ {
			approved = append(approved, w.Key("oracle", cfg.OKI(ci, i)).Bech())
		}
		ccGen.ProposalOracle = crosschaintypes.ProposalOracle{Oracles: approved}
		gs[c.Name] = cdc.MustMarshalJSON(&ccGen)
	}

	// deterministic JSON (map keys sorted by encoding/json)
	if v := cfg.IbcVoucher; v != nil {
		var bankGen banktypes.GenesisState
		cdc.MustUnmarshalJSON(gs[banktypes.ModuleName], &bankGen)
		var trGen transfertypes.GenesisState
		cdc.MustUnmarshalJSON(gs[transfertypes.ModuleName], &trGen)
		path := "transfer/" + v.Chan
		trGen.DenomTraces = append(trGen.DenomTraces, transfertypes.DenomTrace{Path: path, BaseDenom: v.Base}).Sort()
		if amt, ok := sdkmath.NewIntFromString(v.ModuleStock); ok && amt.IsPositive() {
			c := sdk.NewCoin(transfertypes.DenomTrace{Path: path, BaseDenom: v.Base}.IBCDenom(), amt)
			bankGen.Balances = append(bankGen.Balances, banktypes.Balance{Address: authtypes.NewModuleAddress(transfertypes.ModuleName).String(), Coins: sdk.NewCoins(c)})
			bankGen.Balances = banktypes.SanitizeGenesisBalances(bankGen.Balances)
		}
		gs[banktypes.ModuleName] = cdc.MustMarshalJSON(&bankGen)
		gs[transfertypes.ModuleName] = cdc.MustMarshalJSON(&trGen)
	}
	return json.Marshal(gs)
}

// ---------------------------------------------------------------------------------------
// blocks

// Ctx returns a read-only context over the last committed state.
func (w *World) Ctx() sdk.Context {
	h := w.Height
	if h == 0 {
		h = 1
	}
	hdr := cmtproto.Header{ChainID: ChainID, Height: h, Time: w.Now}
	if len(w.Vals) > 0 {
		hdr.ProposerAddress = w.Vals[0].ConsAddr
	}
	// cache-wrapped: nothing a harness query does through this context can leak into committed state
	ctx, _ := w.App.NewUncachedContext(false, hdr).CacheContext()
	return ctx
}

// Branch returns a cache-wrapped context over the committed state; writes are discarded.
func (w *World) Branch() sdk.Context {
	ctx, _ := w.Ctx().CacheContext()
	return ctx.WithEventManager(sdk.NewEventManager())
}

func (w *World) commitInfo() abci.CommitInfo {
	ci := abci.CommitInfo{Round: 0}
	// validators known to the app at this height (bonded set can change; use staking's view)
	ctx := w.Ctx()
	type vv struct {
		addr  []byte
		power int64
		idx   int
	}
	var list []vv
	for i, v := range w.Vals {
		val, err := w.App.StakingKeeper.GetValidatorByConsAddr(ctx, sdk.ConsAddress(v.ConsAddr))
		if err != nil || !val.IsBonded() {
			continue
		}
		list = append(list, vv{v.ConsAddr, val.GetConsensusPower(sdk.DefaultPowerReduction), i})
	}
	sort.Slice(list, func(i, j int) bool { return string(list[i].addr) < string(list[j].addr) })
	for _, v := range list {
		flag := cmtproto.BlockIDFlagCommit
		if w.AbsentVals[v.idx] {
			flag = cmtproto.BlockIDFlagAbsent
		}
		ci.Votes = append(ci.Votes, abci.VoteInfo{Validator: abci.Validator{Address: v.addr, Power: v.power}, BlockIdFlag: flag})
	}
	return ci
}

func fxFrame(stack string) string {
	// the two innermost fx-core frames below the panic (callee<caller)
	lines := strings.Split(stack, "\n")
	seenPanic := false
	var frames []string
	for _, l := range lines {
		if strings.HasPrefix(l, "panic(") {
			seenPanic = true
			continue
		}
		if !seenPanic {
			continue
		}
		if strings.HasPrefix(l, "github.com/functionx/fx-core/") {
			f := strings.TrimPrefix(l, "github.com/functionx/fx-core/v8/")
			if i := strings.LastIndex(f, "("); i > 0 {
				f = f[:i]
			}
			if i := strings.LastIndex(f, "/"); i >= 0 {
				f = f[i+1:]
			}
			frames = append(frames, f)
			if len(frames) == 2 {
				break
			}
		}
	}
	if len(frames) == 0 {
		return "unknown"
	}
	return strings.Join(frames, "<")
}

// RunBlock executes one block with the given raw txs; dt is the block-time advance.
// A panic or error from FinalizeBlock/Commit is captured in w.Halt (and returned).
func (w *World) RunBlock(txs [][]byte, dt time.Duration) (*abci.ResponseFinalizeBlock, *HaltInfo) {
	if w.Halt != nil {
		return nil, w.Halt
	}
	ci := w.commitInfo()
	w.Height++
	w.Now = w.Now.Add(dt)
	proposer := w.Vals[0].ConsAddr
	if len(ci.Votes) > 0 {
		proposer = ci.Votes[int(w.Height)%len(ci.Votes)].Validator.Address
	}
	req := &abci.RequestFinalizeBlock{
		Height: w.Height, Time: w.Now, Txs: txs, ProposerAddress: proposer,
		DecidedLastCommit: ci, Misbehavior: w.Evidence,
	}
	w.Evidence = nil
	if w.Transcript != nil {
		w.Transcript.Blocks = append(w.Transcript.Blocks, TranscriptBlock{Req: req, Dirty: w.c17DirtyStores()})
	}
	var resp *abci.ResponseFinalizeBlock
	halt := w.guard("FinalizeBlock", func() error {
		var err error
		resp, err = w.App.FinalizeBlock(req)
		return err
	})
	if halt == nil {
		halt = w.guard("Commit", func() error {
			_, err := w.App.Commit()
			return err
		})
	}
	if halt != nil {
		w.Halt = halt
		return nil, halt
	}
	w.LastResp = resp
	if w.Transcript != nil {
		w.Transcript.Blocks[len(w.Transcript.Blocks)-1].AppHash = resp.AppHash
		w.Transcript.Blocks[len(w.Transcript.Blocks)-1].Resp = resp
	}
	return resp, nil
}

func (w *World) guard(phase string, f func() error) (h *HaltInfo) {
	defer func() {
		if r := recover(); r != nil {
			st := string(debug.Stack())
			h = &HaltInfo{Phase: phase, Msg: fmt.Sprint(r), Site: fxFrame(st), Stack: st}
		}
	}()
	if err := f(); err != nil {
		return &HaltInfo{Phase: phase, Msg: err.Error(), Site: "error-return"}
	}
	return nil
}

// RecordTranscripts makes every World record its raw ABCI history (consulted in InitChain; C17).
var RecordTranscripts bool

// Transcript is the raw ABCI history of a run (for C17 replicas).
type Transcript struct {
	Cfg     Config            `json:"cfg"`
	Genesis []byte            `json:"genesis"`
	Blocks  []TranscriptBlock `json:"blocks"`
}

type TranscriptBlock struct {
	Req     *abci.RequestFinalizeBlock  `json:"req"`
	AppHash []byte                      `json:"app_hash"`
	Resp    *abci.ResponseFinalizeBlock `json:"-"` // reference results of the recording run (C17)
	Dirty   []string                    `json:"-"` // stores written outside a block before this one (harness leak, C17)
}
