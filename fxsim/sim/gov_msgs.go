package sim

import (
	"encoding/hex"
	"fmt"
	"reflect"
	"strings"
	"time"

	sdkmath "cosmossdk.io/math"
	upgradetypes "cosmossdk.io/x/upgrade/types"
	codectypes "github.com/cosmos/cosmos-sdk/codec/types"
	cryptocodec "github.com/cosmos/cosmos-sdk/crypto/codec"
	sdk "github.com/cosmos/cosmos-sdk/types"
	authtypes "github.com/cosmos/cosmos-sdk/x/auth/types"
	vestingtypes "github.com/cosmos/cosmos-sdk/x/auth/vesting/types"
	"github.com/cosmos/cosmos-sdk/x/authz"
	banktypes "github.com/cosmos/cosmos-sdk/x/bank/types"
	consensustypes "github.com/cosmos/cosmos-sdk/x/consensus/types"
	crisistypes "github.com/cosmos/cosmos-sdk/x/crisis/types"
	distrtypes "github.com/cosmos/cosmos-sdk/x/distribution/types"
	govv1 "github.com/cosmos/cosmos-sdk/x/gov/types/v1"
	govv1beta1 "github.com/cosmos/cosmos-sdk/x/gov/types/v1beta1"
	minttypes "github.com/cosmos/cosmos-sdk/x/mint/types"
	slashingtypes "github.com/cosmos/cosmos-sdk/x/slashing/types"
	stakingtypes "github.com/cosmos/cosmos-sdk/x/staking/types"
	"github.com/ethereum/go-ethereum/common"
	ethcrypto "github.com/ethereum/go-ethereum/crypto"
	etherminttypes "github.com/evmos/ethermint/x/evm/types"
	feemarkettypes "github.com/evmos/ethermint/x/feemarket/types"

	fxtypes "github.com/functionx/fx-core/v8/types"
	cckeeper "github.com/functionx/fx-core/v8/x/crosschain/keeper"
	cctypes "github.com/functionx/fx-core/v8/x/crosschain/types"
	erc20types "github.com/functionx/fx-core/v8/x/erc20/types"
	fxevmtypes "github.com/functionx/fx-core/v8/x/evm/types"
	fxgovtypes "github.com/functionx/fx-core/v8/x/gov/types"
	migratetypes "github.com/functionx/fx-core/v8/x/migrate/types"
)

func gccKeeper(w *World, chain string) (cckeeper.Keeper, bool) {
	a := w.App
	switch chain {
	case "eth":
		return a.EthKeeper, true
	case "bsc":
		return a.BscKeeper, true
	case "polygon":
		return a.PolygonKeeper, true
	case "tron":
		return a.TronKeeper, true
	case "avalanche":
		return a.AvalancheKeeper, true
	case "arbitrum":
		return a.ArbitrumKeeper, true
	case "optimism":
		return a.OptimismKeeper, true
	case "layer2":
		return a.Layer2Keeper, true
	}
	return cckeeper.Keeper{}, false
}

// ---------------------------------------------------------------------------------------
// message specs: "kind:k=v,k=v;kind:k=v" -> []sdk.Msg with the given authority.
// kind is a shorthand or a full type url (C16 payload table).

func gspecMsgs(w *World, spec string, auth string) ([]sdk.Msg, error) {
	var out []sdk.Msg
	for _, item := range strings.Split(spec, ";") {
		item = strings.TrimSpace(item)
		if item == "" || item == "text" {
			continue
		}
		kind, a := gparseItem(item)
		au := auth
		if a.Has("auth") { // per-message authority override (literal)
			au = a.Str("auth")
		}
		m, _, err := gmsg(w, kind, a, au)
		if err != nil {
			return nil, err
		}
		out = append(out, m)
	}
	return out, nil
}

func gparseItem(item string) (string, Args) {
	a := Args{}
	kind := item
	if i := strings.Index(item, ":"); i >= 0 {
		kind = item[:i]
		for _, kv := range strings.Split(item[i+1:], ",") {
			if j := strings.Index(kv, "="); j > 0 {
				a[kv[:j]] = kv[j+1:]
			}
		}
	}
	return kind, a
}

func gitem(kind string, kv ...interface{}) string {
	var sb strings.Builder
	sb.WriteString(kind)
	for i := 0; i+1 < len(kv); i += 2 {
		if i == 0 {
			sb.WriteByte(':')
		} else {
			sb.WriteByte(',')
		}
		fmt.Fprintf(&sb, "%v=%v", kv[i], kv[i+1])
	}
	return sb.String()
}

var gshort = map[string]string{
	"ccparams":     "/fx.gravity.crosschain.v1.MsgUpdateParams",
	"ccoracles":    "/fx.gravity.crosschain.v1.MsgUpdateChainOracles",
	"erc20params":  "/fx.erc20.v1.MsgUpdateParams",
	"regcoin":      "/fx.erc20.v1.MsgRegisterCoin",
	"regerc20":     "/fx.erc20.v1.MsgRegisterERC20",
	"toggle":       "/fx.erc20.v1.MsgToggleTokenConversion",
	"alias":        "/fx.erc20.v1.MsgUpdateDenomAlias",
	"callcontract": "/fx.evm.v1.MsgCallContract",
	"store":        "/fx.gov.v1.MsgUpdateStore",
	"switch":       "/fx.gov.v1.MsgUpdateSwitchParams",
	"custom":       "/fx.gov.v1.MsgUpdateCustomParams",
	"spend":        "/cosmos.distribution.v1beta1.MsgCommunityPoolSpend",
	"send":         "/cosmos.bank.v1beta1.MsgSend", // a non-privileged type for mixed-type attempts
	"verifyinv":    "/cosmos.crisis.v1beta1.MsgVerifyInvariant",
	"legacytext":   "/cosmos.gov.v1.MsgExecLegacyContent", // a v1beta1 text proposal wrapped the way the legacy submit path wraps it
}

// gmsg builds one message. handwritten reports whether the payload is a hand-written valid
// one (true) or produced by the reflection filler (false).
func gmsg(w *World, kind string, a Args, auth string) (m sdk.Msg, handwritten bool, err error) {
	defer func() { // address resolution panics on malformed names (hand-edited replays)
		if rec := recover(); rec != nil {
			m, err = nil, fmt.Errorf("gmsg: %v", rec)
		}
	}()
	url := kind
	if u, ok := gshort[kind]; ok {
		url = u
	}
	ctx := w.Ctx()
	def := func(k, d string) string {
		if a.Has(k) {
			return a.Str(k)
		}
		return d
	}
	shape := a.Str("shape")
	if shape == "zero" {
		mm, e := gfill(w, url, auth)
		return mm, false, e
	}
	switch url {
	case "/cosmos.bank.v1beta1.MsgSend":
		amt := sdkmath.NewInt(1)
		if a.Has("amount") {
			amt = a.SdkInt("amount")
		}
		return banktypes.NewMsgSend(gmustAddr(w, auth), gmustAddr(w, def("to", "user/0")), sdk.NewCoins(sdk.NewCoin(fxtypes.DefaultDenom, amt))), true, nil
	case "/cosmos.gov.v1.MsgExecLegacyContent":
		lc, err := govv1.NewLegacyContent(govv1beta1.NewTextProposal(def("title", "legacy text"), def("desc", "a legacy text proposal")), auth)
		return lc, true, err
	case "/cosmos.crisis.v1beta1.MsgVerifyInvariant":
		// the handler panics by design when the named invariant is broken
		return &crisistypes.MsgVerifyInvariant{Sender: auth, InvariantModuleName: def("module", "gov"), InvariantRoute: def("route", "module-account")}, true, nil
	case "/fx.gravity.crosschain.v1.MsgUpdateParams":
		chain := def("chain", "eth")
		k, ok := gccKeeper(w, chain)
		if !ok {
			return nil, true, fmt.Errorf("chain %s", chain)
		}
		p := k.GetParams(ctx)
		if a.Has("window") {
			p.SignedWindow = a.U64("window")
		}
		return &cctypes.MsgUpdateParams{ChainName: chain, Authority: auth, Params: p}, true, nil
	case "/fx.gravity.crosschain.v1.MsgUpdateChainOracles":
		chain := def("chain", "eth")
		n := 2
		if a.Has("n") {
			n = a.Int("n")
		}
		if shape == "empty-list" {
			n = 0
		}
		var list []string
		for i := 0; i < n; i++ {
			list = append(list, w.Key("oracle", OracleKeyIdx(0, i)).Bech())
		}
		return &cctypes.MsgUpdateChainOracles{ChainName: chain, Authority: auth, Oracles: list}, true, nil
	case "/fx.erc20.v1.MsgUpdateParams":
		p := w.App.Erc20Keeper.GetParams(ctx)
		if a.Has("timeout") {
			p.IbcTimeout = time.Duration(a.I64("timeout")) * time.Second
		}
		return &erc20types.MsgUpdateParams{Authority: auth, Params: p}, true, nil
	case "/fx.erc20.v1.MsgRegisterCoin":
		sym := def("symbol", "TKA")
		var aliases []string
		for _, c := range AllChains {
			if c == "tron" {
				continue
			}
			aliases = append(aliases, cctypes.NewBridgeDenom(c, ExtAddrStr(c, common.BytesToAddress(ethcrypto.Keccak256([]byte("fxsim/gov/" + c + "/" + sym))[12:]))))
		}
		md := fxtypes.GetCrossChainMetadataManyToOne(sym+" token", sym, 18, aliases...)
		return &erc20types.MsgRegisterCoin{Authority: auth, Metadata: md}, true, nil
	case "/fx.erc20.v1.MsgRegisterERC20":
		return &erc20types.MsgRegisterERC20{Authority: auth, Erc20Address: def("addr", common.BytesToAddress([]byte("fxsim-no-such-erc20")).Hex())}, true, nil
	case "/fx.erc20.v1.MsgToggleTokenConversion":
		return &erc20types.MsgToggleTokenConversion{Authority: auth, Token: def("token", fxtypes.DefaultDenom)}, true, nil
	case "/fx.erc20.v1.MsgUpdateDenomAlias":
		if shape == "existing-alias" { // removal form: an alias that a registered coin has
			var found *erc20types.MsgUpdateDenomAlias
			w.App.BankKeeper.IterateAllDenomMetaData(ctx, func(md banktypes.Metadata) bool {
				if len(md.DenomUnits) > 0 && len(md.DenomUnits[0].Aliases) > 1 {
					found = &erc20types.MsgUpdateDenomAlias{Authority: auth, Denom: md.Base, Alias: md.DenomUnits[0].Aliases[0]}
					return true
				}
				return false
			})
			if found != nil {
				return found, true, nil
			}
		}
		return &erc20types.MsgUpdateDenomAlias{Authority: auth, Denom: def("denom", "tka"), Alias: def("alias", "ethfxsimalias")}, true, nil
	case "/fx.evm.v1.MsgCallContract":
		// default: WFX.approve(0x..01, marker)
		data := def("data", "095ea7b3"+hex.EncodeToString(common.LeftPadBytes([]byte{1}, 32))+hex.EncodeToString(common.LeftPadBytes(sdkmath.NewInt(int64(a.Int("marker")+1)).BigInt().Bytes(), 32)))
		return &fxevmtypes.MsgCallContract{Authority: auth, ContractAddress: def("to", gWFXAddr(w)), Data: data}, true, nil
	case "/fx.gov.v1.MsgUpdateStore":
		// keys/old/new are '|' separated lists of equal length
		keys, olds, news := strings.Split(def("key", "f0"), "|"), strings.Split(a.Str("old"), "|"), strings.Split(a.Str("new"), "|")
		if shape == "noop" || shape == "delete-form" || shape == "repeated-key" {
			// aimed at a key that exists: the first key of the gov store
			space, k0, v0 := "gov", "", ""
			if kv := w.Prefix(ctx, space, nil); len(kv) > 0 {
				k0, v0 = hex.EncodeToString(kv[0][0]), hex.EncodeToString(kv[0][1])
			}
			a = A("space", space)
			switch shape {
			case "noop":
				keys, olds, news = []string{k0}, []string{v0}, []string{v0}
			case "delete-form":
				keys, olds, news = []string{k0}, []string{v0}, []string{""}
			default:
				keys, olds, news = []string{k0, k0}, []string{v0, v0}, []string{v0 + "01", v0 + "02"}
			}
		}
		var us []fxgovtypes.UpdateStore
		spaces := strings.Split(def("space", "migrate"), "|") // one space for all entries, or one per entry
		for i, k := range keys {
			u := fxgovtypes.UpdateStore{Space: spaces[min(i, len(spaces)-1)], Key: k}
			if i < len(olds) {
				u.OldValue = olds[i]
			}
			if i < len(news) {
				u.Value = news[i]
			}
			us = append(us, u)
		}
		return &fxgovtypes.MsgUpdateStore{Authority: auth, UpdateStores: us}, true, nil
	case "/fx.gov.v1.MsgUpdateSwitchParams":
		p := fxgovtypes.SwitchParams{}
		if s := a.Str("msgs"); s != "" {
			p.DisableMsgTypes = strings.Split(s, "|")
		}
		if s := a.Str("precompiles"); s != "" {
			p.DisablePrecompiles = strings.Split(s, "|")
		}
		return &fxgovtypes.MsgUpdateSwitchParams{Authority: auth, Params: p}, true, nil
	case "/fx.gov.v1.MsgUpdateCustomParams":
		mm := &fxgovtypes.MsgUpdateCustomParams{Authority: auth, MsgUrl: def("url", "/fx.erc20.v1.MsgUpdateParams")}
		switch shape {
		case "delete-existing": // the delete form aimed at an entry that exists (first in key order)
			_ = w.App.GovKeeper.CustomerParams.Walk(ctx, nil, func(u string, _ fxgovtypes.CustomParams) (bool, error) {
				mm.MsgUrl = u
				return true, nil
			})
			return mm, true, nil
		case "delete-missing":
			mm.MsgUrl = "/fxsim.NoSuchMsg"
			return mm, true, nil
		}
		if !a.Bool("remove") {
			lit := func(v string) string { // spellings the item syntax cannot carry
				switch v {
				case "EMPTY":
					return ""
				case "SPACE":
					return " "
				}
				return v
			}
			mm.CustomParams = *fxgovtypes.NewCustomParams(lit(def("ratio", "0")), time.Duration(a.I64("period"))*time.Second, lit(def("quorum", "0.3")))
			if !a.Has("period") {
				mm.CustomParams.VotingPeriod = func() *time.Duration { d := 1000 * time.Second; return &d }()
			}
		}
		return mm, true, nil
	case "/cosmos.distribution.v1beta1.MsgCommunityPoolSpend":
		amt := sdkmath.NewInt(1)
		if a.Has("amount") {
			amt = a.SdkInt("amount")
		}
		if shape == "zero-amount" {
			return &distrtypes.MsgCommunityPoolSpend{Authority: auth, Recipient: gmustAddr(w, def("to", "rcpt/0")).String(), Amount: sdk.Coins{}}, true, nil
		}
		return &distrtypes.MsgCommunityPoolSpend{Authority: auth, Recipient: gmustAddr(w, def("to", "rcpt/0")).String(), Amount: sdk.NewCoins(sdk.NewCoin(fxtypes.DefaultDenom, amt))}, true, nil
	case "/cosmos.distribution.v1beta1.MsgUpdateParams":
		p, e := w.App.DistrKeeper.Params.Get(ctx)
		return &distrtypes.MsgUpdateParams{Authority: auth, Params: p}, true, e
	case "/cosmos.bank.v1beta1.MsgUpdateParams":
		return &banktypes.MsgUpdateParams{Authority: auth, Params: w.App.BankKeeper.GetParams(ctx)}, true, nil
	case "/cosmos.bank.v1beta1.MsgSetSendEnabled":
		if shape == "use-default" {
			return &banktypes.MsgSetSendEnabled{Authority: auth, UseDefaultFor: []string{fxtypes.DefaultDenom}}, true, nil
		}
		return &banktypes.MsgSetSendEnabled{Authority: auth, SendEnabled: []*banktypes.SendEnabled{{Denom: fxtypes.DefaultDenom, Enabled: false}}}, true, nil
	case "/cosmos.staking.v1beta1.MsgUpdateParams":
		p, e := w.App.StakingKeeper.GetParams(ctx)
		if a.Has("max_entries") {
			p.MaxEntries = uint32(a.Int("max_entries"))
		}
		return &stakingtypes.MsgUpdateParams{Authority: auth, Params: p}, true, e
	case "/cosmos.slashing.v1beta1.MsgUpdateParams":
		p, e := w.App.SlashingKeeper.GetParams(ctx)
		return &slashingtypes.MsgUpdateParams{Authority: auth, Params: p}, true, e
	case "/cosmos.mint.v1beta1.MsgUpdateParams":
		p, e := w.App.MintKeeper.Params.Get(ctx)
		return &minttypes.MsgUpdateParams{Authority: auth, Params: p}, true, e
	case "/cosmos.gov.v1.MsgUpdateParams":
		p, e := w.App.GovKeeper.Params.Get(ctx)
		return &govv1.MsgUpdateParams{Authority: auth, Params: p}, true, e
	case "/cosmos.auth.v1beta1.MsgUpdateParams":
		return &authtypes.MsgUpdateParams{Authority: auth, Params: w.App.AccountKeeper.GetParams(ctx)}, true, nil
	case "/cosmos.crisis.v1beta1.MsgUpdateParams":
		return &crisistypes.MsgUpdateParams{Authority: auth, ConstantFee: sdk.NewCoin(fxtypes.DefaultDenom, sdkmath.NewInt(13))}, true, nil
	case "/cosmos.consensus.v1.MsgUpdateParams":
		cp, e := w.App.ConsensusParamsKeeper.ParamsStore.Get(ctx)
		return &consensustypes.MsgUpdateParams{Authority: auth, Block: cp.Block, Evidence: cp.Evidence, Validator: cp.Validator, Abci: cp.Abci}, true, e
	case "/cosmos.upgrade.v1beta1.MsgSoftwareUpgrade":
		return &upgradetypes.MsgSoftwareUpgrade{Authority: auth, Plan: upgradetypes.Plan{Name: "fxsim-upgrade", Height: w.Height + 1_000_000}}, true, nil
	case "/cosmos.upgrade.v1beta1.MsgCancelUpgrade":
		return &upgradetypes.MsgCancelUpgrade{Authority: auth}, true, nil
	case "/ethermint.evm.v1.MsgUpdateParams":
		return &etherminttypes.MsgUpdateParams{Authority: auth, Params: w.App.EvmKeeper.GetParams(ctx)}, true, nil
	case "/ethermint.feemarket.v1.MsgUpdateParams":
		return &feemarkettypes.MsgUpdateParams{Authority: auth, Params: w.App.FeeMarketKeeper.GetParams(ctx)}, true, nil
	}
	// reflection filler: an instance of the registered type with only its signer field set
	mm, e := gfill(w, url, auth)
	return mm, false, e
}

// gWFXAddr is the address of the wrapped-FX token contract (registered at genesis for FX).
func gWFXAddr(w *World) string {
	if pair, ok := w.App.Erc20Keeper.GetTokenPair(w.Ctx(), fxtypes.DefaultDenom); ok {
		return pair.Erc20Address
	}
	return common.Address{}.Hex()
}

// gfill instantiates the Go type registered for url and sets the field named by its
// cosmos.msg.v1.signer option (default "authority") to auth.
func gfill(w *World, url, auth string) (sdk.Msg, error) {
	pm, err := w.App.InterfaceRegistry().Resolve(url)
	if err != nil {
		return nil, err
	}
	field := gsignerField(url)
	if field == "" {
		field = "authority"
	}
	v := reflect.ValueOf(pm)
	if v.Kind() != reflect.Ptr || v.Elem().Kind() != reflect.Struct {
		return nil, fmt.Errorf("not a struct message")
	}
	st := v.Elem()
	for i := 0; i < st.NumField(); i++ {
		tag := st.Type().Field(i).Tag.Get("protobuf")
		if strings.Contains(","+tag+",", ",name="+field+",") && st.Field(i).Kind() == reflect.String {
			st.Field(i).SetString(auth)
			m, ok := pm.(sdk.Msg)
			if !ok {
				return nil, fmt.Errorf("not an sdk.Msg")
			}
			return m, nil
		}
	}
	return nil, fmt.Errorf("no string field %q in %s", field, url)
}

// ---------------------------------------------------------------------------------------
// tx kinds of the gov engine (signer resolution through gaddr: legacy keys work)

func init() {
	fxc := func(a sdkmath.Int) sdk.Coin { return sdk.NewCoin(fxtypes.DefaultDenom, a) }
	valAddr := func(w *World, i int) string { return w.Key("val", i).Val().String() }
	RegisterTx("g_send", func(w *World, t *Tx) (*Built, error) {
		denom := t.A.Str("denom")
		if denom == "" {
			denom = fxtypes.DefaultDenom
		}
		return &Built{Msgs: []sdk.Msg{banktypes.NewMsgSend(gmustAddr(w, t.S), gmustAddr(w, t.A.Str("to")), sdk.NewCoins(sdk.NewCoin(denom, t.A.SdkInt("amount"))))}}, nil
	})
	// "valof" names the validator by its operator's key instead of by genesis index
	valOf := func(w *World, t *Tx) string {
		if t.A.Has("valof") {
			return sdk.ValAddress(gmustAddr(w, t.A.Str("valof"))).String()
		}
		return valAddr(w, t.A.Int("val"))
	}
	RegisterTx("g_delegate", func(w *World, t *Tx) (*Built, error) {
		return &Built{Msgs: []sdk.Msg{stakingtypes.NewMsgDelegate(gmustAddr(w, t.S).String(), valOf(w, t), fxc(t.A.SdkInt("amount")))}}, nil
	})
	RegisterTx("g_undelegate", func(w *World, t *Tx) (*Built, error) {
		return &Built{Msgs: []sdk.Msg{stakingtypes.NewMsgUndelegate(gmustAddr(w, t.S).String(), valOf(w, t), fxc(t.A.SdkInt("amount")))}}, nil
	})
	RegisterTx("g_redelegate", func(w *World, t *Tx) (*Built, error) {
		return &Built{Msgs: []sdk.Msg{stakingtypes.NewMsgBeginRedelegate(gmustAddr(w, t.S).String(), valAddr(w, t.A.Int("val")), valAddr(w, t.A.Int("dst")), fxc(t.A.SdkInt("amount")))}}, nil
	})
	RegisterTx("g_withdraw", func(w *World, t *Tx) (*Built, error) {
		return &Built{Msgs: []sdk.Msg{distrtypes.NewMsgWithdrawDelegatorReward(gmustAddr(w, t.S).String(), valAddr(w, t.A.Int("val")))}}, nil
	})
	RegisterTx("g_deposit", func(w *World, t *Tx) (*Built, error) {
		if t.A.Bool("legacy") { // the v1beta1 message: another Msg service, the same rules
			return &Built{Msgs: []sdk.Msg{govv1beta1.NewMsgDeposit(gmustAddr(w, t.S), t.A.U64("id"), sdk.NewCoins(fxc(t.A.SdkInt("amount"))))}}, nil
		}
		return &Built{Msgs: []sdk.Msg{govv1.NewMsgDeposit(gmustAddr(w, t.S), t.A.U64("id"), sdk.NewCoins(fxc(t.A.SdkInt("amount"))))}}, nil
	})
	// g_vote: opts = "1" or weighted "1:0.6|3:0.4" (option:weight)
	RegisterTx("g_vote", func(w *World, t *Tx) (*Built, error) {
		voter := gmustAddr(w, t.S)
		parts := strings.Split(t.A.Str("opts"), "|")
		if len(parts) == 1 && !strings.Contains(parts[0], ":") {
			if t.A.Bool("legacy") {
				return &Built{Msgs: []sdk.Msg{govv1beta1.NewMsgVote(voter, t.A.U64("id"), govv1beta1.VoteOption(t.A.Int("opts")))}}, nil
			}
			return &Built{Msgs: []sdk.Msg{govv1.NewMsgVote(voter, t.A.U64("id"), govv1.VoteOption(t.A.Int("opts")), "")}}, nil
		}
		var opts govv1.WeightedVoteOptions
		for _, p := range parts {
			var o int
			var wt string
			if i := strings.Index(p, ":"); i > 0 {
				fmt.Sscan(p[:i], &o)
				wt = p[i+1:]
			}
			opts = append(opts, &govv1.WeightedVoteOption{Option: govv1.VoteOption(o), Weight: wt})
		}
		return &Built{Msgs: []sdk.Msg{govv1.NewMsgVoteWeighted(voter, t.A.U64("id"), opts, "")}}, nil
	})
	// g_submit: spec (message spec, authority = gov unless items override), deposit, expedited, title
	RegisterTx("g_submit", func(w *World, t *Tx) (*Built, error) {
		msgs, err := gspecMsgs(w, t.A.Str("spec"), w.GovAuthority())
		if err != nil {
			return nil, err
		}
		title := t.A.Str("title")
		if title == "" {
			title = "t"
		}
		dep := sdk.NewCoins()
		if d := t.A.SdkInt("deposit"); d.IsPositive() {
			dep = sdk.NewCoins(fxc(d))
		}
		m, err := govv1.NewMsgSubmitProposal(msgs, dep, gmustAddr(w, t.S).String(), "meta:"+title, title, "summary of "+title, t.A.Bool("expedited"))
		if err != nil {
			return nil, err
		}
		return &Built{Msgs: []sdk.Msg{m}}, nil
	})
	// g_grant: generic authz grant for a type url
	RegisterTx("g_grant", func(w *World, t *Tx) (*Built, error) {
		exp := w.Now.Add(1000 * time.Hour)
		m, err := authz.NewMsgGrant(gmustAddr(w, t.S), gmustAddr(w, t.A.Str("grantee")), authz.NewGenericAuthorization(t.A.Str("url")), &exp)
		if err != nil {
			return nil, err
		}
		return &Built{Msgs: []sdk.Msg{m}}, nil
	})
	// g_priv: a privileged message with a literal authority string through an entry path:
	// path 1 = plain signed tx, 2 = authz MsgExec by the signer, 3 = proposal by the signer
	RegisterTx("g_priv", func(w *World, t *Tx) (*Built, error) {
		kind, a := gparseItem(t.A.Str("item"))
		m, _, err := gmsg(w, kind, a, t.A.Str("auth"))
		if err != nil {
			return nil, err
		}
		switch t.A.Int("path") {
		case 1:
			return &Built{Msgs: []sdk.Msg{m}}, nil
		case 2:
			ex := authz.NewMsgExec(gmustAddr(w, t.S), []sdk.Msg{m})
			return &Built{Msgs: []sdk.Msg{&ex}}, nil
		case 3:
			p, _ := w.App.GovKeeper.Params.Get(w.Ctx())
			sp, err := govv1.NewMsgSubmitProposal([]sdk.Msg{m}, sdk.NewCoins(p.MinDeposit...), gmustAddr(w, t.S).String(), "", "wrong authority", "wrong authority", false)
			if err != nil {
				return nil, err
			}
			return &Built{Msgs: []sdk.Msg{sp}}, nil
		}
		return nil, fmt.Errorf("path")
	})
	// g_create_validator: the signer becomes a validator operator (consensus key ConsKey(1000+idx))
	RegisterTx("g_create_validator", func(w *World, t *Tx) (*Built, error) {
		role, idx := ParseKeyName(t.S)
		if role != "leg" {
			idx += 1000 // consensus keys of operators with other key roles stay apart from the legacy ones
		}
		pk, err := cryptocodec.FromCmtPubKeyInterface(ConsKey(1000 + idx).PubKey())
		if err != nil {
			return nil, err
		}
		m, err := stakingtypes.NewMsgCreateValidator(sdk.ValAddress(gmustAddr(w, t.S)).String(), pk, fxc(t.A.SdkInt("amount")),
			stakingtypes.Description{Moniker: t.S}, stakingtypes.NewCommissionRates(sdkmath.LegacyNewDecWithPrec(5, 2), sdkmath.LegacyNewDecWithPrec(5, 1), sdkmath.LegacyNewDecWithPrec(1, 2)), sdkmath.OneInt())
		if err != nil {
			return nil, err
		}
		return &Built{Msgs: []sdk.Msg{m}}, nil
	})
	// g_create_vesting: the signer funds a new vesting account `to` (end = absolute unix time)
	RegisterTx("g_create_vesting", func(w *World, t *Tx) (*Built, error) {
		return &Built{Msgs: []sdk.Msg{vestingtypes.NewMsgCreateVestingAccount(gmustAddr(w, t.S), gmustAddr(w, t.A.Str("to")), sdk.NewCoins(fxc(t.A.SdkInt("amount"))), t.A.I64("end"), t.A.Bool("delayed"))}}, nil
	})
	// g_migrate: MsgMigrateAccount from the signer to key `to`; the signature is made by
	// `sigkey` (default: to) over the pair (sigfrom default: signer, sigto default: to).
	RegisterTx("g_migrate", func(w *World, t *Tx) (*Built, error) {
		from := gmustAddr(w, t.S)
		toKey := w.KeyByName(t.A.Str("to"))
		sigKey := toKey
		if t.A.Has("sigkey") {
			sigKey = w.KeyByName(t.A.Str("sigkey"))
			if strings.HasPrefix(t.A.Str("sigkey"), "leg/") { // a legacy key signs (same curve, used as an ethereum key)
				sk := gsign(w, t.A.Str("sigkey")).Priv.Bytes()
				ek, err := ethcrypto.ToECDSA(sk)
				if err != nil {
					return nil, err
				}
				sigKey = &Key{Role: "leg", ECDSA: ek}
			}
		}
		sf, st := from.Bytes(), toKey.Hex().Bytes()
		if t.A.Has("sigfrom") {
			sf = gmustAddr(w, t.A.Str("sigfrom")).Bytes()
		}
		if t.A.Has("sigto") {
			st = gmustAddr(w, t.A.Str("sigto")).Bytes()
		}
		sig, err := ethSign(migratetypes.MigrateAccountSignatureHash(sf, st), sigKey)
		if err != nil {
			return nil, err
		}
		return &Built{Msgs: []sdk.Msg{migratetypes.NewMsgMigrateAccount(from, toKey.Hex(), hex.EncodeToString(sig))}}, nil
	})
}

var _ = codectypes.NewAnyWithValue
