package sim

import (
	"bytes"
	"crypto/sha256"
	"encoding/hex"
	"fmt"
	"sort"

	storetypes "cosmossdk.io/store/types"
	sdk "github.com/cosmos/cosmos-sdk/types"
)

// Dump is a full copy of every KV store: store name -> (key -> value).
type Dump map[string]map[string][]byte

func (w *World) StoreNames() []string {
	var names []string
	for n := range w.App.GetKVStoreKey() {
		names = append(names, n)
	}
	sort.Strings(names)
	return names
}

// DumpCtx copies all KV stores visible through ctx.
func (w *World) DumpCtx(ctx sdk.Context) Dump {
	d := Dump{}
	keys := w.App.GetKVStoreKey()
	for _, n := range w.StoreNames() {
		m := map[string][]byte{}
		it := ctx.KVStore(keys[n]).Iterator(nil, nil)
		for ; it.Valid(); it.Next() {
			v := it.Value()
			c := make([]byte, len(v))
			copy(c, v)
			m[string(it.Key())] = c
		}
		it.Close()
		d[n] = m
	}
	return d
}

func (w *World) Dump() Dump { return w.DumpCtx(w.Ctx()) }

// Hash is a digest of the dump (deterministic).
func (d Dump) Hash() string {
	h := sha256.New()
	var names []string
	for n := range d {
		names = append(names, n)
	}
	sort.Strings(names)
	for _, n := range names {
		var ks []string
		for k := range d[n] {
			ks = append(ks, k)
		}
		sort.Strings(ks)
		h.Write([]byte(n))
		for _, k := range ks {
			h.Write([]byte(k))
			h.Write(d[n][k])
		}
	}
	return hex.EncodeToString(h.Sum(nil))[:16]
}

type DiffEntry struct {
	Store string
	Key   []byte
	A, B  []byte // nil = absent
}

func (e DiffEntry) String() string {
	return fmt.Sprintf("%s/%x: %s -> %s", e.Store, e.Key, short(e.A), short(e.B))
}

func short(b []byte) string {
	if b == nil {
		return "<absent>"
	}
	if len(b) > 40 {
		return fmt.Sprintf("%x…(%d)", b[:40], len(b))
	}
	return fmt.Sprintf("%x", b)
}

// Diff lists all keys whose value differs between a and b, in deterministic order.
func Diff(a, b Dump) []DiffEntry {
	var out []DiffEntry
	names := map[string]bool{}
	for n := range a {
		names[n] = true
	}
	for n := range b {
		names[n] = true
	}
	var ns []string
	for n := range names {
		ns = append(ns, n)
	}
	sort.Strings(ns)
	for _, n := range ns {
		ks := map[string]bool{}
		for k := range a[n] {
			ks[k] = true
		}
		for k := range b[n] {
			ks[k] = true
		}
		var kl []string
		for k := range ks {
			kl = append(kl, k)
		}
		sort.Strings(kl)
		for _, k := range kl {
			av, aok := a[n][k]
			bv, bok := b[n][k]
			if aok && bok && bytes.Equal(av, bv) {
				continue
			}
			e := DiffEntry{Store: n, Key: []byte(k)}
			if aok {
				e.A = av
				if e.A == nil {
					e.A = []byte{}
				}
			}
			if bok {
				e.B = bv
				if e.B == nil {
					e.B = []byte{}
				}
			}
			out = append(out, e)
		}
	}
	return out
}

// FilterDiff removes entries for which ignore returns true.
func FilterDiff(d []DiffEntry, ignore func(DiffEntry) bool) []DiffEntry {
	var out []DiffEntry
	for _, e := range d {
		if !ignore(e) {
			out = append(out, e)
		}
	}
	return out
}

// Prefix returns the sorted (key,value) pairs of one store under a key prefix.
func (w *World) Prefix(ctx sdk.Context, store string, prefix []byte) [][2][]byte {
	key := w.App.GetKVStoreKey()[store]
	var out [][2][]byte
	end := storetypes.PrefixEndBytes(prefix)
	it := ctx.KVStore(key).Iterator(prefix, end)
	defer it.Close()
	for ; it.Valid(); it.Next() {
		k := append([]byte{}, it.Key()...)
		v := append([]byte{}, it.Value()...)
		out = append(out, [2][]byte{k, v})
	}
	return out
}
