package sim

import (
	"bytes"
	"encoding/hex"
	"fmt"
	"math/big"
	"sort"
	"strings"

	sdkmath "cosmossdk.io/math"
	sdk "github.com/cosmos/cosmos-sdk/types"
	"github.com/ethereum/go-ethereum/common"
	"github.com/ethereum/go-ethereum/core"
	ethtypes "github.com/ethereum/go-ethereum/core/types"
	evmtypes "github.com/evmos/ethermint/x/evm/types"

	cctypes "github.com/functionx/fx-core/v8/x/crosschain/types"
)

// ---------------------------------------------------------------------------------------
// C18 (b): inbound bridge call whose token conversion or contract call fails.

func c18AccOf(a common.Address) string { return sdk.AccAddress(a.Bytes()).String() }

// c18Variant is one way of running the SAME inbound bridge call: the callee mode carried in
// `data` and the faults injected into the branch before the call is executed.
type c18Variant struct {
	Mode    *big.Int // callee mode word
	Gas     uint64   // BridgeCallMaxGasLimit forced on the branch (0 = committed value)
	Disable string   // base denom whose token pair is disabled on the branch
	Path    string   // "k" keeper.ExecuteClaim, "e" EVM message to the executeClaim precompile
}

func (v c18Variant) String() string {
	return fmt.Sprintf("m=%s,g=%d,d=%s,p=%s", v.Mode.Text(16), v.Gas, v.Disable, v.Path)
}

func c18ParseVariant(s string) (c18Variant, bool) {
	v := c18Variant{Mode: big.NewInt(0), Path: "k"}
	if s == "" {
		return v, false
	}
	for _, kv := range strings.Split(s, ",") {
		i := strings.Index(kv, "=")
		if i < 0 {
			return v, false
		}
		val := kv[i+1:]
		switch kv[:i] {
		case "m":
			if _, ok := v.Mode.SetString(val, 16); !ok {
				return v, false
			}
		case "g":
			fmt.Sscan(val, &v.Gas)
		case "d":
			v.Disable = val
		case "p":
			if val == "e" {
				v.Path = "e"
			}
		}
	}
	return v, true
}

// faultKind names the failure this variant provokes (for sites and probes).
func (v c18Variant) faultKind() string {
	switch {
	case v.Disable != "":
		return "pair-disabled"
	case v.Gas > 0:
		return "gas-limit"
	}
	return "callee-" + c18EndNames[c18ModeEnd(v.Mode)%len(c18EndNames)]
}

// c18CallIn is the inbound bridge call itself (everything but the mode word).
type c18CallIn struct {
	Syms     []string
	Amts     []*big.Int
	To       common.Address
	ToKind   string // callee | eoa
	Refund   common.Address
	Sender   common.Address
	TxOrigin common.Address
	Memo     []byte
	From     common.Address // EVM sender of the executeClaim message (path e)
}

func (in *c18CallIn) claim(w *World, ch *ChainSt, nonce uint64, mode *big.Int) *cctypes.MsgBridgeCallClaim {
	m := &cctypes.MsgBridgeCallClaim{
		ChainName: ch.Name, BridgerAddress: ch.bridgerKey(w, 0).Bech(), EventNonce: nonce, BlockHeight: ch.Ext.Height,
		Sender: ExtAddrStr(ch.Name, in.Sender), Refund: ExtAddrStr(ch.Name, in.Refund), To: ExtAddrStr(ch.Name, in.To),
		Data: hex.EncodeToString(word(mode.Bytes())), Value: sdkmath.ZeroInt(), Memo: hex.EncodeToString(in.Memo), TxOrigin: ExtAddrStr(ch.Name, in.TxOrigin),
	}
	for i, sym := range in.Syms {
		for _, t := range ch.Tokens {
			if t.Symbol == sym {
				m.TokenContracts = append(m.TokenContracts, ExtAddrStr(ch.Name, t.Contract))
				m.Amounts = append(m.Amounts, sdkmath.NewIntFromBigInt(in.Amts[i]))
			}
		}
	}
	return m
}

func (in *c18CallIn) receiver() common.Address {
	if cctypes.IsMemoSendCallTo(in.Memo) {
		return in.Sender
	}
	return in.To
}

type c18CallRes struct {
	V       c18Variant
	Pre     Dump
	Post    Dump
	Outcome string // refund | success | refused | panic
	Err     string
	Cause   string // error cause of the tolerated failure (event attribute)
	Refund  *cctypes.OutgoingBridgeCall
	Nonce   uint64
	GasUsed uint64
}

func c18Memo(s string) []byte {
	switch s {
	case "":
		return nil
	case "sendcallto":
		return cctypes.MemoSendCallTo.Bytes()
	}
	b, _ := hex.DecodeString(s)
	return b
}

func (e C18Engine) parseCallIn(r *Run, a Args) (*c18CallIn, bool) {
	in := &c18CallIn{}
	var ok bool
	if in.To, ok = c18Addr(r, a.Str("to")); !ok {
		return nil, false
	}
	in.ToKind = "eoa"
	if strings.HasPrefix(a.Str("to"), "callee/") {
		in.ToKind = "callee"
	}
	if in.Refund, ok = c18Addr(r, a.Str("refund")); !ok {
		return nil, false
	}
	if in.Sender, ok = c18Addr(r, a.Str("sender")); !ok {
		return nil, false
	}
	in.TxOrigin = in.Sender
	if a.Has("origin") {
		if in.TxOrigin, ok = c18Addr(r, a.Str("origin")); !ok {
			return nil, false
		}
	}
	in.From = r.W.Key("user", 0).Hex()
	if a.Has("from") {
		if in.From, ok = c18Addr(r, a.Str("from")); !ok {
			return nil, false
		}
	}
	in.Memo = c18Memo(a.Str("memo"))
	amts := strings.Split(a.Str("amts"), ",")
	for i, sym := range strings.Split(a.Str("syms"), ",") {
		if sym == "" || i >= len(amts) {
			continue
		}
		n, ok := new(big.Int).SetString(amts[i], 10)
		if !ok || n.Sign() <= 0 {
			return nil, false
		}
		in.Syms = append(in.Syms, sym)
		in.Amts = append(in.Amts, n)
	}
	return in, true
}

// runCallVariant executes the call under one variant on a fresh branch of the committed state.
func (e C18Engine) runCallVariant(r *Run, ch *ChainSt, in *c18CallIn, v c18Variant, preCache map[string]Dump) *c18CallRes {
	w := r.W
	k := ch.keeper(w)
	ctx := w.branchCtx()
	res := &c18CallRes{V: v}
	// injected faults (the keys they write are excluded from comparisons as pre-state differences)
	if v.Gas > 0 {
		p := k.GetParams(ctx)
		p.BridgeCallMaxGasLimit = v.Gas
		if err := k.SetParams(ctx, &p); err != nil {
			res.Outcome, res.Err = "panic", err.Error()
			return res
		}
	}
	if v.Disable != "" {
		if pair, ok := w.App.Erc20Keeper.GetTokenPair(ctx, v.Disable); ok && pair.Enabled {
			if _, err := w.App.Erc20Keeper.ToggleTokenConvert(ctx, v.Disable); err != nil {
				res.Outcome, res.Err = "panic", err.Error()
				return res
			}
		}
	}
	// the pre-state depends on the injected faults only
	pk := fmt.Sprintf("%d|%s", v.Gas, v.Disable)
	if d, ok := preCache[pk]; ok {
		res.Pre = d
	} else {
		res.Pre = w.DumpCtx(ctx)
		preCache[pk] = res.Pre
	}
	nonce := k.GetLastObservedEventNonce(ctx) + 1
	res.Nonce = nonce
	claim := in.claim(w, ch, nonce, v.Mode)
	func() {
		defer func() {
			if rec := recover(); rec != nil {
				res.Outcome, res.Err = "panic", fmt.Sprint(rec)
			}
		}()
		if err := k.AttestationHandler(ctx, claim); err != nil {
			res.Outcome, res.Err = "panic", "attestation handler: "+err.Error()
			return
		}
		switch v.Path {
		case "e":
			data, err := cctypes.GetABI().Pack("executeClaim", ch.Name, new(big.Int).SetUint64(nonce))
			if err != nil {
				res.Outcome, res.Err = "panic", err.Error()
				return
			}
			to := cctypes.GetAddress()
			msg := &core.Message{From: in.From, To: &to, Nonce: w.App.EvmKeeper.GetNonce(ctx, in.From), Value: big.NewInt(0), GasLimit: 25_000_000,
				GasPrice: big.NewInt(0), GasFeeCap: big.NewInt(0), GasTipCap: big.NewInt(0), Data: data, AccessList: ethtypes.AccessList{}}
			rsp, err := w.App.EvmKeeper.ApplyMessage(ctx, msg, evmtypes.NewNoOpTracer(), true)
			if err != nil {
				res.Err = err.Error()
			} else if rsp.VmError != "" {
				res.Err = rsp.VmError
				res.GasUsed = rsp.GasUsed
			} else {
				res.GasUsed = rsp.GasUsed
			}
		default:
			cctx, commit := ctx.CacheContext()
			if err := k.ExecuteClaim(cctx, nonce); err != nil {
				res.Err = err.Error()
				res.Cause = c18ErrCause(cctx.EventManager().Events()) // events of a failed tx are dropped
			} else {
				commit()
			}
		}
	}()
	res.Post = w.DumpCtx(ctx)
	if res.Outcome == "panic" {
		return res
	}
	if c := c18ErrCause(ctx.EventManager().Events()); c != "" {
		res.Cause = c
	}
	_, pending := k.GetPendingExecuteClaim(ctx, nonce)
	var refund *cctypes.OutgoingBridgeCall
	k.IterateOutgoingBridgeCalls(ctx, func(oc *cctypes.OutgoingBridgeCall) bool {
		if oc.EventNonce == nonce {
			refund = oc
			return true
		}
		return false
	})
	switch {
	case refund != nil:
		res.Outcome, res.Refund = "refund", refund
	case pending || res.Err != "":
		res.Outcome = "refused"
	default:
		res.Outcome = "success"
	}
	return res
}

// c18ErrCause: the error cause of the tolerated contract-call failure (bridge_call_event).
func c18ErrCause(evs sdk.Events) string {
	cause := ""
	for _, ev := range evs {
		if ev.Type == cctypes.EventTypeBridgeCallEvent {
			for _, at := range ev.Attributes {
				if at.Key == cctypes.AttributeKeyErrCause {
					cause = at.Value
				}
			}
		}
	}
	return cause
}

func c18CauseClass(cause string) string {
	c := strings.ToLower(cause)
	switch {
	case strings.Contains(c, "not enabled by governance"):
		return "pair-disabled"
	case strings.Contains(c, "out of gas"):
		return "out-of-gas"
	case strings.Contains(c, "intrinsic gas"):
		return "intrinsic-gas"
	case strings.Contains(c, "invalid opcode"):
		return "invalid-opcode"
	case strings.Contains(c, "execution reverted"):
		return "reverted"
	case strings.Contains(c, "does not exist"), strings.Contains(c, "not found"):
		return "missing-object"
	case c == "":
		return "none"
	}
	return "other"
}

// c18KeyClass names a store key for sites: store + first key byte (+ a readable name for the
// well known ones).
func c18KeyClass(e DiffEntry) string {
	if len(e.Key) == 0 {
		return e.Store
	}
	name := fmt.Sprintf("%s/0x%02x", e.Store, e.Key[0])
	switch e.Store {
	case "bank":
		switch e.Key[0] {
		case 0x00:
			name = "bank/supply"
		case 0x02:
			name = "bank/balance"
		case 0x03:
			name = "bank/denom-owner-index"
		}
	case "evm":
		switch e.Key[0] {
		case 0x01:
			name = "evm/code"
		case 0x02:
			name = "evm/storage"
		}
	case "acc":
		name = "acc/account"
		if e.Key[0] != 0x01 {
			name = fmt.Sprintf("acc/0x%02x", e.Key[0])
		}
	}
	return name
}

func c18IsAuthKeyOf(e DiffEntry, a common.Address) bool {
	return e.Store == "acc" && len(e.Key) == 21 && e.Key[0] == 0x01 && bytes.Equal(e.Key[1:], a.Bytes())
}

// c18RefundAllowed: keys that make up the designated outcome of a failed inbound bridge call
// (the refund record) plus account bookkeeping that is not value: brand-new auth accounts and
// the global account number counter.
func c18RefundAllowed(e DiffEntry, chain string) bool {
	switch e.Store {
	case chain:
		if len(e.Key) == 0 {
			return false
		}
		switch e.Key[0] {
		case 0x48, 0x49: // outgoing bridge call + its (sender, nonce) index
			return e.A == nil
		case 0x25:
			return bytes.Equal(e.Key, cctypes.KeyLastBridgeCallID)
		}
	case "acc":
		// new account records / account-number index entries, and the global account number
		if e.A == nil {
			return true
		}
		return len(e.Key) == 1 && e.Key[0] == 0x02 // collections sequence "global account number"
	}
	return false
}

func c18DiffKeySet(d []DiffEntry) map[string]bool {
	m := map[string]bool{}
	for _, e := range d {
		m[e.Store+"\x00"+string(e.Key)] = true
	}
	return m
}

func (e C18Engine) applyCall(r *Run, s *Step, o *Outcome) {
	st := bst(r)
	cs := c18st(r)
	ch := st.chain(s.A.Str("chain"))
	if ch == nil || !ch.Ext.Inited {
		o.Note = "no chain"
		return
	}
	in, ok := e.parseCallIn(r, s.A)
	if !ok {
		o.Note = "unresolvable call"
		return
	}
	var vars []c18Variant
	for _, d := range strings.Split(s.A.Str("vars"), ";") {
		if v, ok := c18ParseVariant(d); ok {
			vars = append(vars, v)
		}
	}
	if len(vars) == 0 {
		o.Note = "no variants"
		return
	}
	shape := in.ToKind
	if cctypes.IsMemoSendCallTo(in.Memo) {
		shape += "+sendcallto"
	}
	if in.receiver() == in.Refund {
		shape += "/refund=receiver"
	} else {
		shape += "/refund!=receiver"
	}
	var results []*c18CallRes
	preCache := map[string]Dump{}
	for _, v := range vars {
		res := e.runCallVariant(r, ch, in, v, preCache)
		results = append(results, res)
		r.Probe("b:variant")
		r.Probe("b:outcome:" + res.Outcome + ":" + v.faultKind())
		if res.Outcome == "refund" {
			r.Fault("b:" + v.faultKind())
			r.Probe("b:cause:" + c18CauseClass(res.Cause))
			r.State(fmt.Sprintf("b|%s|%s|%s|tok%d|p%s", shape, v.faultKind(), c18CauseClass(res.Cause), len(in.Syms), v.Path))
		}
		if res.Outcome == "panic" {
			o.Note += " panic:" + firstLine(res.Err)
		}
		if r.Verbose {
			fmt.Printf("      variant %s -> %s err=%q cause=%q gas=%d\n", v, res.Outcome, firstLine(res.Err), firstLine(res.Cause), res.GasUsed)
		}
	}
	// ---- designated outcome only
	for _, res := range results {
		switch res.Outcome {
		case "refund":
			e.judgeRefundOutcome(r, ch, in, res, shape)
		case "refused":
			// the whole execution was rejected: nothing but the parked claim may be there
			d := FilterDiff(Diff(res.Pre, res.Post), func(x DiffEntry) bool {
				if x.Store == ch.Name && len(x.Key) > 0 && x.Key[0] == 0x54 {
					return true
				}
				return res.V.Path == "e" && c18IsAuthKeyOf(x, in.From)
			})
			if len(d) > 0 {
				cs.violate("rejected-execution-no-effects", "bridge-call/"+c18KeyClass(d[0]), "%s %s: executeClaim was rejected (%s) but state changed:%s", shape, res.V, firstLine(res.Err), c18DiffText(d, 4))
			}
			r.Probe("b:refused:" + c18RefuseClass(res.Err))
			if res.Cause != "" {
				// the tolerated failure happened (bridge_call_event emitted) and fxcore went on to
				// record the refund - which failed, so the whole execution was rejected and the
				// claim stays parked: the designated outcome is missing
				r.Probe("b:refund-impossible")
				site := "bridge-call/refund-failed/" + c18RefuseClass(res.Err)
				if in.receiver() != in.Refund && strings.Contains(res.Err, "insufficient funds") {
					site = "bridge-call/refund-not-fundable-from-refund-address"
				}
				cs.violate("refund-recorded", site, "%s %s: the call failed (%s) and fxcore went on to record the refund, but the refund failed (%s): executeClaim is rejected as a whole, the claim stays parked and can never be executed or refunded while the callee keeps failing",
					shape, res.V, firstLine(res.Cause), firstLine(res.Err))
			}
		}
	}
	// ---- fail-late == fail-first
	ref := results[0]
	if ref.Outcome != "refund" {
		r.Probe("b:reference-not-a-tolerated-failure:" + ref.Outcome)
		return
	}
	for _, res := range results[1:] {
		if res.Outcome != "refund" {
			continue
		}
		r.Nontrivial = true
		r.Probe("b:compared")
		r.Probe("b:compared:" + res.V.faultKind() + ":" + c18ModeName(res.V.Mode))
		fault := c18DiffKeySet(Diff(ref.Pre, res.Pre))
		d := FilterDiff(Diff(ref.Post, res.Post), func(x DiffEntry) bool {
			if fault[x.Store+"\x00"+string(x.Key)] {
				return true
			}
			return (res.V.Path == "e") != (ref.V.Path == "e") && c18IsAuthKeyOf(x, in.From)
		})
		if len(d) > 0 {
			site := fmt.Sprintf("bridge-call/%s/%s", res.V.faultKind(), c18KeyClass(d[0]))
			if res.V.Path == "e" {
				site += "/via-precompile"
			}
			cs.violate("fail-late-equals-fail-first", site, "%s: inbound call %v->%s failing late (%s: %s) leaves state different from the same call failing first (%s):%s",
				shape, in.Syms, in.ToKind, res.V, firstLine(res.Cause), ref.V, c18DiffText(d, 4))
		}
	}
}

func c18RefuseClass(err string) string {
	e := strings.ToLower(err)
	switch {
	case strings.Contains(e, "insufficient"):
		return "insufficient-funds"
	case strings.Contains(e, "not allowed to receive"):
		return "blocked-receiver"
	case strings.Contains(e, "module account"):
		return "sender-is-module"
	case strings.Contains(e, "bridge denom not found"), strings.Contains(e, "not found"):
		return "unknown-token"
	case strings.Contains(e, "reverted"):
		return "evm-reverted"
	}
	return "other"
}

// judgeRefundOutcome: after a tolerated failure the state differs from the pre-state by the
// refund record only, and the record carries all tokens, amounts and the refund address.
func (e C18Engine) judgeRefundOutcome(r *Run, ch *ChainSt, in *c18CallIn, res *c18CallRes, shape string) {
	cs := c18st(r)
	r.Probe("b:outcome-judged")
	// the record
	want := map[string]*big.Int{}
	for i, sym := range in.Syms {
		for _, t := range ch.Tokens {
			if t.Symbol == sym {
				k := ExtAddrStr(ch.Name, t.Contract)
				if want[k] == nil {
					want[k] = big.NewInt(0)
				}
				want[k].Add(want[k], in.Amts[i])
			}
		}
	}
	got := map[string]*big.Int{}
	for _, t := range res.Refund.Tokens {
		if got[t.Contract] == nil {
			got[t.Contract] = big.NewInt(0)
		}
		got[t.Contract].Add(got[t.Contract], t.Amount.BigInt())
	}
	okTokens := len(want) == len(got)
	for k, v := range want {
		if got[k] == nil || got[k].Cmp(v) != 0 {
			okTokens = false
		}
	}
	refundStr := ExtAddrStr(ch.Name, in.Refund)
	if !okTokens || res.Refund.Refund != refundStr || res.Refund.Sender != refundStr || res.Refund.EventNonce != res.Nonce {
		cs.violate("refund-record-complete", "bridge-call/"+res.V.faultKind(), "%s %s: refund record %v does not carry exactly the call's tokens %v / refund address %s", shape, res.V, res.Refund, c18FmtTokMap(want), refundStr)
	}
	// nothing else
	d := FilterDiff(Diff(res.Pre, res.Post), func(x DiffEntry) bool {
		if c18RefundAllowed(x, ch.Name) {
			return true
		}
		return res.V.Path == "e" && c18IsAuthKeyOf(x, in.From)
	})
	if len(d) > 0 {
		site := "bridge-call/" + c18KeyClass(d[0])
		if in.receiver() != in.Refund && c18OnlyBalancesOf(d, in.receiver(), in.Refund) {
			// value is conserved but misplaced: the deposit made for the call stays with the
			// receiver and the refund is paid out of the refund address' own balance
			site = "bridge-call/deposit-stays-with-receiver-refund-paid-by-refund-address"
		}
		cs.violate("designated-outcome-only", site, "%s %s (cause %q): besides the refund record the failed inbound call left:%s", shape, res.V, firstLine(res.Cause), c18DiffText(d, 6))
	}
}

// c18OnlyBalancesOf: every entry is a bank balance (or denom-owner index) key of a or b.
func c18OnlyBalancesOf(d []DiffEntry, a, b common.Address) bool {
	for _, e := range d {
		if e.Store != "bank" || len(e.Key) == 0 || (e.Key[0] != 0x02 && e.Key[0] != 0x03) {
			return false
		}
		if !bytes.Contains(e.Key, a.Bytes()) && !bytes.Contains(e.Key, b.Bytes()) {
			return false
		}
	}
	return true
}

func c18FmtTokMap(m map[string]*big.Int) string {
	var ks []string
	for k := range m {
		ks = append(ks, k)
	}
	sort.Strings(ks)
	var sb strings.Builder
	for _, k := range ks {
		fmt.Fprintf(&sb, "%s:%s ", k, m[k])
	}
	return sb.String()
}
