package sim

import (
	"encoding/json"
	"fmt"
	"time"

	sdkmath "cosmossdk.io/math"
	dbm "github.com/cosmos/cosmos-db"
	sdk "github.com/cosmos/cosmos-sdk/types"
	authtypes "github.com/cosmos/cosmos-sdk/x/auth/types"
	banktypes "github.com/cosmos/cosmos-sdk/x/bank/types"
	transfertypes "github.com/cosmos/ibc-go/v8/modules/apps/transfer/types"

	fxtypes "github.com/functionx/fx-core/v8/types"
)

// ibcSeed describes IBC history that exists at genesis: a voucher that was received over
// (transfer, channel) before the simulated period, as on a chain that has been running IBC
// for a while. The matching FX sits in the escrow account of the peer channel (loop-back:
// the counter-party is the same app), so ICS-20 conservation holds at genesis.
type ibcSeed struct {
	Chan     string // receiving channel of the voucher, e.g. channel-1
	PeerChan string // the channel whose escrow backs it, e.g. channel-0
	Module   sdkmath.Int
	PerUser  sdkmath.Int
}

// newIbcWorld is NewWorld with an IBC history patched into the genesis.
func newIbcWorld(cfg Config, seeds []ibcSeed, moduleFX sdkmath.Int) (*World, error) {
	w := &World{Cfg: cfg, keys: map[string]*Key{}, AbsentVals: map[int]bool{}}
	w.DB = dbm.NewMemDB()
	w.App = NewApp(w.DB, cfg.NodeOpts)
	gen, err := w.buildGenesis()
	if err != nil {
		return nil, err
	}
	if len(seeds) > 0 || moduleFX.IsPositive() {
		if gen, err = w.ibcPatchGenesis(gen, seeds, moduleFX); err != nil {
			return nil, err
		}
	}
	if err := w.InitChain(gen); err != nil {
		return nil, err
	}
	if _, halt := w.RunBlock(nil, 5*time.Second); halt != nil {
		return nil, fmt.Errorf("first block: %s %s", halt.Phase, halt.Msg)
	}
	return w, nil
}

func (w *World) ibcPatchGenesis(gen []byte, seeds []ibcSeed, moduleFX sdkmath.Int) ([]byte, error) {
	cdc := w.App.AppCodec()
	gs := map[string]json.RawMessage{}
	if err := json.Unmarshal(gen, &gs); err != nil {
		return nil, err
	}
	var bankGen banktypes.GenesisState
	cdc.MustUnmarshalJSON(gs[banktypes.ModuleName], &bankGen)
	var trGen transfertypes.GenesisState
	cdc.MustUnmarshalJSON(gs[transfertypes.ModuleName], &trGen)
	add := func(addr sdk.AccAddress, c sdk.Coin) {
		if !c.Amount.IsPositive() {
			return
		}
		for i := range bankGen.Balances {
			if bankGen.Balances[i].Address == addr.String() {
				bankGen.Balances[i].Coins = bankGen.Balances[i].Coins.Add(c)
				return
			}
		}
		bankGen.Balances = append(bankGen.Balances, banktypes.Balance{Address: addr.String(), Coins: sdk.NewCoins(c)})
	}
	for _, s := range seeds {
		path := ibcPort + "/" + s.Chan
		v := ibcVoucherDenom(path, fxtypes.DefaultDenom)
		trGen.DenomTraces = append(trGen.DenomTraces, transfertypes.DenomTrace{Path: path, BaseDenom: fxtypes.DefaultDenom})
		total := s.Module
		add(authtypes.NewModuleAddress(transfertypes.ModuleName), sdk.NewCoin(v, s.Module))
		for i := 0; i < w.Cfg.Users; i++ {
			add(w.Key("user", i).Acc(), sdk.NewCoin(v, s.PerUser))
			total = total.Add(s.PerUser)
		}
		add(transfertypes.GetEscrowAddress(ibcPort, s.PeerChan), sdk.NewCoin(fxtypes.DefaultDenom, total))
		trGen.TotalEscrowed = trGen.TotalEscrowed.Add(sdk.NewCoin(fxtypes.DefaultDenom, total))
	}
	if moduleFX.IsPositive() {
		// FX held by the transfer module account itself (anybody can put it there with an EVM value transfer)
		add(authtypes.NewModuleAddress(transfertypes.ModuleName), sdk.NewCoin(fxtypes.DefaultDenom, moduleFX))
	}
	trGen.DenomTraces = trGen.DenomTraces.Sort()
	gs[banktypes.ModuleName] = cdc.MustMarshalJSON(&bankGen)
	gs[transfertypes.ModuleName] = cdc.MustMarshalJSON(&trGen)
	return json.Marshal(gs)
}
