package sim

import (
	"bytes"
	"encoding/hex"
	"fmt"
	"math/big"
	"math/rand/v2"
	"reflect"
	"sort"
	"strings"
	"time"

	sdkmath "cosmossdk.io/math"
	codectypes "github.com/cosmos/cosmos-sdk/codec/types"
	sdk "github.com/cosmos/cosmos-sdk/types"
	authtypes "github.com/cosmos/cosmos-sdk/x/auth/types"
	"github.com/ethereum/go-ethereum/common"
	ethcrypto "github.com/ethereum/go-ethereum/crypto"

	fxtypes "github.com/functionx/fx-core/v8/types"
	cckeeper "github.com/functionx/fx-core/v8/x/crosschain/keeper"
	cctypes "github.com/functionx/fx-core/v8/x/crosschain/types"
	erc20types "github.com/functionx/fx-core/v8/x/erc20/types"
	fxgovtypes "github.com/functionx/fx-core/v8/x/gov/types"
)

// ---------------------------------------------------------------------------------------
// BRIDGE engine: oracles, external chains, relayer, users, governance around x/crosschain.

type OracleActor struct {
	I      int
	KeyIdx int
	Cursor uint64 // last external event nonce this oracle claimed successfully (generator hint)
	Bonded bool
	Stake  sdkmath.Int

	CrashClaims   bool
	CrashConfirms bool
	Byz           bool
	Lag           int
}

type TokenInfo struct {
	Symbol   string
	Base     string         // base denom on fxcore
	Contract common.Address // token contract on the external chain
	Kind     string         // fx | module | erc20
	Added    bool           // add_token event emitted
}

type ChainSt struct {
	CI      int
	Name    string
	Cfg     ChainCfg
	Ext     *ExtChain
	Oracles []*OracleActor
	Tokens  []*TokenInfo
	Liar    string // oracle designated as the minority liar (fault minority-liar)
}

type BridgeSt struct {
	Chains []*ChainSt
	Setup  []Step // pending setup steps (generation mode)
	Chk    *bridgeChecks
	NUsers int
	// generator memory
	Proposed map[string]bool
	Flooded  map[string]bool
	Raced    map[string]bool
	Race     *raceSt
	Edge     *edgeSt
	Evm      *EvmSt // extension state of the EVM engine
}

type BridgeEngine struct{}

func (BridgeEngine) Name() string { return "bridge" }

func (c *ChainSt) keeper(w *World) cckeeper.Keeper {
	switch c.Name {
	case "eth":
		return w.App.EthKeeper
	case "bsc":
		return w.App.BscKeeper
	case "polygon":
		return w.App.PolygonKeeper
	case "tron":
		return w.App.TronKeeper
	case "avalanche":
		return w.App.AvalancheKeeper
	case "arbitrum":
		return w.App.ArbitrumKeeper
	case "optimism":
		return w.App.OptimismKeeper
	case "layer2":
		return w.App.Layer2Keeper
	}
	panic("unknown chain " + c.Name)
}

func (c *ChainSt) oracleKey(w *World, i int) *Key  { return w.Key("oracle", w.Cfg.OKI(c.CI, i)) }
func (c *ChainSt) bridgerKey(w *World, i int) *Key { return w.Key("bridger", w.Cfg.OKI(c.CI, i)) }
func (c *ChainSt) extKey(w *World, i int) *Key     { return w.Key("ext", w.Cfg.OKI(c.CI, i)) }
func (c *ChainSt) extAddrStr(w *World, i int) string {
	return ExtAddrStr(c.Name, c.extKey(w, i).Hex())
}

func tokenContract(chain, symbol string) common.Address {
	return common.BytesToAddress(ethcrypto.Keccak256([]byte("fxsim/token/" + chain + "/" + symbol))[12:])
}

func (st *BridgeSt) chain(name string) *ChainSt {
	for _, c := range st.Chains {
		if c.Name == name {
			return c
		}
	}
	return nil
}

func bst(r *Run) *BridgeSt { return r.St.(*BridgeSt) }

// ---------------------------------------------------------------------------------------
// configuration (swarm)

var bridgeFaultKinds = []string{"drop", "delay", "dup-msg", "dup-bytes", "foreign-wrap", "crash-claims", "crash-confirms", "lag", "conflicting-claim", "double-vote", "skip-vote", "bad-signature", "membership", "val-downtime", "clock-jump", "ext-stall", "ext-burst", "relayer-late", "relayer-ooo", "relayer-after-cancel"}

func (BridgeEngine) GenConfig(rng *rand.Rand, prop string, tier string) RunConfig {
	cfg := DefaultConfig()
	cfg.Validators = 1 + rng.IntN(3)
	cfg.ValStakeFX = nil
	for i := 0; i < cfg.Validators; i++ {
		cfg.ValStakeFX = append(cfg.ValStakeFX, int64(500_000+rng.IntN(1_000_000)))
	}
	cfg.Users = 3 + rng.IntN(3)
	cfg.UnbondingSec = int64(600 + rng.IntN(7200))
	cfg.GovVotingSec = int64(300 + rng.IntN(3000))
	cfg.GovDepositSec = cfg.GovVotingSec
	cfg.NoInflation = rng.IntN(3) == 0
	nChains := 1
	if rng.IntN(3) == 0 {
		nChains = 2
	}
	names := []string{"eth", "bsc", "polygon", "avalanche", "arbitrum", "optimism", "layer2", "tron"}
	if prop == "C12" && rng.IntN(2) == 0 {
		nChains = 2
		names = []string{"tron"} // TRON has its own checkpoint encoder and signed-message prefix
	}
	rng.Shuffle(len(names), func(i, j int) { names[i], names[j] = names[j], names[i] })
	// eth always first: it is the chain that carries FX itself
	chains := []string{"eth"}
	for _, n := range names {
		if len(chains) >= nChains {
			break
		}
		if n != "eth" {
			chains = append(chains, n)
		}
	}
	cfg.Chains = nil
	for _, n := range chains {
		c := DefaultChainCfg(n)
		c.Oracles = 1 + rng.IntN(5)
		if rng.IntN(8) == 0 {
			c.Oracles = 6 + rng.IntN(3)
		}
		if prop == "C02" && rng.IntN(16) == 0 {
			c.Oracles = 20 + rng.IntN(31) // sparse runs with large oracle sets
		}
		c.SignedWindow = uint64(3 + rng.IntN(30))
		c.AvgBlockTimeMs = uint64(1000 + rng.IntN(9000))
		c.AvgExtBlockTimeMs = uint64(500 + rng.IntN(14000))
		c.BatchTimeoutMs = uint64(60_000 + rng.IntN(600_000))
		c.BridgeCallTimeoutMs = uint64(3_600_001 + rng.IntN(600_000))
		c.SlashFractionPct = int64([]int{0, 1, 10, 50, 80, 100}[rng.IntN(6)])
		c.PowerChangePct = int64([]int{0, 5, 10, 30, 100}[rng.IntN(5)])
		c.DelegateThresholdFX = int64([]int{100, 1000, 10_000}[rng.IntN(3)])
		c.DelegateMultiple = int64(1 + rng.IntN(10))
		cfg.Chains = append(cfg.Chains, c)
	}
	if len(cfg.Chains) > 1 && (prop == "C13" || prop == "C12" || prop == "C02" || prop == "C01" || prop == "C07") && rng.IntN(100) < 40 {
		// one operator serves both bridges with the same oracle, bridger and external keys
		cfg.SharedOracles = true
		for i := range cfg.Chains {
			cfg.Chains[i].Oracles = cfg.Chains[0].Oracles
		}
	}
	rc := RunConfig{World: cfg, Steps: 60 + rng.IntN(140), Weights: map[string]int{}, Knobs: map[string]string{}}
	if tier == "thorough" {
		rc.Steps = 80 + rng.IntN(320)
	}
	rc.Knobs["ext_start_height"] = fmt.Sprint([]int{1, 3, 40, 1000, 1000, 5_000_000}[rng.IntN(6)])
	if (prop == "C04" || prop == "C07" || prop == "C03") && rng.IntN(100) < 35 {
		// an IBC voucher is one more representation of the bridged coin (alias), a loop-back channel is open and
		// deposits may name an IBC target; the transfer module's voucher stock may or may not cover them
		rc.World.IbcVoucher = &IbcVoucherCfg{Chan: "channel-0", Base: "xusd", ModuleStock: []string{"0", "700", "60000", "1000000000000"}[rng.IntN(4)]}
	}
	// swarm: a random subset of fault kinds
	for _, f := range bridgeFaultKinds {
		if rng.IntN(100) < 45 {
			rc.Faults = append(rc.Faults, f)
		}
	}
	base := map[string]int{
		"claim": 30, "confirm": 20, "send": 8, "cancel": 3, "incfee": 3, "batch": 5, "callout": 4, "exec": 8,
		"ext-event": 10, "ext-height": 6, "relay": 6, "churn": 4, "gov": 2, "empty": 4, "jump": 1, "adv": 3, "actor": 2, "rejoin": 1, "rebond-cycle": 0,
	}
	for _, k := range sortedKeys(base) {
		v := base[k]
		f := []int{1, 1, 1, 2, 4}[rng.IntN(5)]
		if rng.IntN(2) == 0 {
			rc.Weights[k] = v * f
		} else {
			rc.Weights[k] = (v + f - 1) / f
		}
	}
	if prop == "C01" || prop == "C02" || prop == "C07" || prop == "C13" || prop == "C03" {
		rc.Faults = appendUniq(rc.Faults, "offline-claims")
	}
	// property-specific bias
	switch prop {
	case "C07":
		rc.Weights["confirm"] = rc.Weights["confirm"] / 3
		rc.Weights["empty"] *= 3
		rc.Faults = appendUniq(rc.Faults, "crash-confirms")
	case "C13":
		rc.Faults = removeStr(rc.Faults, "conflicting-claim")
		rc.Faults = appendUniq(rc.Faults, "crash-confirms")
		rc.Weights["rebond-cycle"] = 3
		rc.Weights["rejoin"] = rc.Weights["rejoin"]*4 + 4
		rc.Weights["actor"] = rc.Weights["actor"]*2 + 2
		rc.Weights["churn"] *= 4
		rc.Weights["jump"] *= 3
		rc.Faults = appendUniq(rc.Faults, "membership")
	case "C01":
		rc.Weights["rebond-cycle"] = 3
	case "C02":
		rc.Weights["rejoin"] = rc.Weights["rejoin"]*3 + 3
		rc.Weights["actor"] = rc.Weights["actor"]*2 + 2
		rc.Weights["adv"] *= 2
		rc.Faults = appendUniq(rc.Faults, "crash-confirms")
		rc.Weights["rebond-cycle"] = 3
		rc.Weights["churn"] *= 2
		rc.Knobs["boundary-stakes"] = "1"
	case "C05", "C06", "C04":
		if rng.IntN(3) == 0 {
			rc.Weights["flood"] = 3 // more queued transfers of one token than a batch can take
		}
		rc.Weights["race2"] = 4 // only chains with two bridged tokens run it
		rc.Weights["edge"] = 5  // timeout boundary: an event observed in the very last external block in which the object can still run
		if prop == "C06" && rng.IntN(2) == 0 {
			rc.Faults = appendUniq(rc.Faults, "minority-liar")
		}
		rc.Faults = removeStr(rc.Faults, "conflicting-claim") // a lying quorum invalidates what these oracles assume about the external chain
		rc.Weights["send"] *= 2
		rc.Weights["batch"] *= 2
		rc.Weights["relay"] *= 2
	}
	if rc.World.IbcVoucher != nil {
		// parked deposits must actually be executed for the IBC leg to run
		rc.Weights["exec"] *= 4
		rc.Weights["ext-event"] *= 2
	}
	return rc
}

func removeStr(l []string, s string) []string {
	var out []string
	for _, x := range l {
		if x != s {
			out = append(out, x)
		}
	}
	return out
}

func appendUniq(l []string, s string) []string {
	for _, x := range l {
		if x == s {
			return l
		}
	}
	return append(l, s)
}

// ---------------------------------------------------------------------------------------
// init & setup

func (e BridgeEngine) Init(r *Run) error {
	w, err := NewWorld(r.Cfg.World)
	if err != nil {
		return err
	}
	r.W = w
	st := &BridgeSt{NUsers: r.Cfg.World.Users, Proposed: map[string]bool{}, Flooded: map[string]bool{}, Raced: map[string]bool{}}
	for ci, c := range r.Cfg.World.Chains {
		cs := &ChainSt{CI: ci, Name: c.Name, Cfg: c, Ext: NewExtChain(c.Name, c.GravityID)}
		if h := r.Cfg.KnobInt("ext_start_height", 0); h > 0 {
			cs.Ext.Height = uint64(h)
		}
		for i := 0; i < c.Oracles*2+2; i++ {
			cs.Oracles = append(cs.Oracles, &OracleActor{I: i, KeyIdx: r.Cfg.World.OKI(ci, i), Stake: sdkmath.ZeroInt()})
		}
		if c.Name == "eth" {
			cs.Tokens = append(cs.Tokens, &TokenInfo{Symbol: "FX", Base: "FX", Contract: tokenContract(c.Name, "FX"), Kind: "fx"})
		}
		cs.Tokens = append(cs.Tokens, &TokenInfo{Symbol: "USDT", Base: "usdt", Contract: tokenContract(c.Name, "USDT"), Kind: "module"})
		st.Chains = append(st.Chains, cs)
	}
	st.Chk = newBridgeChecks(r, st)
	r.St = st
	e.installStatefulBuilders(r)
	installIbcChanBuilders()
	if !r.Replay {
		st.Setup = e.setupSteps(r, st)
	}
	return nil
}

func (e BridgeEngine) setupSteps(r *Run, st *BridgeSt) []Step {
	var out []Step
	rng := r.Rng
	// 1. bond oracles on every chain
	var bonds []Tx
	for _, c := range st.Chains {
		n := c.Cfg.Oracles
		for i := 0; i < n; i++ {
			thr := c.Cfg.DelegateThresholdFX
			mult := c.Cfg.DelegateMultiple
			amt := FX(thr + int64(rng.IntN(int(thr*(mult-1)+1))))
			if r.Cfg.Knob("boundary-stakes") == "1" {
				// stakes in whole power units close to each other so that subsets land near 66%
				amt = FX(thr).Add(sdk.DefaultPowerReduction.MulRaw(int64(rng.IntN(int(minI64(thr*(mult-1)/100+1, 40))))))
			}
			bonds = append(bonds, Tx{K: "bond", S: KeyName("oracle", c.oracleKey(r.W, i).Idx), A: A("chain", c.Name, "o", i, "amount", amt.String(), "val", rng.IntN(r.Cfg.World.Validators))})
		}
	}
	out = append(out, Step{Kind: "block", DtMs: 5000, N: 1, Txs: bonds})
	if r.Prop == "C01" {
		// a contract that re-enters the bridge (executeClaim through the precompile) from inside a bridge call
		out = append(out, Step{Kind: "block", DtMs: 5000, N: 1, Txs: []Tx{
			{K: "eth_call", S: "user/0", A: A("to", "", "data", hex.EncodeToString(InitCode(ForwarderRuntime())), "value", "0"), Gas: 3_000_000},
		}})
	}
	if r.Prop == "C04" || r.Prop == "C05" || r.Prop == "C06" {
		// a contract that accepts any call and any value: inbound bridge calls with a value find a callee (the
		// callback sender holds nothing, half of the time it is given a little)
		txs := []Tx{{K: "eth_call", S: "user/0", A: A("to", "", "data", hex.EncodeToString(InitCode(RecorderRuntime())), "value", "0"), Gas: 3_000_000}}
		if r.Prop == "C04" {
			// and one that re-enters the bridge from inside a bridge call (second contract of user/0)
			txs = append(txs, Tx{K: "eth_call", S: "user/0", A: A("to", "", "data", hex.EncodeToString(InitCode(ForwarderRuntime())), "value", "0"), Gas: 3_000_000})
		}
		if rng.IntN(2) == 0 {
			cb := common.BytesToAddress(authtypes.NewModuleAddress(cctypes.ModuleName))
			txs = append(txs, Tx{K: "eth_call", S: "user/0", A: A("to", cb.Hex(), "data", "", "value", "5000"), Gas: 300_000})
		}
		out = append(out, Step{Kind: "block", DtMs: 5000, N: 1, Txs: txs})
	}
	if r.Prop == "C03" {
		// a contract that records value and call data of every call, so that the data / memo / value
		// fields of an executed bridge call are observable; the callback sender gets funds for the values
		cb := common.BytesToAddress(authtypes.NewModuleAddress(cctypes.ModuleName))
		out = append(out, Step{Kind: "block", DtMs: 5000, N: 1, Txs: []Tx{
			{K: "eth_call", S: "user/0", A: A("to", "", "data", hex.EncodeToString(InitCode(RecorderRuntime())), "value", "0"), Gas: 3_000_000},
			{K: "eth_call", S: "user/0", A: A("to", cb.Hex(), "data", "", "value", "1000000000000000000"), Gas: 300_000},
		}})
	}
	// 2. external contracts are deployed with the first oracle set
	for _, c := range st.Chains {
		out = append(out, Step{Kind: "ext", A: A("chain", c.Name, "op", "init")})
	}
	// 3. register the bridged coin through governance (aliases for all chains)
	if v := r.Cfg.World.IbcVoucher; v != nil {
		out = append(out, Step{Kind: "block", DtMs: 5000, N: 1, Txs: []Tx{{K: "bank_send", S: "user/0", A: A("to", r.W.Key("relayer", 0).Bech(), "denom", "FX", "amount", FX(1).String())}}})
		out = append(out,
			Step{Kind: "block", DtMs: 5000, N: 1, Txs: []Tx{{K: "ibc_chan_init", S: ibcRelayer}}},
			Step{Kind: "block", DtMs: 5000, N: 1, Txs: []Tx{{K: "ibc_chan_try", S: ibcRelayer, A: A("cp", "channel-0")}}},
			Step{Kind: "block", DtMs: 5000, N: 1, Txs: []Tx{{K: "ibc_chan_ack", S: ibcRelayer, A: A("ch", "channel-0", "cp", "channel-1")}}},
			Step{Kind: "block", DtMs: 5000, N: 1, Txs: []Tx{{K: "ibc_chan_confirm", S: ibcRelayer, A: A("ch", "channel-1")}}})
		var aliases []string
		for _, c := range st.Chains {
			aliases = append(aliases, cctypes.NewBridgeDenom(c.Name, ExtAddrStr(c.Name, tokenContract(c.Name, "USDT"))))
		}
		aliases = append(aliases, bridgeVoucherDenom(v))
		out = append(out, Step{Kind: "gov", A: A("what", "register_coin", "symbol", "USDT", "decimals", 6, "aliases", strings.Join(aliases, ","))})
	} else {
		out = append(out, Step{Kind: "gov", A: A("what", "register_coin", "symbol", "USDT", "decimals", 6)})
	}
	// 4. tokens on the external chains
	for _, c := range st.Chains {
		for _, t := range c.Tokens {
			out = append(out, Step{Kind: "ext", A: A("chain", c.Name, "op", "add_token", "symbol", t.Symbol)})
		}
	}
	// 5. everybody catches up: claims + confirmations
	for round := 0; round < 4; round++ {
		var txs []Tx
		for _, c := range st.Chains {
			for i := 0; i < c.Cfg.Oracles; i++ {
				txs = append(txs, Tx{K: "claim", S: KeyName("bridger", c.bridgerKey(r.W, i).Idx), A: A("chain", c.Name, "o", i, "n", round+1)})
			}
			if round == 0 {
				for i := 0; i < c.Cfg.Oracles; i++ {
					txs = append(txs, Tx{K: "confirm", S: KeyName("bridger", c.bridgerKey(r.W, i).Idx), A: A("chain", c.Name, "o", i, "type", "oracleset", "nonce", 1)})
				}
			}
		}
		out = append(out, Step{Kind: "block", DtMs: 5000, N: 1, Txs: txs})
	}
	// 6. initial deposits so that users hold bridged value
	for _, c := range st.Chains {
		for u := 0; u < st.NUsers; u++ {
			for _, t := range c.Tokens {
				out = append(out, Step{Kind: "ext", A: A("chain", c.Name, "op", "send_to_fx", "symbol", t.Symbol, "user", u, "amount", big.NewInt(int64(1000+rng.IntN(100000))).String(), "target", "")})
			}
		}
	}
	return out
}

func bridgeVoucherDenom(v *IbcVoucherCfg) string {
	return ibcVoucherDenom("transfer/"+v.Chan, v.Base)
}

func minI64(a, b int64) int64 {
	if a < b {
		return a
	}
	return b
}

// ---------------------------------------------------------------------------------------
// tx builders of the bridge

func init() {
	RegisterTx("bond", func(w *World, t *Tx) (*Built, error) {
		ci, o := chainIdx(w, t.A.Str("chain")), t.A.Int("o")
		if ci < 0 {
			return nil, fmt.Errorf("chain")
		}
		ok, bk, ek := w.Key("oracle", w.Cfg.OKI(ci, o)), w.Key("bridger", w.Cfg.OKI(ci, o)), w.Key("ext", w.Cfg.OKI(ci, o))
		if t.A.Has("bridger") {
			bk = w.KeyByName(t.A.Str("bridger"))
		}
		if t.A.Has("ext") {
			ek = w.KeyByName(t.A.Str("ext"))
		}
		return &Built{Msgs: []sdk.Msg{&cctypes.MsgBondedOracle{
			ChainName: t.A.Str("chain"), OracleAddress: ok.Bech(), BridgerAddress: bk.Bech(),
			ExternalAddress: ExtAddrStr(t.A.Str("chain"), ek.Hex()), ValidatorAddress: w.Key("val", t.A.Int("val")).Val().String(),
			DelegateAmount: sdk.NewCoin(fxtypes.DefaultDenom, t.A.SdkInt("amount")),
		}}}, nil
	})
	RegisterTx("add_delegate", func(w *World, t *Tx) (*Built, error) {
		return &Built{Msgs: []sdk.Msg{&cctypes.MsgAddDelegate{ChainName: t.A.Str("chain"), OracleAddress: w.KeyByName(t.S).Bech(), Amount: sdk.NewCoin(fxtypes.DefaultDenom, t.A.SdkInt("amount"))}}}, nil
	})
	RegisterTx("cc_redelegate", func(w *World, t *Tx) (*Built, error) {
		return &Built{Msgs: []sdk.Msg{&cctypes.MsgReDelegate{ChainName: t.A.Str("chain"), OracleAddress: w.KeyByName(t.S).Bech(), ValidatorAddress: w.Key("val", t.A.Int("val")).Val().String()}}}, nil
	})
	RegisterTx("edit_bridger", func(w *World, t *Tx) (*Built, error) {
		return &Built{Msgs: []sdk.Msg{&cctypes.MsgEditBridger{ChainName: t.A.Str("chain"), OracleAddress: w.KeyByName(t.S).Bech(), BridgerAddress: w.KeyByName(t.A.Str("bridger")).Bech()}}}, nil
	})
	RegisterTx("cc_withdraw_reward", func(w *World, t *Tx) (*Built, error) {
		return &Built{Msgs: []sdk.Msg{&cctypes.MsgWithdrawReward{ChainName: t.A.Str("chain"), OracleAddress: w.KeyByName(t.S).Bech()}}}, nil
	})
	RegisterTx("unbond", func(w *World, t *Tx) (*Built, error) {
		return &Built{Msgs: []sdk.Msg{&cctypes.MsgUnbondedOracle{ChainName: t.A.Str("chain"), OracleAddress: w.KeyByName(t.S).Bech()}}}, nil
	})
	RegisterTx("send_to_external", func(w *World, t *Tx) (*Built, error) {
		return &Built{Msgs: []sdk.Msg{&cctypes.MsgSendToExternal{ChainName: t.A.Str("chain"), Sender: w.KeyByName(t.S).Bech(), Dest: t.A.Str("dest"),
			Amount: sdk.NewCoin(t.A.Str("denom"), t.A.SdkInt("amount")), BridgeFee: sdk.NewCoin(t.A.Str("denom"), t.A.SdkInt("fee"))}}}, nil
	})
	RegisterTx("cancel_send", func(w *World, t *Tx) (*Built, error) {
		return &Built{Msgs: []sdk.Msg{&cctypes.MsgCancelSendToExternal{ChainName: t.A.Str("chain"), Sender: w.KeyByName(t.S).Bech(), TransactionId: t.A.U64("id")}}}, nil
	})
	RegisterTx("increase_fee", func(w *World, t *Tx) (*Built, error) {
		return &Built{Msgs: []sdk.Msg{&cctypes.MsgIncreaseBridgeFee{ChainName: t.A.Str("chain"), Sender: w.KeyByName(t.S).Bech(), TransactionId: t.A.U64("id"), AddBridgeFee: sdk.NewCoin(t.A.Str("denom"), t.A.SdkInt("fee"))}}}, nil
	})
	RegisterTx("request_batch", func(w *World, t *Tx) (*Built, error) {
		return &Built{Msgs: []sdk.Msg{&cctypes.MsgRequestBatch{ChainName: t.A.Str("chain"), Sender: w.KeyByName(t.S).Bech(), Denom: t.A.Str("denom"),
			MinimumFee: t.A.SdkInt("min_fee"), FeeReceive: t.A.Str("fee_receive"), BaseFee: t.A.SdkInt("base_fee")}}}, nil
	})
	RegisterTx("bridge_call", func(w *World, t *Tx) (*Built, error) {
		coins, err := sdk.ParseCoinsNormalized(t.A.Str("coins"))
		if err != nil {
			return nil, err
		}
		return &Built{Msgs: []sdk.Msg{&cctypes.MsgBridgeCall{ChainName: t.A.Str("chain"), Sender: w.KeyByName(t.S).Bech(), Refund: t.A.Str("refund"), Coins: coins,
			To: t.A.Str("to"), Data: t.A.Str("data"), Value: sdkmath.ZeroInt(), Memo: t.A.Str("memo")}}}, nil
	})
	// the same request through the cross-chain precompile: FX travels as msg.value
	RegisterTx("bridge_call_evm", func(w *World, t *Tx) (*Built, error) {
		refund, err := sdk.AccAddressFromBech32(t.A.Str("refund"))
		if err != nil {
			return nil, err
		}
		data, _ := hex.DecodeString(t.A.Str("data"))
		memo, _ := hex.DecodeString(t.A.Str("memo"))
		toAddr := common.HexToAddress(t.A.Str("to"))
		in, err := cctypes.GetABI().Pack("bridgeCall", t.A.Str("chain"), common.BytesToAddress(refund.Bytes()), []common.Address{}, []*big.Int{}, toAddr, data, big.NewInt(0), memo)
		if err != nil {
			return nil, err
		}
		to := cctypes.GetAddress()
		return &Built{Eth: true, To: &to, Value: t.A.Big("value"), Data: in}, nil
	})
	RegisterTx("execute_claim", func(w *World, t *Tx) (*Built, error) {
		data, err := cctypes.GetABI().Pack("executeClaim", t.A.Str("chain"), new(big.Int).SetUint64(t.A.U64("n")))
		if err != nil {
			return nil, err
		}
		to := cctypes.GetAddress()
		return &Built{Eth: true, To: &to, Data: data}, nil
	})
}

func chainIdx(w *World, name string) int {
	for i, c := range w.Cfg.Chains {
		if c.Name == name {
			return i
		}
	}
	return -1
}

// buildClaim turns external event n of chain c into the claim that oracle o submits.
// variant mutates one field ("" = honest).
func (c *ChainSt) buildClaim(w *World, ev *ExtEvent, bridger string, variant string) cctypes.ExternalClaim {
	switch ev.Kind {
	case "oracle_set":
		m := &cctypes.MsgOracleSetUpdatedClaim{EventNonce: ev.Nonce, BlockHeight: ev.Height, OracleSetNonce: ev.SetNonce, BridgerAddress: bridger, ChainName: c.Name}
		for _, mem := range ev.Members {
			m.Members = append(m.Members, cctypes.BridgeValidator{Power: mem.Power, ExternalAddress: ExtAddrStr(c.Name, mem.Addr)})
		}
		return m
	case "add_token":
		return &cctypes.MsgBridgeTokenClaim{EventNonce: ev.Nonce, BlockHeight: ev.Height, TokenContract: ExtAddrStr(c.Name, ev.Token), Name: ev.Name, Symbol: ev.Symbol, Decimals: ev.Decimals, BridgerAddress: bridger, ChannelIbc: "", ChainName: c.Name}
	case "send_to_fx":
		return &cctypes.MsgSendToFxClaim{EventNonce: ev.Nonce, BlockHeight: ev.Height, TokenContract: ExtAddrStr(c.Name, ev.Token), Amount: sdkmath.NewIntFromBigInt(ev.Amount),
			Sender: ExtAddrStr(c.Name, ev.Sender), Receiver: ev.Receiver, TargetIbc: hex.EncodeToString([]byte(ev.Target)), BridgerAddress: bridger, ChainName: c.Name}
	case "batch":
		return &cctypes.MsgSendToExternalClaim{EventNonce: ev.Nonce, BlockHeight: ev.Height, BatchNonce: ev.BatchNonce, TokenContract: ExtAddrStr(c.Name, ev.Token), BridgerAddress: bridger, ChainName: c.Name}
	case "bridge_call":
		m := &cctypes.MsgBridgeCallClaim{ChainName: c.Name, BridgerAddress: bridger, EventNonce: ev.Nonce, BlockHeight: ev.Height, Sender: ExtAddrStr(c.Name, ev.Sender), Refund: ExtAddrStr(c.Name, ev.Refund),
			To: ExtAddrStr(c.Name, ev.To), Data: hex.EncodeToString(ev.Data), Value: sdkmath.NewIntFromBigInt(ev.Value), Memo: hex.EncodeToString(ev.Memo), TxOrigin: ExtAddrStr(c.Name, ev.TxOrigin)}
		for i, t := range ev.Tokens {
			m.TokenContracts = append(m.TokenContracts, ExtAddrStr(c.Name, t))
			m.Amounts = append(m.Amounts, sdkmath.NewIntFromBigInt(ev.Amounts[i]))
		}
		return m
	case "bridge_call_result":
		return &cctypes.MsgBridgeCallResultClaim{ChainName: c.Name, BridgerAddress: bridger, EventNonce: ev.Nonce, BlockHeight: ev.Height, Nonce: ev.CallNonce, TxOrigin: ExtAddrStr(c.Name, ev.TxOrigin), Success: ev.Success, Cause: hex.EncodeToString(ev.Cause)}
	}
	return nil
}

// ---------------------------------------------------------------------------------------
// apply

func (e BridgeEngine) Apply(r *Run, s *Step) *Outcome {
	st := bst(r)
	w := r.W
	st.Chk.before(r, s)
	o := &Outcome{Extra: map[string]string{}}
	switch s.Kind {
	case "block":
		e.resolveTxs(r, s)
		n := s.N
		if n < 1 {
			n = 1
		}
		dt := time.Duration(s.DtMs) * time.Millisecond
		if dt <= 0 {
			dt = 5 * time.Second
		}
		// validator faults for this step
		if s.A != nil && s.A.Has("absent") {
			for _, f := range strings.Split(s.A.Str("absent"), ",") {
				var i int
				if _, err := fmt.Sscan(f, &i); err == nil {
					w.AbsentVals[i] = true
				}
			}
		}
		br := w.DeliverBlock(s.Txs, dt, n-1)
		w.AbsentVals = map[int]bool{}
		o.Txs = br.Out
		o.Halt = br.Halt
		r.SimTimeMs += int64(n) * dt.Milliseconds()
		e.afterTxs(r, o)
	case "ext":
		e.applyExt(r, s, o)
	case "relay":
		e.applyRelay(r, s, o)
	case "gov":
		e.applyGov(r, s, o)
	case "actor":
		e.applyActorFault(r, s, o)
	default:
		o.Note = "unknown step kind"
	}
	return o
}

// resolveTxs fills in the parts of claim/confirm intents that are signatures or encodings
// (they are functions of the concrete arguments and the model state).
func (e BridgeEngine) resolveTxs(r *Run, s *Step) {}

func (e BridgeEngine) installStatefulBuilders(r *Run) {
	st := bst(r)
	RegisterTx("claim", func(w *World, t *Tx) (*Built, error) {
		c := st.chain(t.A.Str("chain"))
		if c == nil {
			return nil, fmt.Errorf("chain")
		}
		ev := c.Ext.Event(t.A.U64("n"))
		if ev == nil {
			return nil, fmt.Errorf("no such external event")
		}
		o := t.A.Int("o")
		inner := c.bridgerKey(w, o).Bech()
		if t.A.Has("inner") { // the bridger named inside the claim (default: the oracle's registered bridger key)
			inner = w.KeyByName(t.A.Str("inner")).Bech()
		}
		claim := c.buildClaim(w, ev, inner, "")
		if claim == nil {
			return nil, fmt.Errorf("claim kind")
		}
		if v := t.A.Str("variant"); v != "" {
			if err := mutateClaim(claim, v, t.A.Str("vval")); err != nil {
				return nil, err
			}
		}
		any, err := codectypes.NewAnyWithValue(claim)
		if err != nil {
			return nil, err
		}
		wrapper := w.KeyByName(t.S).Bech()
		wchain := c.Name
		if t.A.Has("wchain") {
			wchain = t.A.Str("wchain")
		}
		return &Built{Msgs: []sdk.Msg{&cctypes.MsgClaim{ChainName: wchain, BridgerAddress: wrapper, Claim: any}}}, nil
	})
	RegisterTx("confirm", func(w *World, t *Tx) (*Built, error) {
		c := st.chain(t.A.Str("chain"))
		if c == nil {
			return nil, fmt.Errorf("chain")
		}
		return c.buildConfirm(w, t)
	})
}

// buildConfirm builds an (honest or faulty) confirmation. The honest digest comes from the
// independent encoder over the object stored on fxcore.
func (c *ChainSt) buildConfirm(w *World, t *Tx) (*Built, error) {
	o := t.A.Int("o")
	k := c.keeper(w)
	ctx := w.Ctx()
	var digest []byte
	typ := t.A.Str("type")
	nonce := t.A.U64("nonce")
	gid := c.Cfg.GravityID
	if t.A.Has("gid") {
		gid = t.A.Str("gid")
	}
	switch typ {
	case "oracleset":
		os := k.GetOracleSet(ctx, nonce)
		if os == nil {
			return nil, fmt.Errorf("no oracle set %d", nonce)
		}
		digest = OracleSetDigest(gid, os.Nonce, membersOf(c.Name, os))
	case "batch":
		b := k.GetOutgoingTxBatch(ctx, t.A.Str("token"), nonce)
		if b == nil {
			return nil, fmt.Errorf("no batch")
		}
		digest = BatchDigest(gid, extBatchOf(c.Name, b))
	case "bridgecall":
		bc, ok := k.GetOutgoingBridgeCallByNonce(ctx, nonce)
		if !ok {
			return nil, fmt.Errorf("no bridge call")
		}
		digest = BridgeCallDigest(gid, extCallOf(c.Name, bc))
	default:
		return nil, fmt.Errorf("confirm type")
	}
	signKey := c.extKey(w, o)
	if t.A.Has("signkey") {
		signKey = w.KeyByName(t.A.Str("signkey"))
	}
	ext := c.Ext
	if t.A.Has("prefix") { // fault: the signed-message prefix of the other chain family
		ext = &ExtChain{Tron: !c.Ext.Tron}
	}
	sig := ext.SignDigest(digest, signKey)
	switch t.A.Str("sigfault") {
	case "v01":
		sig[64] -= 27
	case "malleate":
		// s -> n - s, flip v
		n, _ := new(big.Int).SetString("fffffffffffffffffffffffffffffffebaaedce6af48a03bbfd25e8cd0364141", 16)
		sv := new(big.Int).SetBytes(sig[32:64])
		sv.Sub(n, sv)
		copy(sig[32:64], word(sv.Bytes()))
		sig[64] = 27 + (1 - (sig[64] - 27))
	case "truncate":
		sig = sig[:64]
	case "trailing":
		// the genuine 65 bytes followed by a few more: not an (r,s,v) signature the external contract could use
		sig = append(sig, 0xde, 0xad, 0xbe, 0xef)
	case "garbage":
		for i := range sig {
			sig[i] ^= 0x5a
		}
	}
	extAddr := c.extAddrStr(w, o)
	if t.A.Has("extaddr") {
		extAddr = ExtAddrStr(c.Name, w.KeyByName(t.A.Str("extaddr")).Hex())
	}
	bridger := c.bridgerKey(w, o).Bech()
	if t.A.Has("inner") {
		bridger = w.KeyByName(t.A.Str("inner")).Bech()
	}
	var msg sdk.Msg
	var conf cctypes.Confirm
	sigHex := hex.EncodeToString(sig)
	switch typ {
	case "oracleset":
		m := &cctypes.MsgOracleSetConfirm{Nonce: nonce, BridgerAddress: bridger, ExternalAddress: extAddr, Signature: sigHex, ChainName: c.Name}
		msg, conf = m, m
	case "batch":
		m := &cctypes.MsgConfirmBatch{Nonce: nonce, TokenContract: t.A.Str("token"), BridgerAddress: bridger, ExternalAddress: extAddr, Signature: sigHex, ChainName: c.Name}
		msg, conf = m, m
	case "bridgecall":
		m := &cctypes.MsgBridgeCallConfirm{Nonce: nonce, BridgerAddress: bridger, ExternalAddress: extAddr, Signature: sigHex, ChainName: c.Name}
		msg, conf = m, m
	}
	if t.A.Str("direct") == "1" {
		return &Built{Msgs: []sdk.Msg{msg}}, nil
	}
	any, err := codectypes.NewAnyWithValue(conf.(interface {
		sdk.Msg
	}))
	if err != nil {
		return nil, err
	}
	return &Built{Msgs: []sdk.Msg{&cctypes.MsgConfirm{ChainName: c.Name, BridgerAddress: w.KeyByName(t.S).Bech(), Confirm: any}}}, nil
}

func hexOrTron(chain, s string) common.Address {
	return cctypes.ExternalAddrToHexAddr(chain, s)
}

func membersOf(chain string, os *cctypes.OracleSet) []ExtMember {
	var ms []ExtMember
	for _, m := range os.Members {
		ms = append(ms, ExtMember{Addr: hexOrTron(chain, m.ExternalAddress), Power: m.Power})
	}
	return ms
}

func extBatchOf(chain string, b *cctypes.OutgoingTxBatch) *ExtBatch {
	eb := &ExtBatch{Nonce: b.BatchNonce, Token: hexOrTron(chain, b.TokenContract), Timeout: b.BatchTimeout, FeeReceive: hexOrTron(chain, b.FeeReceive)}
	for _, tx := range b.Transactions {
		eb.Amounts = append(eb.Amounts, tx.Token.Amount.BigInt())
		eb.Destinations = append(eb.Destinations, hexOrTron(chain, tx.DestAddress))
		eb.Fees = append(eb.Fees, tx.Fee.Amount.BigInt())
		eb.TxIDs = append(eb.TxIDs, tx.Id)
	}
	return eb
}

func extCallOf(chain string, c *cctypes.OutgoingBridgeCall) *ExtCall {
	ec := &ExtCall{Nonce: c.Nonce, Sender: hexOrTron(chain, c.Sender), Refund: hexOrTron(chain, c.Refund), To: hexOrTron(chain, c.To), Timeout: c.Timeout, EventNonce: c.EventNonce}
	ec.Data, _ = hex.DecodeString(c.Data)
	ec.Memo, _ = hex.DecodeString(c.Memo)
	for _, t := range c.Tokens {
		ec.Tokens = append(ec.Tokens, hexOrTron(chain, t.Contract))
		ec.Amounts = append(ec.Amounts, t.Amount.BigInt())
	}
	return ec
}

// afterTxs updates the generator-side actor memory from results.
func (e BridgeEngine) afterTxs(r *Run, o *Outcome) {
	st := bst(r)
	for _, t := range o.Txs {
		if t.Tx == nil || !t.Res.OK() {
			continue
		}
		switch t.Tx.K {
		case "bond":
			if c := st.chain(t.Tx.A.Str("chain")); c != nil {
				oa := c.Oracles[t.Tx.A.Int("o")]
				oa.Bonded = true
				oa.Stake = t.Tx.A.SdkInt("amount")
			}
		case "claim":
			if c := st.chain(t.Tx.A.Str("chain")); c != nil && t.Tx.A.Int("o") < len(c.Oracles) {
				oa := c.Oracles[t.Tx.A.Int("o")]
				if n := t.Tx.A.U64("n"); n > oa.Cursor {
					oa.Cursor = n
				}
			}
		}
	}
}

// ---------------------------------------------------------------------------------------
// external chain steps

func (e BridgeEngine) applyExt(r *Run, s *Step, o *Outcome) {
	st := bst(r)
	w := r.W
	c := st.chain(s.A.Str("chain"))
	if c == nil {
		o.Note = "no chain"
		return
	}
	ext := c.Ext
	switch s.A.Str("op") {
	case "init":
		if ext.Inited {
			o.Note = "already"
			return
		}
		os := c.keeper(w).GetOracleSet(w.Ctx(), 1)
		if os == nil {
			o.Note = "no oracle set 1 on fxcore"
			return
		}
		ext.Init(membersOf(c.Name, os))
	case "height":
		n := s.A.U64("n")
		ext.Height += n
		r.ExtBlocks += int64(n)
	case "add_token":
		if !ext.Inited {
			return
		}
		for _, t := range c.Tokens {
			if t.Symbol == s.A.Str("symbol") {
				dec := uint64(18)
				if t.Symbol == "USDT" {
					dec = 6
				}
				if _, err := ext.AddToken(t.Contract, t.Symbol+" token", t.Symbol, dec); err == nil {
					t.Added = true
				}
			}
		}
	case "send_to_fx":
		if !ext.Inited {
			return
		}
		for _, t := range c.Tokens {
			if t.Symbol == s.A.Str("symbol") {
				recv := w.Key("user", s.A.Int("user")).Bech()
				if s.A.Has("receiver") {
					recv = s.A.Str("receiver")
				}
				sender := w.Key("extuser", s.A.Int("user")).Hex()
				if _, err := ext.SendToFx(t.Contract, sender, recv, s.A.Big("amount"), s.A.Str("target")); err != nil {
					o.Note = err.Error()
				}
			}
		}
	case "bogus_result":
		// the external contract reports the result of a bridge call fxcore has no record of (fault:
		// a misbehaving / re-deployed external contract); claimed and parked like any other event
		if !ext.Inited {
			return
		}
		ext.emit(&ExtEvent{Kind: "bridge_call_result", CallNonce: s.A.U64("nonce"), Success: s.A.Int("success") == 1, Cause: []byte{}, TxOrigin: w.Key("extuser", 0).Hex()})
	case "bridge_call":
		if !ext.Inited {
			return
		}
		var toks []common.Address
		var amts []*big.Int
		for i, sym := range strings.Split(s.A.Str("symbols"), ",") {
			if sym == "" {
				continue
			}
			for _, t := range c.Tokens {
				if t.Symbol == sym {
					toks = append(toks, t.Contract)
					a, _ := new(big.Int).SetString(strings.Split(s.A.Str("amounts"), ",")[i], 10)
					amts = append(amts, a)
				}
			}
		}
		sender := w.Key("extuser", s.A.Int("user")).Hex()
		refund := sender
		if s.A.Has("refund") {
			refund = common.HexToAddress(s.A.Str("refund"))
		}
		to := common.HexToAddress(s.A.Str("to"))
		data, _ := hex.DecodeString(s.A.Str("data"))
		memo, _ := hex.DecodeString(s.A.Str("memo"))
		if _, err := ext.BridgeCall(sender, refund, to, sender, toks, amts, data, memo, s.A.Big("value")); err != nil {
			o.Note = err.Error()
		}
	}
}

// applyRelay: the relayer reads an object and its stored confirmations from committed
// fxcore state and submits them to the external contract model.
func (e BridgeEngine) applyRelay(r *Run, s *Step, o *Outcome) {
	st := bst(r)
	w := r.W
	c := st.chain(s.A.Str("chain"))
	if c == nil || !c.Ext.Inited {
		return
	}
	k := c.keeper(w)
	ctx := w.Ctx()
	ext := c.Ext
	sigsFor := func(get func(oracle sdk.AccAddress) (string, string, bool)) [][]byte {
		sigs := make([][]byte, len(ext.Members))
		for _, or := range k.GetAllOracles(ctx, false) {
			sigHex, extAddr, ok := get(or.GetOracle())
			if !ok {
				continue
			}
			idx := ext.MemberIndex(hexOrTron(c.Name, extAddr))
			if idx < 0 {
				continue
			}
			sig, err := hex.DecodeString(sigHex)
			if err != nil || len(sig) != 65 {
				continue
			}
			if sig[64] < 27 {
				sig[64] += 27 // relayers normalise v
			}
			sigs[idx] = sig
		}
		return sigs
	}
	switch s.A.Str("op") {
	case "oracle_set":
		os := k.GetOracleSet(ctx, s.A.U64("nonce"))
		if os == nil {
			o.Note = "gone"
			return
		}
		sigs := sigsFor(func(or sdk.AccAddress) (string, string, bool) {
			cf := k.GetOracleSetConfirm(ctx, os.Nonce, or)
			if cf == nil {
				return "", "", false
			}
			return cf.Signature, cf.ExternalAddress, true
		})
		_, err := ext.UpdateOracleSet(os.Nonce, membersOf(c.Name, os), sigs)
		if err != nil {
			o.Note = err.Error()
		}
		st.Chk.afterRelay(r, c, "oracle_set", os.Nonce, "", err)
	case "batch":
		b := k.GetOutgoingTxBatch(ctx, s.A.Str("token"), s.A.U64("nonce"))
		var eb *ExtBatch
		var sigs [][]byte
		if b != nil {
			eb = extBatchOf(c.Name, b)
			sigs = sigsFor(func(or sdk.AccAddress) (string, string, bool) {
				cf := k.GetBatchConfirm(ctx, b.TokenContract, b.BatchNonce, or)
				if cf == nil {
					return "", "", false
				}
				return cf.Signature, cf.ExternalAddress, true
			})
			st.Chk.rememberBatch(c, eb, sigs)
		} else {
			// relayer-after-cancel: resubmit a batch the relayer saw earlier
			eb, sigs = st.Chk.recallBatch(c, s.A.Str("token"), s.A.U64("nonce"))
			if eb == nil {
				o.Note = "unknown batch"
				return
			}
			r.Fault("relayer-after-cancel")
		}
		_, err := ext.SubmitBatch(eb, sigs)
		if err != nil {
			o.Note = err.Error()
		}
		st.Chk.afterRelay(r, c, "batch", eb.Nonce, s.A.Str("token"), err)
	case "bridge_call":
		bc, ok := k.GetOutgoingBridgeCallByNonce(ctx, s.A.U64("nonce"))
		var ec *ExtCall
		var sigs [][]byte
		if ok {
			ec = extCallOf(c.Name, bc)
			sigs = sigsFor(func(or sdk.AccAddress) (string, string, bool) {
				cf, found := w.ViewChain(ctx, c.Name).CallConfirms[bc.Nonce][or.String()]
				if !found {
					return "", "", false
				}
				return cf.Signature, cf.ExternalAddress, true
			})
			st.Chk.rememberCall(c, ec, sigs)
		} else {
			ec, sigs = st.Chk.recallCall(c, s.A.U64("nonce"))
			if ec == nil {
				o.Note = "unknown call"
				return
			}
			r.Fault("relayer-after-cancel")
		}
		_, err := ext.SubmitBridgeCall(ec, sigs, s.A.Str("success") != "0", w.Key("extuser", 99).Hex())
		if err != nil {
			o.Note = err.Error()
		}
		st.Chk.afterRelay(r, c, "bridge_call", ec.Nonce, "", err)
	}
}

// applyGov runs a whole proposal (submit, vote, wait) as one step.
func (e BridgeEngine) applyGov(r *Run, s *Step, o *Outcome) {
	st := bst(r)
	w := r.W
	var msgs []sdk.Msg
	auth := w.GovAuthority()
	switch s.A.Str("what") {
	case "register_coin":
		var aliases []string
		for _, c := range st.Chains {
			aliases = append(aliases, cctypes.NewBridgeDenom(c.Name, ExtAddrStr(c.Name, tokenContract(c.Name, s.A.Str("symbol")))))
		}
		if s.A.Has("aliases") {
			aliases = strings.Split(s.A.Str("aliases"), ",")
		}
		md := fxtypes.GetCrossChainMetadataManyToOne(s.A.Str("symbol")+" token", s.A.Str("symbol"), uint32(s.A.Int("decimals")), aliases...)
		msgs = append(msgs, &erc20types.MsgRegisterCoin{Authority: auth, Metadata: md})
	case "update_oracles":
		c := st.chain(s.A.Str("chain"))
		if c == nil {
			return
		}
		var list []string
		for _, f := range strings.Split(s.A.Str("oracles"), ",") {
			var i int
			if _, err := fmt.Sscan(f, &i); err == nil {
				list = append(list, c.oracleKey(w, i).Bech())
			}
		}
		msgs = append(msgs, &cctypes.MsgUpdateChainOracles{ChainName: c.Name, Authority: auth, Oracles: list})
	case "update_params":
		c := st.chain(s.A.Str("chain"))
		if c == nil {
			return
		}
		p := c.keeper(w).GetParams(w.Ctx())
		if s.A.Has("signed_window") {
			p.SignedWindow = s.A.U64("signed_window")
		}
		if s.A.Has("batch_timeout_ms") {
			p.ExternalBatchTimeout = s.A.U64("batch_timeout_ms")
		}
		if s.A.Has("avg_block_ms") {
			p.AverageBlockTime = s.A.U64("avg_block_ms")
		}
		if s.A.Has("avg_ext_block_ms") {
			p.AverageExternalBlockTime = s.A.U64("avg_ext_block_ms")
		}
		if s.A.Has("slash_pct") {
			p.SlashFraction = sdkmath.LegacyNewDecWithPrec(s.A.I64("slash_pct"), 2)
		}
		if s.A.Has("delegate_threshold_raw") {
			p.DelegateThreshold.Amount = s.A.SdkInt("delegate_threshold_raw")
		}
		msgs = append(msgs, &cctypes.MsgUpdateParams{ChainName: c.Name, Authority: auth, Params: p})
	case "alias":
		// adds the alias if the denom does not have it, removes it if it does
		msgs = append(msgs, &erc20types.MsgUpdateDenomAlias{Authority: auth, Denom: s.A.Str("denom"), Alias: s.A.Str("alias")})
	case "toggle":
		msgs = append(msgs, &erc20types.MsgToggleTokenConversion{Authority: auth, Token: s.A.Str("token")})
	case "register_erc20":
		var aliases []string
		if s.A.Str("aliases") != "" {
			aliases = strings.Split(s.A.Str("aliases"), ",")
		}
		msgs = append(msgs, &erc20types.MsgRegisterERC20{Authority: auth, Erc20Address: s.A.Str("token"), Aliases: aliases})
	case "switch":
		var list []string
		if s.A.Str("list") != "" {
			list = strings.Split(s.A.Str("list"), ",")
		}
		msgs = append(msgs, &fxgovtypes.MsgUpdateSwitchParams{Authority: auth, Params: fxgovtypes.SwitchParams{DisablePrecompiles: list}})
	default:
		o.Note = "unknown proposal"
		return
	}
	dt := time.Duration(s.DtMs) * time.Millisecond
	if dt <= 0 {
		dt = 5 * time.Second
	}
	before := w.Now
	gr := w.PassProposal("p:"+s.A.Str("what"), msgs, dt)
	r.SimTimeMs += w.Now.Sub(before).Milliseconds()
	o.Halt = gr.Halt
	o.Note = gr.Status + " " + gr.Note
	o.Extra["status"] = gr.Status
	if gr.Status == "PASSED" {
		r.Probe("gov-passed:" + s.A.Str("what"))
	} else {
		r.Probe("gov-" + strings.ToLower(gr.Status) + ":" + s.A.Str("what"))
	}
}

// applyActorFault switches oracle behaviours (crash, recover, Byzantine).
func (e BridgeEngine) applyActorFault(r *Run, s *Step, o *Outcome) {
	st := bst(r)
	c := st.chain(s.A.Str("chain"))
	if c == nil {
		return
	}
	i := s.A.Int("o")
	if i >= len(c.Oracles) {
		return
	}
	oa := c.Oracles[i]
	switch s.A.Str("op") {
	case "crash-claims":
		oa.CrashClaims = true
		r.Fault("crash-claims")
	case "crash-confirms":
		oa.CrashConfirms = true
		r.Fault("crash-confirms")
	case "recover":
		oa.CrashClaims, oa.CrashConfirms = false, false
	case "byz":
		oa.Byz = true
	}
}

// mutateClaim changes exactly one field of a claim (Byzantine variants). The field is named by
// its Go struct field name and found by reflection, so a field added to a claim type later
// is covered without editing the harness. val is the replacement for string fields; numeric
// fields are incremented, booleans flipped, the first element of a slice is mutated.
func mutateClaim(claim cctypes.ExternalClaim, field, val string) error {
	rv := reflect.ValueOf(claim).Elem()
	if strings.HasPrefix(field, "case:") {
		// the same string in the other letter case
		f := rv.FieldByName(strings.TrimPrefix(field, "case:"))
		if !f.IsValid() || f.Kind() != reflect.String {
			return fmt.Errorf("case: not a string field")
		}
		old := f.String()
		nv := strings.ToUpper(old)
		if nv == old {
			nv = strings.ToLower(old)
		}
		if nv == old {
			return fmt.Errorf("case: no letters")
		}
		f.SetString(nv)
		return nil
	}
	if strings.HasPrefix(field, "alias:") {
		// another spelling of a routing target (hex-encoded string field): the forms the code base's own
		// target parser produces or accepts for the same text (canonical form, printed form, legacy prefixes)
		f := rv.FieldByName(strings.TrimPrefix(field, "alias:"))
		if !f.IsValid() || f.Kind() != reflect.String || !strings.Contains(strings.TrimPrefix(field, "alias:"), "Target") {
			return fmt.Errorf("alias: not a target field")
		}
		raw, err := hex.DecodeString(f.String())
		if err != nil || len(raw) == 0 {
			return fmt.Errorf("alias: no target")
		}
		alts := targetSpellings(string(raw))
		var k int
		fmt.Sscan(val, &k)
		if k < 0 || k >= len(alts) || alts[k] == string(raw) || alts[k] == "" {
			return fmt.Errorf("alias: no such spelling")
		}
		f.SetString(hex.EncodeToString([]byte(alts[k])))
		return nil
	}
	if strings.HasPrefix(field, "pad:") {
		// a hex string field with another amount of leading zero bytes (0: none, 1: left-padded to a 32-byte word,
		// 2: other bytes in front of the last 32): equal as numbers or words, different as byte strings
		f := rv.FieldByName(strings.TrimPrefix(field, "pad:"))
		if !f.IsValid() || f.Kind() != reflect.String || f.String() == "" {
			return fmt.Errorf("pad: not a string field")
		}
		raw, err := hex.DecodeString(f.String())
		if err != nil || len(raw) == 0 {
			return fmt.Errorf("pad: not hex")
		}
		var nv []byte
		switch val {
		case "0":
			nv = bytes.TrimLeft(raw, "\x00")
		case "1":
			if len(raw) >= 32 {
				return fmt.Errorf("pad: already a word")
			}
			nv = append(make([]byte, 32-len(raw)), raw...)
		default:
			if len(raw) < 32 {
				raw = append(make([]byte, 32-len(raw)), raw...)
			}
			nv = append([]byte{0xab, 0xcd}, raw[len(raw)-32:]...)
		}
		if len(nv) == 0 || bytes.Equal(nv, raw) && val != "2" || hex.EncodeToString(nv) == f.String() {
			return fmt.Errorf("pad: no change")
		}
		f.SetString(hex.EncodeToString(nv))
		return nil
	}
	if strings.HasPrefix(field, "swap:") {
		// the first two elements of a list field exchanged (the parallel lists keep their order)
		f := rv.FieldByName(strings.TrimPrefix(field, "swap:"))
		if !f.IsValid() || f.Kind() != reflect.Slice || f.Len() < 2 {
			return fmt.Errorf("swap: not a list of two or more")
		}
		a, b := f.Index(0), f.Index(1)
		if reflect.DeepEqual(a.Interface(), b.Interface()) || fmt.Sprint(a.Interface()) == fmt.Sprint(b.Interface()) {
			return fmt.Errorf("swap: equal elements")
		}
		tmp := reflect.New(a.Type()).Elem()
		tmp.Set(a)
		a.Set(b)
		b.Set(tmp)
		return nil
	}
	if strings.HasPrefix(field, "set:") {
		// set a numeric field to the given value (the plain variant only adds one)
		f := rv.FieldByName(strings.TrimPrefix(field, "set:"))
		var n uint64
		if !f.IsValid() || f.Kind() != reflect.Uint64 {
			return fmt.Errorf("set: not a uint64 field")
		}
		if _, err := fmt.Sscan(val, &n); err != nil || n == f.Uint() {
			return fmt.Errorf("set: bad value")
		}
		f.SetUint(n)
		return nil
	}
	if field == "resplit" {
		// val = "FieldA:FieldB:k": move the last k characters of A's rendering to the front of B's
		var fa, fb string
		var k int
		parts := strings.Split(val, ":")
		if len(parts) != 3 {
			return fmt.Errorf("resplit spec")
		}
		fa, fb = parts[0], parts[1]
		fmt.Sscan(parts[2], &k)
		a, b := rv.FieldByName(fa), rv.FieldByName(fb)
		if !a.IsValid() || !b.IsValid() {
			return fmt.Errorf("resplit fields")
		}
		sa, sb := renderField(a), renderField(b)
		if k <= 0 || k >= len(sa) {
			return fmt.Errorf("resplit k")
		}
		if err := parseField(a, sa[:len(sa)-k]); err != nil {
			return err
		}
		return parseField(b, sa[len(sa)-k:]+sb)
	}
	f := rv.FieldByName(field)
	if !f.IsValid() || !f.CanSet() {
		return fmt.Errorf("no field %s", field)
	}
	return mutateValue(f, val)
}

// targetSpellings: other texts that the target parser relates to s.
func targetSpellings(s string) []string {
	t := fxtypes.ParseFxTarget(s)
	out := []string{t.GetTarget(), t.String(), "chain/" + s, strings.TrimPrefix(s, "chain/"), "", ""}
	switch s {
	case "erc20":
		out[4] = "module/evm"
	case "module/evm":
		out[4] = "erc20"
	}
	if p := strings.Split(s, "/"); len(p) == 3 {
		out[5] = p[2] + "/" + p[1] + "/" + p[0]
	}
	return out
}

const nTargetSpellings = 6

func mutateValue(f reflect.Value, val string) error {
	switch f.Kind() {
	case reflect.String:
		if f.String() == val {
			return fmt.Errorf("same value")
		}
		f.SetString(val)
	case reflect.Uint64, reflect.Uint32:
		f.SetUint(f.Uint() + 1)
	case reflect.Int64, reflect.Int32:
		f.SetInt(f.Int() + 1)
	case reflect.Bool:
		f.SetBool(!f.Bool())
	case reflect.Slice:
		if f.Len() == 0 {
			return fmt.Errorf("empty slice")
		}
		return mutateValue(f.Index(0), val)
	case reflect.Struct:
		if i, ok := f.Addr().Interface().(*sdkmath.Int); ok {
			if i.IsNil() {
				*i = sdkmath.OneInt()
			} else {
				*i = i.AddRaw(1)
			}
			return nil
		}
		// e.g. BridgeValidator{Power, ExternalAddress}: mutate its first settable field
		for k := 0; k < f.NumField(); k++ {
			if f.Field(k).CanSet() {
				return mutateValue(f.Field(k), val)
			}
		}
		return fmt.Errorf("struct")
	default:
		return fmt.Errorf("kind %s", f.Kind())
	}
	return nil
}

func renderField(f reflect.Value) string {
	switch f.Kind() {
	case reflect.String:
		return f.String()
	case reflect.Uint64, reflect.Uint32:
		return fmt.Sprint(f.Uint())
	case reflect.Struct:
		if i, ok := f.Addr().Interface().(*sdkmath.Int); ok && !i.IsNil() {
			return i.String()
		}
	}
	return ""
}

func parseField(f reflect.Value, s string) error {
	switch f.Kind() {
	case reflect.String:
		f.SetString(s)
		return nil
	case reflect.Uint64, reflect.Uint32:
		var n uint64
		if _, err := fmt.Sscan(s, &n); err != nil || fmt.Sprint(n) != s {
			return fmt.Errorf("not a canonical number")
		}
		f.SetUint(n)
		return nil
	case reflect.Struct:
		if i, ok := f.Addr().Interface().(*sdkmath.Int); ok {
			n, ok2 := sdkmath.NewIntFromString(s)
			if !ok2 || n.String() != s {
				return fmt.Errorf("not a canonical integer")
			}
			*i = n
			return nil
		}
	}
	return fmt.Errorf("unsupported field kind")
}

// claimFields lists the mutable fields of a claim type (everything except the identity of
// the claimer, the chain and the event nonce, which define *which* vote this is).
func claimFields(claim cctypes.ExternalClaim) []string {
	rt := reflect.TypeOf(claim).Elem()
	var out []string
	for i := 0; i < rt.NumField(); i++ {
		n := rt.Field(i).Name
		if n == "BridgerAddress" || n == "ChainName" || n == "EventNonce" || !rt.Field(i).IsExported() {
			continue
		}
		out = append(out, n)
	}
	return out
}

func sortedKeys[V any](m map[string]V) []string {
	var ks []string
	for k := range m {
		ks = append(ks, k)
	}
	sort.Strings(ks)
	return ks
}
