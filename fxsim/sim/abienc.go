package sim

import (
	"math/big"
)

// Independent Solidity ABI encoder (head/tail), written from the abi.encode(...) layouts in
// solidity/contracts/bridge/FxBridgeLogic.sol. It deliberately does not use go-ethereum's
// abi package nor the project's ABI JSON, so that a digest computed here is a second
// opinion on what the external contract recomputes.

type abiVal interface {
	dynamic() bool
	enc() []byte
}

func word(b []byte) []byte {
	out := make([]byte, 32)
	if len(b) > 32 {
		b = b[len(b)-32:]
	}
	copy(out[32-len(b):], b)
	return out
}

func uword(n uint64) []byte { return word(new(big.Int).SetUint64(n).Bytes()) }

type aBytes32 [32]byte

func (a aBytes32) dynamic() bool { return false }
func (a aBytes32) enc() []byte   { return append([]byte{}, a[:]...) }

// Bytes32Str: UTF-8 of s, right padded with zeros (as Solidity bytes32("...") literals).
func Bytes32Str(s string) aBytes32 {
	var a aBytes32
	copy(a[:], []byte(s))
	return a
}

type aUint struct{ v *big.Int }

func (a aUint) dynamic() bool { return false }
func (a aUint) enc() []byte   { return word(a.v.Bytes()) }

type aAddr [20]byte

func (a aAddr) dynamic() bool { return false }
func (a aAddr) enc() []byte   { return word(a[:]) }

type aUintArr []*big.Int

func (a aUintArr) dynamic() bool { return true }
func (a aUintArr) enc() []byte {
	out := uword(uint64(len(a)))
	for _, v := range a {
		out = append(out, word(v.Bytes())...)
	}
	return out
}

type aAddrArr [][20]byte

func (a aAddrArr) dynamic() bool { return true }
func (a aAddrArr) enc() []byte {
	out := uword(uint64(len(a)))
	for _, v := range a {
		out = append(out, word(v[:])...)
	}
	return out
}

type aBytes []byte

func (a aBytes) dynamic() bool { return true }
func (a aBytes) enc() []byte {
	out := uword(uint64(len(a)))
	out = append(out, a...)
	if pad := (32 - len(a)%32) % 32; pad > 0 {
		out = append(out, make([]byte, pad)...)
	}
	return out
}

// abiEncode implements abi.encode(v...) for a tuple of the types above.
func abiEncode(vals ...abiVal) []byte {
	headLen := 32 * len(vals)
	head := make([]byte, 0, headLen)
	var tail []byte
	for _, v := range vals {
		if v.dynamic() {
			head = append(head, uword(uint64(headLen+len(tail)))...)
			tail = append(tail, v.enc()...)
		} else {
			head = append(head, v.enc()...)
		}
	}
	return append(head, tail...)
}

func U(n uint64) aUint    { return aUint{new(big.Int).SetUint64(n)} }
func UB(n *big.Int) aUint { return aUint{new(big.Int).Set(n)} }
func Addr20(b []byte) aAddr {
	var a aAddr
	if len(b) > 20 {
		b = b[len(b)-20:]
	}
	copy(a[20-len(b):], b)
	return a
}
