package sim

import (
	"encoding/hex"
	"encoding/json"
	"fmt"
	"math/big"
	"sort"
	"strings"

	sdkmath "cosmossdk.io/math"
	sdk "github.com/cosmos/cosmos-sdk/types"
	authtypes "github.com/cosmos/cosmos-sdk/x/auth/types"
	"github.com/ethereum/go-ethereum/common"
	ethcrypto "github.com/ethereum/go-ethereum/crypto"

	"github.com/functionx/fx-core/v8/contract"
	cctypes "github.com/functionx/fx-core/v8/x/crosschain/types"
	erc20types "github.com/functionx/fx-core/v8/x/erc20/types"
)

// C08 — coin<->ERC-20 conversion conserves value and keeps token-pair books balanced.

type c08Model struct {
	holders    map[string]bool // hex addresses that may hold ERC-20 balances
	broken     map[string]bool // pairs whose books were already reported broken in this run (state invariants stay broken)
	balPre     map[string]sdkmath.Int
	ercPre     map[string]*big.Int
	phase      int
	deadSupply map[string]sdkmath.Int // coin supply of pairs whose token contract destroyed itself
	reReg      int
	cycle      int // 0 undecided, 1 this run drives the withdraw-and-redeposit cycle of the externally-owned token, 2 not
}

func newC08() *c08Model { return &c08Model{holders: map[string]bool{}, broken: map[string]bool{}} }

var moduleNames = []string{"fee_collector", "distribution", "mint", "bonded_tokens_pool", "not_bonded_tokens_pool", "gov", "transfer", "evm", "erc20", "crosschain", "eth", "bsc", "polygon", "avalanche", "tron", "arbitrum", "optimism", "layer2"}

func (m *c08Model) holderList(r *Run) []common.Address {
	w := r.W
	st := bst(r)
	set := map[string]bool{}
	for h := range m.holders {
		set[h] = true
	}
	for i := 0; i < st.NUsers; i++ {
		set[w.Key("user", i).Hex().Hex()] = true
	}
	set[w.Key("adv", 0).Hex().Hex()] = true
	set[w.Key("adv", 1).Hex().Hex()] = true
	for _, n := range moduleNames {
		set[common.BytesToAddress(authtypes.NewModuleAddress(n)).Hex()] = true
	}
	for _, dp := range st.Evm.Programs {
		for _, a := range dp.Addrs {
			set[a.Hex()] = true
		}
	}
	set[cctypes.GetAddress().Hex()] = true
	set[common.Address{}.Hex()] = true
	for i := 0; i < 8; i++ {
		set[w.Key("extuser", i).Hex().Hex()] = true
	}
	var out []common.Address
	for _, h := range sortedKeys(set) {
		out = append(out, common.HexToAddress(h))
	}
	return out
}

func (m *c08Model) before(r *Run, s *Step) {
	if r.Prop != "C08" {
		return
	}
	w := r.W
	ctx := w.Ctx()
	m.balPre = map[string]sdkmath.Int{}
	m.ercPre = map[string]*big.Int{}
	pairs := w.App.Erc20Keeper.GetAllTokenPairs(ctx)
	for _, k := range trackedAccounts(r) {
		for _, c := range w.App.BankKeeper.GetAllBalances(ctx, k.Acc()) {
			m.balPre[k.Bech()+"|"+c.Denom] = c.Amount
		}
		for _, p := range pairs {
			m.ercPre[k.Hex().Hex()+"|"+p.Denom] = w.ERC20Balance(ctx, p.GetERC20Contract(), k.Hex())
		}
	}
}

func bigOr0(m map[string]*big.Int, k string) *big.Int {
	if v, ok := m[k]; ok {
		return v
	}
	return big.NewInt(0)
}

func (m *c08Model) check(r *Run, s *Step, o *Outcome) []Violation {
	var vs []Violation
	w := r.W
	ctx := w.Ctx()
	site := c10Site(s, o)
	if s.Kind == "run" {
		site = m.programSite(r, s, o)
	} else if is := m.inboundProgramSite(r, o); is != "" {
		site = is
	}
	erc20Mod := authtypes.NewModuleAddress(erc20types.ModuleName)
	pairs := w.App.Erc20Keeper.GetAllTokenPairs(ctx)
	sort.Slice(pairs, func(i, j int) bool { return pairs[i].Denom < pairs[j].Denom })
	holders := m.holderList(r)
	pairStart := map[string]int{}
	defer func() {
		// attribute pair-books violations to their pair: [start(p), start(next pair))
		for i, p := range pairs {
			st, ok := pairStart[p.Denom]
			if !ok {
				continue
			}
			end := len(vs)
			for _, q := range pairs[i+1:] {
				if e, ok := pairStart[q.Denom]; ok {
					end = e
					break
				}
			}
			for _, v := range vs[st:min(end, len(vs))] {
				if v.Invariant == "pair-books" {
					m.broken[p.Denom] = true
				}
			}
		}
	}()
	for _, p := range pairs {
		if m.broken[p.Denom] {
			continue
		}
		pairStart[p.Denom] = len(vs)
		tok := p.GetERC20Contract()
		if acc := w.App.EvmKeeper.GetAccount(ctx, tok); acc == nil || !acc.IsContract() {
			// an externally-owned token destroyed itself: its books are gone with it; the pair is removed by
			// the next conversion (the index checks below the loop still apply to what remains)
			r.Probe("pair-with-destroyed-contract")
			// nothing is escrowed any more, so nothing may be issued any more: the coin supply of the pair
			// (all denominations) can only shrink from here on
			sup := w.App.BankKeeper.GetSupply(ctx, p.Denom).Amount
			if md, ok := w.App.BankKeeper.GetDenomMetaData(ctx, p.Denom); ok && len(md.DenomUnits) > 0 {
				for _, al := range md.DenomUnits[0].Aliases {
					sup = sup.Add(w.App.BankKeeper.GetSupply(ctx, al).Amount)
				}
			}
			if m.deadSupply == nil {
				m.deadSupply = map[string]sdkmath.Int{}
			}
			if old, ok := m.deadSupply[p.Denom]; ok && sup.GT(old) {
				vs = append(vs, viol("pair-books", "issued-against-destroyed-contract/"+site, "%s: the token contract is destroyed (nothing escrowed), yet the coin supply over all its denominations grew from %s to %s", p.Denom, old, sup))
			}
			m.deadSupply[p.Denom] = sup
			continue
		}
		ts := sdkmath.NewIntFromBigInt(w.ERC20TotalSupply(ctx, tok))
		kind := "module-owned"
		switch {
		case p.Denom == "FX":
			kind = "wfx"
			esc := w.App.BankKeeper.GetBalance(ctx, tok.Bytes(), "FX").Amount
			if !esc.Equal(ts) {
				vs = append(vs, viol("pair-books", "wfx-escrow/"+site, "WFX contract holds %s FX but WFX total supply is %s", esc, ts))
			}
		case p.IsNativeCoin():
			esc := w.App.BankKeeper.GetBalance(ctx, erc20Mod, p.Denom).Amount
			if !esc.Equal(ts) {
				vs = append(vs, viol("pair-books", "module-owned-escrow/"+site, "%s: erc20 module escrows %s coins but the ERC-20 total supply is %s", p.Denom, esc, ts))
			}
		case p.IsNativeERC20():
			kind = "externally-owned"
			sup := w.App.BankKeeper.GetSupply(ctx, p.Denom).Amount
			if md, ok := w.App.BankKeeper.GetDenomMetaData(ctx, p.Denom); ok && len(md.DenomUnits) > 0 {
				for _, al := range md.DenomUnits[0].Aliases {
					sup = sup.Add(w.App.BankKeeper.GetSupply(ctx, al).Amount)
				}
			}
			esc := sdkmath.NewIntFromBigInt(w.ERC20Balance(ctx, tok, common.BytesToAddress(erc20Mod)))
			if !esc.Equal(sup) {
				vs = append(vs, viol("pair-books", "externally-owned-escrow/"+site, "%s: erc20 module holds %s tokens but the coin supply over all its denominations is %s", p.Denom, esc, sup))
			}
		}
		// balances sum to total supply (over every address the run knows)
		sum := new(big.Int)
		for _, h := range holders {
			sum.Add(sum, w.ERC20Balance(ctx, tok, h))
		}
		if sdkmath.NewIntFromBigInt(sum).GT(ts) {
			vs = append(vs, viol("pair-books", "balances-exceed-supply/"+kind+"/"+site, "%s: known balances sum to %s, total supply is %s", p.Denom, sum, ts))
		} else if !sdkmath.NewIntFromBigInt(sum).Equal(ts) {
			// an unknown holder: only a violation if nothing in this step could have sent tokens elsewhere
			r.Probe("unknown-holder:" + kind)
		}
		// index consistency
		if q, ok := w.App.Erc20Keeper.GetTokenPair(ctx, p.Denom); !ok || q.Erc20Address != p.Erc20Address {
			vs = append(vs, viol("index-consistency", "denom-index/"+site, "pair %s/%s is not found through its denom", p.Denom, p.Erc20Address))
		}
		if q, ok := w.App.Erc20Keeper.GetTokenPairByAddress(ctx, tok); !ok || q.Denom != p.Denom {
			vs = append(vs, viol("index-consistency", "erc20-index/"+site, "pair %s/%s is not found through its contract", p.Denom, p.Erc20Address))
		}
		if md, ok := w.App.BankKeeper.GetDenomMetaData(ctx, p.Denom); ok && len(md.DenomUnits) > 0 {
			for _, al := range md.DenomUnits[0].Aliases {
				if d, ok := w.App.Erc20Keeper.GetAliasDenom(ctx, al); !ok || d != p.Denom {
					vs = append(vs, viol("index-consistency", "alias-index/"+site, "alias %s of %s is registered in bank metadata but the alias index says %q", al, p.Denom, d))
				}
			}
		}
	}
	// alias index entries must point to a registered pair that lists them
	for _, kv := range w.Prefix(ctx, "erc20", erc20types.KeyPrefixAliasDenom) {
		alias, denom := string(kv[0][1:]), string(kv[1])
		md, ok := w.App.BankKeeper.GetDenomMetaData(ctx, denom)
		found := false
		if ok && len(md.DenomUnits) > 0 {
			for _, al := range md.DenomUnits[0].Aliases {
				if al == alias {
					found = true
				}
			}
		}
		if !found {
			vs = append(vs, viol("index-consistency", "alias-orphan/"+site, "alias index %s -> %s but the metadata of %s does not list it", alias, denom, denom))
		}
		if !w.App.Erc20Keeper.IsDenomRegistered(ctx, denom) {
			vs = append(vs, viol("index-consistency", "alias-orphan/"+site, "alias index %s -> %s but %s is not a registered pair", alias, denom, denom))
		}
	}
	// conversion exactness (single-tx blocks)
	if s.Kind == "block" && deliveredCount(o) == 1 && s.N <= 1 {
		for _, t := range okTxs(o, "convert_coin") {
			r.Nontrivial = true
			r.Probe("convert-coin-ok")
			k := w.KeyByName(t.Tx.S)
			denom := t.Tx.A.Str("denom")
			amt := t.Tx.A.SdkInt("amount")
			if _, still := w.App.Erc20Keeper.GetTokenPair(ctx, denom); !still {
				// the message found the token contract destroyed: it succeeds only to persist the removal of the
				// pair and converts nothing
				r.Probe("conversion-removed-destroyed-pair")
				continue
			}
			got := getOr0(m.balPre, k.Bech()+"|"+denom).Sub(w.App.BankKeeper.GetBalance(ctx, k.Acc(), denom).Amount)
			if !got.Equal(amt) {
				vs = append(vs, viol("conversion-exact", "convert_coin/sender", "%s converted %s %s, coin balance changed by -%s", t.Tx.S, amt, denom, got))
			}
			recv := common.HexToAddress(t.Tx.A.Str("receiver"))
			if pair, ok := w.App.Erc20Keeper.GetTokenPair(ctx, denom); ok {
				if _, tracked := m.ercPre[recv.Hex()+"|"+denom]; tracked {
					inc := new(big.Int).Sub(w.ERC20Balance(ctx, pair.GetERC20Contract(), recv), bigOr0(m.ercPre, recv.Hex()+"|"+denom))
					if inc.Cmp(amt.BigInt()) != 0 {
						vs = append(vs, viol("conversion-exact", "convert_coin/receiver", "%s converted %s %s to %s, its ERC-20 balance changed by %s", t.Tx.S, amt, denom, recv.Hex(), inc))
					}
				}
			}
		}
	}
	for _, t := range o.Txs {
		if t.Tx != nil && t.Tx.K == "convert_erc20" {
			if t.Res.OK() {
				r.Nontrivial = true
				r.Probe("convert-erc20-ok")
			} else {
				r.Probe("convert-erc20-refused")
			}
		}
	}
	if s.Kind == "run" || s.Kind == "deploy" {
		r.Nontrivial = true
	}
	for _, t := range o.Txs {
		if t.Tx != nil && t.Res.OK() && (t.Tx.K == "execute_claim" || strings.HasPrefix(t.Tx.A.Str("t"), "crosschain")) {
			r.Nontrivial = true
			r.Probe("conversion-through-" + t.Tx.K)
		}
	}
	r.State(fmt.Sprintf("pairs%d", len(pairs)))
	return vs
}

// inboundProgramSite: the step executed a parked inbound bridge call whose callee is one of the deployed
// programs: the program ran (all actions enabled) inside the bridge call, which is the same situation as
// a program run - classified the same way, under its own entry path.
func (m *c08Model) inboundProgramSite(r *Run, o *Outcome) string {
	st := bst(r)
	if o == nil || st.Chk == nil || st.Chk.pre == nil {
		return ""
	}
	for _, t := range o.Txs {
		if t.Tx == nil || !t.Res.OK() {
			continue
		}
		var n uint64
		switch {
		case t.Tx.K == "execute_claim":
			n = t.Tx.A.U64("n")
		case t.Tx.K == "eth_call" && t.Tx.A.Str("t") == "crosschain" && t.Tx.A.Str("m") == "executeClaim":
			if p := strings.Split(t.Tx.A.Str("args"), "|"); len(p) == 2 {
				fmt.Sscan(p[1], &n)
			}
		default:
			continue
		}
		pre := st.Chk.pre[st.Chains[0].Name]
		if pre == nil {
			continue
		}
		cl, ok := pre.Pending[n].(*cctypes.MsgBridgeCallClaim)
		if !ok {
			continue
		}
		to := cctypes.ExternalAddrToHexAddr(st.Chains[0].Name, cl.To)
		for _, dp := range st.Evm.Programs {
			if !dp.OK {
				continue
			}
			for _, a := range dp.Addrs {
				if a == to {
					return "inbound-call-to-program/" + classifyProgram(dp)
				}
			}
		}
	}
	return ""
}

func classifyProgram(dp *DeployedProgram) string {
	running, keeperLevel := false, false
	for _, nd := range dp.Spec.Nodes {
		for _, a := range nd.Acts {
			if a.K != "pre" {
				continue
			}
			switch {
			case strings.HasPrefix(a.T, "token:") || a.T == "wfx":
				running = true
			case a.T == "crosschain" && (a.M == "crossChain" || a.M == "increaseBridgeFee"):
				running = true
			case a.T == "crosschain" && (a.M == "bridgeCall" || a.M == "executeClaim" || a.M == "cancelSendToExternal"):
				keeperLevel = true
			}
		}
	}
	switch {
	case running && keeperLevel:
		return "running-evm-token-access+keeper-level-conversion"
	case keeperLevel:
		return "keeper-level-conversion"
	case running:
		return "running-evm-token-access"
	}
	return "other"
}

// programSite classifies a program run by what the kept calls did to tokens: the running EVM
// touched a token (direct token call, or a precompile method that moves ERC-20 through the
// running EVM) and/or a precompile method converted through keeper-level EVM calls.
func (m *c08Model) programSite(r *Run, s *Step, o *Outcome) string {
	st := bst(r)
	pi := s.A.Int("prog")
	if pi >= len(st.Evm.Programs) || len(o.Txs) != 1 || o.Txs[0].Res == nil || len(o.Txs[0].Res.Ret) != 32 {
		return "program"
	}
	k := new(big.Int).SetBytes(o.Txs[0].Res.Ret)
	running, keeperLevel := false, false
	for _, nd := range st.Evm.Programs[pi].Spec.Nodes {
		for _, a := range nd.Acts {
			// every action of the program counts, kept or not: a keeper-level conversion inside a frame
			// that is reverted afterwards has still committed its nested state DB
			if a.K != "pre" {
				continue
			}
			_ = k
			switch {
			case strings.HasPrefix(a.T, "token:") || a.T == "wfx":
				running = true
			case a.T == "crosschain" && (a.M == "crossChain" || a.M == "increaseBridgeFee"):
				running = true
			case a.T == "crosschain" && (a.M == "bridgeCall" || a.M == "executeClaim" || a.M == "cancelSendToExternal"):
				keeperLevel = true
			}
		}
	}
	switch {
	case running && keeperLevel:
		return "program/running-evm-token-access+keeper-level-conversion"
	case keeperLevel:
		return "program/keeper-level-conversion"
	case running:
		return "program/running-evm-token-access"
	}
	return "program/other"
}

// ---- generator

func c08TokenAddr(w *World) common.Address {
	// the native ERC-20 proxy is the first contract user/3 creates
	return ethcrypto.CreateAddress(w.Key("user", 3).Hex(), 0)
}

func (e EvmEngine) c08Setup(r *Run) []Step {
	w := r.W
	st := bst(r)
	ch := st.Chains[0]
	var out []Step
	token := c08TokenAddr(w)
	pc := contract.GetERC1967Proxy()
	ctor, _ := pc.ABI.Pack("", contract.GetFIP20().Address, []byte{})
	fip := contract.GetFIP20().ABI
	initd, _ := fip.Pack("initialize", "Test token", "TST", uint8(18), common.BytesToAddress(authtypes.NewModuleAddress(erc20types.ModuleName)))
	txs := []Tx{
		{K: "eth_call", S: "user/3", A: A("to", "", "data", hex.EncodeToString(append(append([]byte{}, pc.Bin...), ctor...)), "value", "0"), Gas: 5_000_000},
		{K: "eth_call", S: "user/3", A: A("to", token.Hex(), "data", hex.EncodeToString(initd), "value", "0"), Gas: 2_000_000},
	}
	if r.Pct(50) {
		// swarm: the externally-owned token is one whose failed transfers return false instead of reverting
		txs = []Tx{{K: "eth_call", S: "user/3", A: A("to", "", "data", hex.EncodeToString(softTokenInit("Soft token", "TST", 18)), "value", "0"), Gas: 5_000_000}}
	}
	for i := 0; i < st.NUsers; i++ {
		d, _ := fip.Pack("mint", w.Key("user", i).Hex(), big.NewInt(1_000_000_000))
		txs = append(txs, Tx{K: "eth_call", S: "user/3", A: A("to", token.Hex(), "data", hex.EncodeToString(d), "value", "0"), Gas: 2_000_000})
	}
	out = append(out, Step{Kind: "block", DtMs: 5000, N: 1, Txs: txs})
	alias := cctypes.NewBridgeDenom(ch.Name, ExtAddrStr(ch.Name, tokenContract(ch.Name, "TST")))
	out = append(out, Step{Kind: "gov", DtMs: 5000, A: A("what", "register_erc20", "token", token.Hex(), "aliases", alias)})
	out = append(out, Step{Kind: "ext", A: A("chain", ch.Name, "op", "add_token", "symbol", "TST")})
	return out
}

func (e EvmEngine) genC08(r *Run) Step {
	st := bst(r)
	w := r.W
	m := st.Evm.c08
	ch := st.Chains[0]
	blk := func(txs ...Tx) Step { return Step{Kind: "block", DtMs: 5000, N: 1, Txs: txs} }
	m.phase++
	if r.Pct(15) {
		if s, ok := e.bridgeTick(r); ok {
			return s
		}
	}
	if _, ok := w.App.Erc20Keeper.GetTokenPair(w.Ctx(), "tst"); !ok && m.reReg < 2 && m.phase > 3 && r.Pct(30) {
		// the pair of the destroyed token is gone, its denomination (bank metadata, maybe coins) is not: somebody deploys
		// another contract with the same symbol and governance is asked to register it
		m.reReg++
		d := r.Rng.IntN(st.NUsers)
		dk := w.Key("user", d)
		addr := ethcrypto.CreateAddress(dk.Hex(), w.EthNonce(dk.Hex()))
		st.Setup = append(st.Setup, Step{Kind: "gov", DtMs: 5000, A: A("what", "register_erc20", "token", addr.Hex())})
		r.Probe("re-registration-of-a-removed-pair's-symbol")
		return blk(Tx{K: "eth_call", S: KeyName("user", d), A: A("to", "", "data", hex.EncodeToString(softTokenInit("Soft token again", "TST", 18)), "value", "0"), Gas: 5_000_000})
	}
	if m.cycle == 0 {
		m.cycle = 2
		if r.Pct(35) {
			m.cycle = 1
		}
	}
	if m.cycle == 1 && r.Pct(40) {
		if s, ok := e.c08CycleStep(r); ok {
			return s
		}
	}
	u := r.Rng.IntN(st.NUsers)
	signer := KeyName("user", u)
	denoms := []string{"usdt", "FX", "tst"}
	denom := denoms[r.Rng.IntN(3)]
	sym := map[string]string{"usdt": "USDT", "FX": "WFX", "tst": "TST"}[denom]
	pc := func(t, meth string, args ...string) Tx {
		return Tx{K: "pcall", S: signer, A: A("t", t, "m", meth, "args", strings.Join(args, "|")), Gas: 3_000_000}
	}
	other := func() string { return fmt.Sprintf("$user%d", r.Rng.IntN(st.NUsers)) }
	switch r.Rng.IntN(16) {
	case 15:
		if r.Pct(25) {
			// the externally-owned token destroys itself (only the assembled token has this entry point)
			return blk(Tx{K: "pcall", S: signer, A: A("t", "$TST", "m", "41c0e1b5", "args", ""), Gas: 1_000_000})
		}
		// conversion to an address that must not receive: a module account
		mod := []string{erc20types.ModuleName, erc20types.ModuleName, "eth", "distribution"}[r.Rng.IntN(4)]
		if r.Pct(50) {
			denom = "tst"
			// coins of the externally-owned token only exist after a withdraw-and-redeposit cycle: drive it
			holder := -1
			for i := 0; i < st.NUsers; i++ {
				if w.App.BankKeeper.GetBalance(w.Ctx(), w.Key("user", i).Acc(), "tst").Amount.IsPositive() {
					holder = i
				}
			}
			if holder >= 0 {
				u, signer = holder, KeyName("user", holder)
				r.Probe("tst-cycle:convert-held-coin-to-module")
			} else {
				alias := cctypes.NewBridgeDenom(ch.Name, ExtAddrStr(ch.Name, tokenContract(ch.Name, "TST")))
				stock := w.App.BankKeeper.GetBalance(w.Ctx(), authtypes.NewModuleAddress(ch.Name), alias).Amount
				if stock.IsPositive() {
					a := stock.Int64()
					if a > 2000 {
						a = 1 + r.Rng.Int64N(2000)
					}
					r.Probe("tst-cycle:redeposit")
					return Step{Kind: "ext", A: A("chain", ch.Name, "op", "send_to_fx", "symbol", "TST", "user", r.Rng.IntN(st.NUsers), "amount", a, "target", "")}
				}
				r.Probe("tst-cycle:withdraw")
				return blk(pc("token:TST", "approve", cctypes.GetAddress().Hex(), "1000000000000000"),
					pc("crosschain", "crossChain", "$TST", fmt.Sprintf("$ext%d", r.Rng.IntN(5)), fmt.Sprint(100+r.Rng.IntN(3000)), "2", "$target", ""))
			}
		}
		amt := int64(1 + r.Rng.IntN(3000))
		if bal := w.App.BankKeeper.GetBalance(w.Ctx(), w.Key("user", u).Acc(), denom).Amount; bal.IsPositive() && bal.IsInt64() && bal.Int64() < amt {
			amt = bal.Int64()
		}
		if denom == "FX" {
			amt *= 1e9
		}
		return blk(Tx{K: "convert_coin", S: signer, A: A("denom", denom, "amount", amt, "receiver", common.BytesToAddress(authtypes.NewModuleAddress(mod)).Hex())})
	case 14:
		// ERC-20 out through the bridge with more than the sender owns: must be refused whether the token
		// reverts or merely returns false (MsgConvertERC20 itself cannot be sent on this tree: its signer
		// field is a hex address the bech32 signer codec refuses, so the precompiles are the only way in)
		over := new(big.Int).Add(w.ERC20Balance(w.Ctx(), common.HexToAddress(e.resolver(r, nil)("$"+sym)), w.Key("user", u).Hex()), big.NewInt(int64(1+r.Rng.IntN(1000))))
		if r.Pct(50) {
			return blk(pc("crosschain", "bridgeCall", "$chain", other(), "$"+sym, over.String(), fmt.Sprintf("$ext%d", r.Rng.IntN(5)), "", "0", ""))
		}
		return blk(pc("token:"+sym, "approve", cctypes.GetAddress().Hex(), "1000000000000000000000000000000"),
			pc("crosschain", "crossChain", "$"+sym, fmt.Sprintf("$ext%d", r.Rng.IntN(5)), over.String(), "2", "$target", ""))
	case 0, 1:
		recv := w.Key("user", r.Rng.IntN(st.NUsers)).Hex().Hex()
		amt := int64(1 + r.Rng.IntN(5000))
		if denom == "FX" {
			amt *= 1e9
		}
		return blk(Tx{K: "convert_coin", S: signer, A: A("denom", denom, "amount", amt, "receiver", recv)})
	case 2:
		// coin <-> bridge denomination of the same token
		target := ch.Name
		d := "usdt"
		if r.Pct(40) {
			d = cctypes.NewBridgeDenom(ch.Name, ExtAddrStr(ch.Name, tokenContract(ch.Name, "USDT")))
			target = ""
		}
		return blk(Tx{K: "convert_denom", S: signer, A: A("denom", d, "amount", 1+r.Rng.IntN(300), "receiver", w.Key("user", r.Rng.IntN(st.NUsers)).Bech(), "target", target)})
	case 3:
		return blk(pc("token:"+sym, "transfer", other(), fmt.Sprint(1+r.Rng.IntN(500))))
	case 4:
		return blk(pc("token:"+sym, "approve", cctypes.GetAddress().Hex(), "1000000000000000"))
	case 5:
		// ERC-20 out through the bridge (converts ERC-20 -> coin -> bridge token)
		return blk(pc("token:"+sym, "approve", cctypes.GetAddress().Hex(), "1000000000000000"),
			pc("crosschain", "crossChain", "$"+sym, fmt.Sprintf("$ext%d", r.Rng.IntN(5)), fmt.Sprint(10+r.Rng.IntN(500)), "2", "$target", ""))
	case 6:
		return blk(pc("crosschain", "bridgeCall", "$chain", other(), "$"+sym, fmt.Sprint(10+r.Rng.IntN(500)), fmt.Sprintf("$ext%d", r.Rng.IntN(5)), "", "0", ""))
	case 7:
		// inbound deposit straight into ERC-20 form
		symU := map[string]string{"usdt": "USDT", "FX": "FX", "tst": "TST"}[denom]
		return Step{Kind: "ext", A: A("chain", ch.Name, "op", "send_to_fx", "symbol", symU, "user", r.Rng.IntN(st.NUsers), "amount", 1+r.Rng.IntN(3000), "target", map[bool]string{true: "erc20", false: ""}[r.Pct(60)])}
	case 8:
		// inbound bridge call carrying tokens to a contract or an account
		to := w.Key("user", r.Rng.IntN(st.NUsers)).Hex()
		if len(st.Evm.Programs) > 0 && r.Pct(60) {
			dp := st.Evm.Programs[r.Rng.IntN(len(st.Evm.Programs))]
			if dp.OK {
				to = dp.Addrs[0]
			}
		}
		return Step{Kind: "ext", A: A("chain", ch.Name, "op", "bridge_call", "symbols", "USDT", "amounts", fmt.Sprint(1+r.Rng.IntN(2000)), "user", r.Rng.IntN(st.NUsers), "to", to.Hex(), "data", hex.EncodeToString(MaskAll()), "memo", "")}
	case 9:
		if r.Pct(30) {
			// a second coin registration that re-uses an alias owned by an existing pair (must be refused)
			alias := cctypes.NewBridgeDenom(ch.Name, ExtAddrStr(ch.Name, tokenContract(ch.Name, []string{"USDT", "TST"}[r.Rng.IntN(2)])))
			return Step{Kind: "gov", DtMs: 5000, A: A("what", "register_coin", "symbol", fmt.Sprintf("DUP%d", m.phase), "decimals", 6, "aliases", alias)}
		}
		if r.Pct(50) {
			return Step{Kind: "gov", DtMs: 5000, A: A("what", "toggle", "token", denom)}
		}
		return blk(Tx{K: "execute_claim_all", S: signer})
	case 10, 11:
		p := e.genMixProgram(r, sym)
		bz, _ := json.Marshal(p)
		return Step{Kind: "deploy", A: A("prog", string(bz), "deployer", signer, "fund_fx", FX(20).String(), "fund_usdt", 5000)}
	default:
		var idx []int
		for i, p := range st.Evm.Programs {
			if p.OK {
				idx = append(idx, i)
			}
		}
		if len(idx) == 0 {
			return blk(Tx{K: "execute_claim_all", S: signer})
		}
		gas := []uint64{20_000_000, 20_000_000, 400_000, 150_000}[r.Rng.IntN(4)]
		return Step{Kind: "run", A: A("prog", idx[len(idx)-1-r.Rng.IntN(min(len(idx), 3))], "sender", signer, "ladder", "", "commit", gas)}
	}
}

// c08CycleStep drives the only way coins of the externally-owned token come into users' hands - withdraw
// through the bridge, deposit back with an empty target - and then converts them to addresses that must
// not receive (module accounts) and to ordinary ones.
func (e EvmEngine) c08CycleStep(r *Run) (Step, bool) {
	st := bst(r)
	w := r.W
	ch := st.Chains[0]
	blk := func(txs ...Tx) Step { return Step{Kind: "block", DtMs: 5000, N: 1, Txs: txs} }
	holder := -1
	for i := 0; i < st.NUsers; i++ {
		if w.App.BankKeeper.GetBalance(w.Ctx(), w.Key("user", i).Acc(), "tst").Amount.IsPositive() {
			holder = i
		}
	}
	if holder >= 0 {
		bal := w.App.BankKeeper.GetBalance(w.Ctx(), w.Key("user", holder).Acc(), "tst").Amount
		amt := int64(1 + r.Rng.IntN(500))
		if bal.IsInt64() && bal.Int64() < amt {
			amt = bal.Int64()
		}
		recv := w.Key("user", r.Rng.IntN(st.NUsers)).Hex()
		if r.Pct(70) {
			mod := []string{erc20types.ModuleName, erc20types.ModuleName, ch.Name, "distribution", "gov"}[r.Rng.IntN(5)]
			recv = common.BytesToAddress(authtypes.NewModuleAddress(mod))
			r.Probe("tst-cycle:convert-held-coin-to-module")
		} else {
			r.Probe("tst-cycle:convert-held-coin-to-user")
		}
		return blk(Tx{K: "convert_coin", S: KeyName("user", holder), A: A("denom", "tst", "amount", amt, "receiver", recv.Hex())}), true
	}
	v := w.ViewChain(w.Ctx(), ch.Name)
	if len(v.Pending) > 0 {
		return blk(Tx{K: "execute_claim_all", S: KeyName("user", r.Rng.IntN(st.NUsers))}), true
	}
	if txs := e.B.genClaims(r, ch, v); len(txs) > 0 {
		return blk(txs...), true
	}
	alias := cctypes.NewBridgeDenom(ch.Name, ExtAddrStr(ch.Name, tokenContract(ch.Name, "TST")))
	stock := w.App.BankKeeper.GetBalance(w.Ctx(), authtypes.NewModuleAddress(ch.Name), alias).Amount
	if stock.IsPositive() {
		a := int64(2000)
		if stock.IsInt64() && stock.Int64() < a {
			a = stock.Int64()
		}
		a = 1 + r.Rng.Int64N(a)
		r.Probe("tst-cycle:redeposit")
		return Step{Kind: "ext", A: A("chain", ch.Name, "op", "send_to_fx", "symbol", "TST", "user", r.Rng.IntN(st.NUsers), "amount", a, "target", "")}, true
	}
	signer := KeyName("user", r.Rng.IntN(st.NUsers))
	pc := func(t, meth string, args ...string) Tx {
		return Tx{K: "pcall", S: signer, A: A("t", t, "m", meth, "args", strings.Join(args, "|")), Gas: 3_000_000}
	}
	r.Probe("tst-cycle:withdraw")
	return blk(pc("token:TST", "approve", cctypes.GetAddress().Hex(), "1000000000000000"),
		pc("crosschain", "crossChain", "$TST", fmt.Sprintf("$ext%d", r.Rng.IntN(5)), fmt.Sprint(100+r.Rng.IntN(3000)), "2", "$target", "")), true
}

// genMixProgram: a contract touches a token directly and, in the same transaction, calls a
// precompile that converts the same token (both orders, caught reverts in between).
func (e EvmEngine) genMixProgram(r *Run, sym string) Program {
	st := bst(r)
	v := r.W.ViewChain(r.W.Ctx(), st.Chains[0].Name)
	other := func() string { return fmt.Sprintf("$user%d", r.Rng.IntN(st.NUsers)) }
	bit := 0
	next := func() int { b := bit; bit++; return b }
	tokenOp := func() PAct {
		switch r.Rng.IntN(3) {
		case 0:
			return PAct{K: "pre", T: "token:" + sym, M: "transfer", Args: []string{other(), fmt.Sprint(1 + r.Rng.IntN(300))}, Bit: next()}
		case 1:
			return PAct{K: "pre", T: "token:" + sym, M: "approve", Args: []string{cctypes.GetAddress().Hex(), "1000000000000000"}, Bit: next()}
		default:
			return PAct{K: "pre", T: "token:" + sym, M: "transfer", Args: []string{"$node0", "1"}, Bit: next()}
		}
	}
	convOp := func() []PAct {
		ap := PAct{K: "pre", T: "token:" + sym, M: "approve", Args: []string{cctypes.GetAddress().Hex(), "1000000000000000"}, Bit: next()}
		switch r.Rng.IntN(4) {
		case 0:
			return []PAct{ap, {K: "pre", T: "crosschain", M: "crossChain", Args: []string{"$" + sym, fmt.Sprintf("$ext%d", r.Rng.IntN(5)), fmt.Sprint(5 + r.Rng.IntN(200)), "1", "$target", ""}, Bit: next()}}
		case 1:
			return []PAct{{K: "pre", T: "crosschain", M: "bridgeCall", Args: []string{"$chain", other(), "$" + sym, fmt.Sprint(5 + r.Rng.IntN(200)), fmt.Sprintf("$ext%d", r.Rng.IntN(5)), "", "0", ""}, Bit: next()}}
		case 2:
			pend := v.SortedPending()
			if len(pend) > 0 {
				return []PAct{{K: "pre", T: "crosschain", M: "executeClaim", Args: []string{"$chain", fmt.Sprint(pend[r.Rng.IntN(len(pend))])}, Bit: next()}}
			}
			fallthrough
		default:
			if len(v.Pool) > 0 {
				return []PAct{{K: "pre", T: "crosschain", M: "cancelSendToExternal", Args: []string{"$chain", fmt.Sprint(v.Pool[r.Rng.IntN(len(v.Pool))].Id)}, Bit: next()}}
			}
			return []PAct{ap}
		}
	}
	if r.Pct(25) {
		// template: a child converts through a keeper-level path and is reverted, the parent
		// touches the same token through the running EVM before and after
		child := PNode{End: "revert"}
		child.Acts = append(child.Acts, PAct{K: "pre", T: "crosschain", M: "bridgeCall", Args: []string{"$chain", other(), "$" + sym, fmt.Sprint(5 + r.Rng.IntN(200)), fmt.Sprintf("$ext%d", r.Rng.IntN(5)), "", "0", ""}, Bit: next()})
		child.Acts = append(child.Acts, tokenOp())
		root := PNode{End: "return"}
		root.Acts = append(root.Acts, tokenOp(), PAct{K: "child", Child: 1})
		root.Acts = append(root.Acts, convOp()...)
		return Program{Nodes: []PNode{root, child}}
	}
	n := 1 + r.Rng.IntN(2)
	p := Program{Nodes: make([]PNode, n)}
	for j := 0; j < n; j++ {
		var acts []PAct
		for k := 0; k < 2+r.Rng.IntN(3); k++ {
			if r.Pct(50) {
				acts = append(acts, tokenOp())
			} else {
				acts = append(acts, convOp()...)
			}
		}
		p.Nodes[j].Acts = acts
		p.Nodes[j].End = []string{"return", "return", "return", "revert"}[r.Rng.IntN(4)]
	}
	p.Nodes[0].End = "return"
	if n == 2 {
		ch := PAct{K: "child", Child: 1}
		pos := r.Rng.IntN(len(p.Nodes[0].Acts) + 1)
		acts := p.Nodes[0].Acts
		p.Nodes[0].Acts = append(acts[:pos:pos], append([]PAct{ch}, acts[pos:]...)...)
	}
	return p
}

var _ = sdk.AccAddress{}
