package sim

import (
	"fmt"
	"math/big"

	"github.com/ethereum/go-ethereum/common"
	"sort"
	"strings"

	sdk "github.com/cosmos/cosmos-sdk/types"

	cctypes "github.com/functionx/fx-core/v8/x/crosschain/types"
)

// C03 — the executed event is field-for-field the event the quorum voted for.
// Differential oracle: whenever two accepted claims that differ in a field other than the
// bridger address end up in the SAME attestation (observed on state), both are executed on
// branches of the same state through the real handler; the full store dumps must be equal.

type acceptedClaim struct {
	Oracle  string
	Variant string
	VVal    string
	N       uint64
	O       int
}

type c03Model struct {
	claims           map[string][]acceptedClaim // chain|nonce
	done             map[string]bool
	recCalls, recVal uint64
}

func newC03(st *BridgeSt) *c03Model {
	return &c03Model{claims: map[string][]acceptedClaim{}, done: map[string]bool{}}
}

func (m *c03Model) check(r *Run, c *bridgeChecks, s *Step, o *Outcome) []Violation {
	var vs []Violation
	st := bst(r)
	w := r.W
	for _, t := range claimTxs(o) {
		if !t.Res.OK() {
			continue
		}
		ch := st.chain(t.Tx.A.Str("chain"))
		if ch == nil || t.Tx.A.Int("o") >= len(ch.Oracles) {
			continue
		}
		key := fmt.Sprintf("%s|%d", ch.Name, t.Tx.A.U64("n"))
		m.claims[key] = append(m.claims[key], acceptedClaim{Oracle: ch.oracleKey(w, t.Tx.A.Int("o")).Bech(), Variant: t.Tx.A.Str("variant"), VVal: t.Tx.A.Str("vval"), N: t.Tx.A.U64("n"), O: t.Tx.A.Int("o")})
	}
	if r.Prop == "C03" {
		cnt := w.App.EvmKeeper.GetState(w.Ctx(), RecorderAddr(w), common.BigToHash(big.NewInt(2))).Big().Uint64()
		val := w.App.EvmKeeper.GetState(w.Ctx(), RecorderAddr(w), common.BigToHash(big.NewInt(0))).Big().Uint64()
		if cnt > m.recCalls {
			r.Probe("recorder-contract-called")
			m.recCalls = cnt
		}
		if val > m.recVal {
			r.Probe("recorder-contract-received-value")
			m.recVal = val
		}
	}
	for _, ch := range st.Chains {
		post := c.post[ch.Name]
		vs = append(vs, m.collisions(r, ch, post)...)
		// which attestation did each accepted claim join (by its vote)
		byNonce := map[uint64][]AttView{}
		for _, a := range post.Atts {
			byNonce[a.Nonce] = append(byNonce[a.Nonce], a)
		}
		var nonces []uint64
		for n := range byNonce {
			nonces = append(nonces, n)
		}
		sort.Slice(nonces, func(i, j int) bool { return nonces[i] < nonces[j] })
		for _, n := range nonces {
			acc := m.claims[fmt.Sprintf("%s|%d", ch.Name, n)]
			if len(acc) < 2 {
				continue
			}
			ev := ch.Ext.Event(n)
			if ev == nil {
				continue
			}
			for _, a := range byNonce[n] {
				voted := map[string]bool{}
				for _, v := range a.Votes {
					voted[v] = true
				}
				// distinct variants inside this attestation
				seen := map[string]acceptedClaim{}
				var order []string
				for _, ac := range acc {
					if !voted[ac.Oracle] {
						continue
					}
					k := ac.Variant + "=" + ac.VVal
					if _, ok := seen[k]; !ok {
						seen[k] = ac
						order = append(order, k)
					}
				}
				if len(order) < 2 {
					continue
				}
				sort.Strings(order)
				doneKey := fmt.Sprintf("%s|%d|%s|%v", ch.Name, n, a.Hash, order)
				if m.done[doneKey] {
					continue
				}
				m.done[doneKey] = true
				r.Nontrivial = true
				r.Probe("variants-share-attestation")
				ref := seen[order[0]]
				refDump, refErr := m.branchEffect(r, ch, ev, ref)
				for _, k := range order[1:] {
					oth := seen[k]
					d, e := m.branchEffect(r, ch, ev, oth)
					diff := Diff(refDump, d)
					if len(diff) > 0 || (refErr == nil) != (e == nil) {
						field := oth.Variant
						if field == "" {
							field = ref.Variant
						}
						msg := fmt.Sprintf("%s: claims for nonce %d that differ in %q (%q vs %q) were tallied in the same attestation but execute differently", ch.Name, n, field, order[0], k)
						if len(diff) > 0 {
							msg += ": " + diff[0].String()
						}
						vs = append(vs, viol("same-attestation-same-effect", ev.Kind+"/"+field, "%s", msg))
					} else {
						r.Probe("variants-equal-effect:" + ev.Kind + "/" + oth.Variant + ref.Variant)
					}
				}
			}
		}
	}
	return vs
}

// collisions: for the event that is next to be observed, every single-field / re-split variant of
// the honest claim whose attestation identity (the hash the module files votes under) equals the
// honest one is executed on a branch next to the honest claim: the effects must be equal.
func (m *c03Model) collisions(r *Run, ch *ChainSt, post *ChainView) []Violation {
	var vs []Violation
	w := r.W
	n := post.LastObs + 1
	ev := ch.Ext.Event(n)
	key := fmt.Sprintf("collide|%s|%d", ch.Name, n)
	if ev == nil || m.done[key] {
		return nil
	}
	m.done[key] = true
	honest := ch.buildClaim(w, ev, ch.bridgerKey(w, 0).Bech(), "")
	if honest == nil {
		return nil
	}
	type cand struct{ f, v string }
	var cands []cand
	fields := claimFields(honest)
	for _, fa := range fields {
		for _, fb := range fields {
			if fa == fb {
				continue
			}
			for k := 1; k <= 3; k++ {
				cands = append(cands, cand{"resplit", fmt.Sprintf("%s:%s:%d", fa, fb, k)})
			}
		}
	}
	for _, f := range fields {
		cands = append(cands, cand{"case:" + f, "-"}, cand{"swap:" + f, "-"})
		for k := 0; k < nTargetSpellings; k++ {
			cands = append(cands, cand{"alias:" + f, fmt.Sprint(k)})
		}
		for k := 0; k < 3; k++ {
			cands = append(cands, cand{"pad:" + f, fmt.Sprint(k)})
		}
	}
	hh := safeHash(honest)
	var refDump Dump
	var refErr error
	haveRef := false
	for _, cd := range cands {
		cl := ch.buildClaim(w, ev, ch.bridgerKey(w, 0).Bech(), "")
		if mutateClaim(cl, cd.f, cd.v) != nil || safeValidate(cl) != nil {
			continue
		}
		r.Probe("c03-variant-hashed")
		if string(safeHash(cl)) != string(hh) || cl.String() == honest.String() {
			continue
		}
		r.Probe("c03-variant-same-identity")
		r.Nontrivial = true
		if !haveRef {
			refDump, refErr = m.branchEffect(r, ch, ev, acceptedClaim{N: n})
			haveRef = true
			if refErr != nil {
				r.Probe("c03-honest-branch-error")
			}
		}
		d, e := m.branchEffect(r, ch, ev, acceptedClaim{Variant: cd.f, VVal: cd.v, N: n})
		diff := Diff(refDump, d)
		if len(diff) > 0 || (refErr == nil) != (e == nil) {
			msg := fmt.Sprintf("%s: two claims for nonce %d that differ by %s %s are filed under the same attestation but execute differently", ch.Name, n, cd.f, cd.v)
			if len(diff) > 0 {
				msg += ": " + diff[0].String()
			}
			site := ev.Kind + "/" + cd.f + "/" + fieldsOf(cd.v)
			if strings.HasPrefix(cd.f, "alias:") || strings.HasPrefix(cd.f, "pad:") {
				site = ev.Kind + "/" + cd.f + "/-"
			}
			vs = append(vs, viol("same-attestation-same-effect", site, "%s", msg))
		}
	}
	return vs
}

func fieldsOf(spec string) string {
	p := strings.Split(spec, ":")
	if len(p) >= 2 {
		return p[0] + "+" + p[1]
	}
	return spec
}

func safeHash(cl cctypes.ExternalClaim) (h []byte) {
	defer func() {
		if recover() != nil {
			h = nil
		}
	}()
	return cl.ClaimHash()
}

// branchEffect executes the claim variant on a branch of the committed state and returns
// the resulting full dump.
func (m *c03Model) branchEffect(r *Run, ch *ChainSt, ev *ExtEvent, ac acceptedClaim) (d Dump, err error) {
	w := r.W
	ctx := w.Branch()
	claim := ch.buildClaim(w, ev, ch.bridgerKey(w, 0).Bech(), "")
	if ac.Variant != "" {
		if e := mutateClaim(claim, ac.Variant, ac.VVal); e != nil {
			return w.DumpCtx(ctx), e
		}
	}
	k := ch.keeper(w)
	func() {
		defer func() {
			if rec := recover(); rec != nil {
				err = fmt.Errorf("panic: %v", rec)
			}
		}()
		cctx, commit := ctx.CacheContext()
		if e := k.AttestationHandler(cctx, claim); e != nil {
			err = e
			return
		}
		commit()
		switch claim.(type) {
		case *cctypes.MsgSendToFxClaim, *cctypes.MsgBridgeCallClaim, *cctypes.MsgBridgeCallResultClaim:
			cctx2, commit2 := ctx.CacheContext()
			if e := k.ExecuteClaim(cctx2, claim.GetEventNonce()); e != nil {
				err = e
				return
			}
			commit2()
		}
	}()
	return w.DumpCtx(ctx), err
}

var _ = sdk.AccAddress{}
