package sim

import (
	"fmt"
	"math/big"

	sdk "github.com/cosmos/cosmos-sdk/types"
	"github.com/ethereum/go-ethereum/common"
	ethcrypto "github.com/ethereum/go-ethereum/crypto"

	cctypes "github.com/functionx/fx-core/v8/x/crosschain/types"
)

// ---------------------------------------------------------------------------------------
// C18 (a): an observed external event whose handler fails. The attestation is still marked
// observed (validators can be slashed for not voting) and nothing else may remain.
//
// Differential: from the same committed state the quorum attests (real keeper.Attest ->
// TryAttestation -> processAttestation) once the failing claim and once a twin claim with the
// same nonce and height whose handler only parks a pending record (MsgSendToFxClaim). The two
// resulting states must be equal except for the attestation record (it contains the claim)
// and the twin's parked claim - so anything the failing handler wrote before failing shows,
// while the work done after the handler (time-outs, pruning) cancels out.

var c18AttKinds = []string{"dup_token", "fx_decimals", "oracle_set_unknown"}

// c18BadEvent builds the external event of a failing kind (not yet numbered).
func (e C18Engine) c18BadEvent(r *Run, ch *ChainSt, kind string, sym string, salt int) *ExtEvent {
	w := r.W
	switch kind {
	case "dup_token":
		for _, t := range ch.Tokens {
			if t.Symbol == sym && t.Added {
				dec := uint64(18)
				if sym == "USDT" {
					dec = 6
				}
				return &ExtEvent{Kind: "add_token", Token: t.Contract, Name: sym + " token", Symbol: sym, Decimals: dec}
			}
		}
	case "fx_decimals":
		tok := common.BytesToAddress(ethcrypto.Keccak256([]byte(fmt.Sprintf("fxsim/c18/fx2/%d", salt)))[12:])
		return &ExtEvent{Kind: "add_token", Token: tok, Name: "Function X", Symbol: "FX", Decimals: uint64(6 + salt%7)}
	case "oracle_set_unknown":
		k := ch.keeper(w)
		// the members are real (MsgClaim refuses unknown external addresses), the nonce is not
		latest := k.GetLatestOracleSetNonce(w.Ctx())
		var members []ExtMember
		if os := k.GetOracleSet(w.Ctx(), latest); os != nil {
			members = membersOf(ch.Name, os)
		}
		if len(members) == 0 {
			members = []ExtMember{{Addr: ch.extKey(w, 0).Hex(), Power: 4294967295}}
		}
		return &ExtEvent{Kind: "oracle_set", SetNonce: latest + 3 + uint64(salt%5), Members: members}
	}
	return nil
}

type c18AttRes struct {
	Post     Dump
	Observed bool
	Success  string // state_success attribute of the contract event
	Err      string
	Votes    int
}

// attestOnBranch lets every online oracle that is in step vote for the claim built from ev.
func (e C18Engine) attestOnBranch(r *Run, ch *ChainSt, ev *ExtEvent) *c18AttRes {
	w := r.W
	k := ch.keeper(w)
	ctx := w.branchCtx()
	res := &c18AttRes{}
	nonce := k.GetLastObservedEventNonce(ctx) + 1
	e2 := *ev
	e2.Nonce, e2.Height = nonce, ch.Ext.Height
	func() {
		defer func() {
			if rec := recover(); rec != nil {
				res.Err = fmt.Sprint(rec)
			}
		}()
		for i := range ch.Oracles {
			oa := ch.oracleKey(w, i).Acc()
			or, found := k.GetOracle(ctx, oa)
			if !found || !or.Online {
				continue
			}
			if k.GetLastEventNonceByOracle(ctx, oa)+1 != nonce {
				continue
			}
			claim := ch.buildClaim(w, &e2, or.BridgerAddress, "")
			if claim == nil {
				res.Err = "claim kind"
				return
			}
			if err := safeValidate(claim); err != nil {
				res.Err = "validate: " + err.Error()
				return
			}
			cctx, commit := ctx.CacheContext()
			if _, err := k.Attest(cctx, oa, claim); err != nil {
				res.Err = err.Error()
				return
			}
			commit()
			res.Votes++
		}
	}()
	res.Post = w.DumpCtx(ctx)
	res.Observed = k.GetLastObservedEventNonce(ctx) == nonce
	for _, evn := range ctx.EventManager().Events() {
		if evn.Type == cctypes.EventTypeContractEvent {
			for _, at := range evn.Attributes {
				if at.Key == cctypes.AttributeKeyStateSuccess {
					res.Success = at.Value
				}
			}
		}
	}
	return res
}

func (e C18Engine) genAtt(r *Run) (Step, bool) {
	st := bst(r)
	cs := c18st(r)
	c := st.Chains[0]
	if !c.Ext.Inited {
		return Step{}, false
	}
	kind := c18AttKinds[r.Rng.IntN(len(c18AttKinds))]
	toks := e.addedTokens(r)
	if len(toks) == 0 {
		return Step{}, false
	}
	sym := toks[r.Rng.IntN(len(toks))].Symbol
	cs.uniq++
	salt := r.Rng.IntN(1000)
	a := A("chain", c.Name, "kind", kind, "sym", sym, "salt", salt, "twin", toks[r.Rng.IntN(len(toks))].Symbol)
	s := Step{Kind: "c18_att", A: a}
	if r.Pct(45) {
		// the same event also happens for real: external log -> claims -> attestation
		cs.Queue = append(cs.Queue,
			Step{Kind: "c18_ext", A: A("chain", c.Name, "kind", kind, "sym", sym, "salt", salt)},
			Step{Kind: "block", DtMs: 5000, N: 1, Txs: []Tx{{K: "c18_catchup", S: "user/0"}}})
	}
	return s, true
}

func c18AttIgnorable(x DiffEntry, chain string, nonce uint64) bool {
	if x.Store != chain || len(x.Key) < 9 {
		return false
	}
	if x.Key[0] != 0x17 && x.Key[0] != 0x54 {
		return false
	}
	return be64(x.Key[1:9]) == nonce
}

func (e C18Engine) applyAtt(r *Run, s *Step, o *Outcome) {
	st := bst(r)
	cs := c18st(r)
	w := r.W
	ch := st.chain(s.A.Str("chain"))
	if ch == nil || !ch.Ext.Inited {
		o.Note = "no chain"
		return
	}
	kind := s.A.Str("kind")
	bad := e.c18BadEvent(r, ch, kind, s.A.Str("sym"), s.A.Int("salt"))
	if bad == nil {
		o.Note = "no such event"
		return
	}
	var twinTok *TokenInfo
	for _, t := range ch.Tokens {
		if t.Symbol == s.A.Str("twin") && t.Added {
			twinTok = t
		}
	}
	if twinTok == nil {
		o.Note = "no twin token"
		return
	}
	twin := &ExtEvent{Kind: "send_to_fx", Token: twinTok.Contract, Sender: w.Key("extuser", 0).Hex(), Receiver: w.Key("user", 0).Bech(), Amount: big.NewInt(1)}
	k := ch.keeper(w)
	nonce := k.GetLastObservedEventNonce(w.Ctx()) + 1
	pre := w.DumpCtx(w.branchCtx())
	f := e.attestOnBranch(r, ch, bad)
	t := e.attestOnBranch(r, ch, twin)
	r.Probe("a:evaluated:" + kind)
	if r.Verbose {
		fmt.Printf("      att %s: observed=%v success=%q votes=%d err=%q | twin observed=%v success=%q err=%q\n", kind, f.Observed, f.Success, f.Votes, firstLine(f.Err), t.Observed, t.Success, firstLine(t.Err))
	}
	if f.Err != "" || t.Err != "" {
		r.Probe("a:not-attestable")
		return
	}
	// the designated outcome of a failed handler is "the event marked observed": the attestation record flagged AND
	// the chain's last observed event nonce standing at this event (otherwise no later event can ever be tallied)
	attFlagged := func(post Dump) bool {
		for _, kv := range c18DumpPrefix(post, ch.Name, append([]byte{0x17}, sdk.Uint64ToBigEndian(nonce)...)) {
			var a cctypes.Attestation
			if err := w.App.AppCodec().Unmarshal(kv[1], &a); err == nil && a.Observed {
				return true
			}
		}
		return false
	}
	if attFlagged(f.Post) && !f.Observed {
		cs.violate("attestation-marked-observed", "attestation/"+kind+"/flagged-but-last-observed-nonce-not-advanced", "event %d (%s): the attestation record is marked observed but the last observed event nonce still stands before it", nonce, kind)
		return
	}
	if !f.Observed || !t.Observed {
		// no quorum on the branch: both runs must agree on that at least
		r.Probe("a:no-quorum")
		return
	}
	if f.Success != "false" {
		r.Probe("a:handler-did-not-fail:" + kind)
		return
	}
	r.Fault("a:" + kind)
	r.State("a|" + kind)
	r.Nontrivial = true
	r.Probe("a:compared")
	// designated outcome: observed, and compared with the pre-state only the module's
	// attestation bookkeeping changed
	d := FilterDiff(Diff(f.Post, t.Post), func(x DiffEntry) bool { return c18AttIgnorable(x, ch.Name, nonce) })
	if len(d) > 0 {
		cs.violate("failed-handler-no-effects", "attestation/"+kind+"/"+c18KeyClass(d[0]), "event %d (%s): after the failing handler the state differs from the state after a claim whose handler only parks a record:%s", nonce, kind, c18DiffText(d, 5))
	}
	// the attestation itself
	okAtt := false
	for _, kv := range c18DumpPrefix(f.Post, ch.Name, append([]byte{0x17}, sdk.Uint64ToBigEndian(nonce)...)) {
		var a cctypes.Attestation
		if err := w.App.AppCodec().Unmarshal(kv[1], &a); err == nil && a.Observed {
			okAtt = true
		}
	}
	if !okAtt {
		cs.violate("attestation-marked-observed", "attestation/"+kind, "event %d (%s): last observed nonce advanced but no attestation record is marked observed", nonce, kind)
	}
	// versus the pre-state: only attestation bookkeeping keys of the module's store
	dp := FilterDiff(Diff(pre, f.Post), func(x DiffEntry) bool {
		if x.Store != ch.Name || len(x.Key) == 0 {
			return false
		}
		switch x.Key[0] {
		case 0x17, 0x23, 0x24, 0x32, 0x35:
			return true
		}
		// work that follows every observation (time-outs, pruning) is the twin's as well
		return false
	})
	if len(dp) > 0 {
		// not every such difference is the handler's: time-outs run after every observation.
		// Only report what the twin does not show as well.
		twinToo := c18DiffKeySet(Diff(pre, t.Post))
		dp = FilterDiff(dp, func(x DiffEntry) bool { return twinToo[x.Store+"\x00"+string(x.Key)] })
		if len(dp) > 0 {
			cs.violate("designated-outcome-only", "attestation/"+kind+"/"+c18KeyClass(dp[0]), "event %d (%s): besides marking the attestation observed the failed handler left:%s", nonce, kind, c18DiffText(dp, 5))
		}
	}
}

func c18DumpPrefix(d Dump, store string, prefix []byte) [][2][]byte {
	var out [][2][]byte
	for k, v := range d[store] {
		if len(k) >= len(prefix) && k[:len(prefix)] == string(prefix) {
			out = append(out, [2][]byte{[]byte(k), v})
		}
	}
	return out
}

// applyExtBad appends a failing event to the external chain's log (the external contract
// model would refuse to emit it; a real contract upgrade or a second FX contract can).
func (e C18Engine) applyExtBad(r *Run, s *Step, o *Outcome) {
	st := bst(r)
	cs := c18st(r)
	ch := st.chain(s.A.Str("chain"))
	if ch == nil || !ch.Ext.Inited {
		o.Note = "no chain"
		return
	}
	ev := e.c18BadEvent(r, ch, s.A.Str("kind"), s.A.Str("sym"), s.A.Int("salt"))
	if ev == nil {
		o.Note = "no such event"
		return
	}
	ev = ch.Ext.emit(ev)
	cs.badEvents[ev.Nonce] = s.A.Str("kind")
	o.Note = fmt.Sprintf("external event %d", ev.Nonce)
}

// judgeCommittedAtt: a block observed failing events through real MsgClaim transactions.
func (e C18Engine) judgeCommittedAtt(r *Run, pre, post *ChainView, o *Outcome) {
	cs := c18st(r)
	if pre == nil || post == nil || post.LastObs == pre.LastObs {
		return
	}
	for n := pre.LastObs + 1; n <= post.LastObs; n++ {
		kind, bad := cs.badEvents[n]
		if !bad {
			continue
		}
		r.Probe("commit:a:observed:" + kind)
		r.Fault("a:committed:" + kind)
		observed := false
		for _, a := range post.Atts {
			if a.Nonce == n && a.Observed {
				observed = true
			}
		}
		if !observed {
			// pruned attestations are fine; an existing unobserved one is not
			for _, a := range post.Atts {
				if a.Nonce == n && !a.Observed {
					cs.violate("attestation-marked-observed", "committed/attestation/"+kind, "event %d passed the last observed nonce but its attestation is not marked observed", n)
				}
			}
		}
		// the handler's targets are untouched
		if fmt.Sprint(c18SortedKV(pre.BridgeDenoms)) != fmt.Sprint(c18SortedKV(post.BridgeDenoms)) {
			cs.violate("failed-handler-no-effects", "committed/attestation/"+kind+"/bridge-denoms", "event %d (%s) failed in its handler but the bridge token table changed", n, kind)
		}
		preSet, postSet := uint64(0), uint64(0)
		if pre.LastObsSet != nil {
			preSet = pre.LastObsSet.Nonce
		}
		if post.LastObsSet != nil {
			postSet = post.LastObsSet.Nonce
		}
		if kind == "oracle_set_unknown" && preSet != postSet {
			cs.violate("failed-handler-no-effects", "committed/attestation/"+kind+"/last-observed-oracle-set", "event %d (%s) failed in its handler but the last observed oracle set changed %d -> %d", n, kind, preSet, postSet)
		}
	}
}

func c18SortedKV(m map[string]string) []string {
	var out []string
	for _, k := range sortedKeys(m) {
		out = append(out, k+"="+m[k])
	}
	return out
}
