package sim

// C17 replicas: re-execute a transcript block by block in an independent process and compare
// every block with the recorded reference.

import (
	"encoding/json"
	"flag"
	"fmt"
	"os"
	"path/filepath"
	"runtime"
	"runtime/debug"
	"sort"
	"strings"
	"time"

	"cosmossdk.io/store/cache"
	pruningtypes "cosmossdk.io/store/pruning/types"
	abci "github.com/cometbft/cometbft/abci/types"
	dbm "github.com/cosmos/cosmos-db"
	"github.com/cosmos/cosmos-sdk/baseapp"
	"github.com/cosmos/cosmos-sdk/telemetry"

	"github.com/functionx/fx-core/v8/app"
)

// c17Kind describes one way of being "another node".
type c17Kind struct {
	Name     string
	Binary   string                          // "fxsim" (default toolchain) or "fxsim126" (go1.26.8)
	Env      []string                        // process environment of the replica
	Synctest bool                            // run inside a testing/synctest bubble (fake wall clock)
	NodeOpts bool                            // seeded node-local options
	Crash    bool                            // persistent DB, crashes between FinalizeBlock and Commit, restarts
	Fixed    map[string]string               // fixed node options (app.toml keys)
	Base     func() []func(*baseapp.BaseApp) // fixed baseapp options (what the server derives from app.toml)
	BaseDesc []string
	What     string
}

var c17Kinds = []c17Kind{
	{Name: "proc-gomaxprocs1", Binary: "fxsim", Env: []string{"GOMAXPROCS=1"}, What: "fresh OS process, GOMAXPROCS=1"},
	{Name: "proc-gomaxprocs16-gogc1", Binary: "fxsim", Env: []string{"GOMAXPROCS=16", "GOGC=1"}, What: "fresh OS process, GOMAXPROCS=16, GOGC=1 (collector runs all the time)"},
	{Name: "go126", Binary: "fxsim126", Env: []string{"GOMAXPROCS=4"}, What: "binary built with go1.26.8 (other runtime, swiss-table maps)"},
	{Name: "go126-synctest", Binary: "fxsim126", Env: []string{"GOMAXPROCS=4"}, Synctest: true, What: "go1.26.8 binary, whole replica (app included) inside a testing/synctest bubble: wall clock starts at 2000-01-01"},
	{Name: "node-options", Binary: "fxsim", Env: []string{"GOMAXPROCS=3"}, NodeOpts: true, What: "telemetry enabled, other min-gas-price, IAVL cache size / fast node, pruning nothing/default, inter-block cache, trace, index-events, EVM struct tracer, bypass-min-fee limits (seeded subset)"},
	{Name: "crash-restart", Binary: "fxsim", Env: []string{"GOMAXPROCS=2"}, Crash: true, What: "goleveldb on disk; at seeded blocks the process state is dropped between FinalizeBlock and Commit (or right after Commit), the app is reopened over the same DB and the block re-executed"},
	// single app.toml options on kinds of their own (so that a finding about one has its own site); in the quick tier every 4th transcript gets one of them
	{Name: "node-opt-evm-max-tx-gas-wanted", Binary: "fxsim", Env: []string{"GOMAXPROCS=2"}, Fixed: map[string]string{"evm.max-tx-gas-wanted": "500000"}, What: "app.toml evm.max-tx-gas-wanted=500000 (documented as a CheckTx-only limit), nothing else changed"},
	{Name: "node-opt-evm-tracer-access-list", Binary: "fxsim", Env: []string{"GOMAXPROCS=2"}, Fixed: map[string]string{"evm.tracer": "access_list"}, What: "app.toml evm.tracer=access_list (debug tracer), nothing else changed"},
	{Name: "node-opt-iavl-cache0-pruning", Binary: "fxsim", Env: []string{"GOMAXPROCS=2"}, BaseDesc: []string{"iavl-cache-size=0", "pruning=everything"},
		Base: func() []func(*baseapp.BaseApp) {
			return []func(*baseapp.BaseApp){baseapp.SetIAVLCacheSize(0), baseapp.SetPruning(pruningtypes.NewPruningOptions(pruningtypes.PruningEverything))}
		}, What: "app.toml iavl-cache-size=0 together with pruning=everything, nothing else changed"},
	{Name: "node-opt-pruning-everything", Binary: "fxsim", Env: []string{"GOMAXPROCS=2"}, BaseDesc: []string{"pruning=everything"},
		Base: func() []func(*baseapp.BaseApp) {
			return []func(*baseapp.BaseApp){baseapp.SetPruning(pruningtypes.NewPruningOptions(pruningtypes.PruningEverything))}
		}, What: "app.toml pruning=everything (keep 2, every 10 blocks), nothing else changed, no restart"},
	{Name: "node-opt-pruning-everything-restart", Binary: "fxsim", Env: []string{"GOMAXPROCS=2"}, Crash: true, BaseDesc: []string{"pruning=everything"},
		Base: func() []func(*baseapp.BaseApp) {
			return []func(*baseapp.BaseApp){baseapp.SetPruning(pruningtypes.NewPruningOptions(pruningtypes.PruningEverything))}
		}, What: "app.toml pruning=everything on goleveldb, with seeded crashes / restarts (cold IAVL node cache after old versions were pruned)"},
	// thorough tier only
	{Name: "go126-crash-restart", Binary: "fxsim126", Env: []string{"GOMAXPROCS=8", "GOGC=20"}, Crash: true, NodeOpts: true, What: "go1.26.8 binary, seeded node options, goleveldb, crash/restart"},
}

const c17BaseKinds = 6      // kinds 0..5 rotate in the quick tier
const c17SingleOptKinds = 5 // kinds 6..10

func c17KindByName(n string) *c17Kind {
	for i := range c17Kinds {
		if c17Kinds[i].Name == n {
			return &c17Kinds[i]
		}
	}
	return nil
}

type C17ReplicaResult struct {
	Kind        string         `json:"kind"`
	VariantSeed uint64         `json:"variant_seed"`
	Infra       string         `json:"infra,omitempty"`    // the replica could not do its job (never a violation)
	Blocks      int            `json:"blocks"`             // blocks compared
	Txs         int            `json:"txs"`                // tx results compared
	Events      int            `json:"events"`             // events compared
	Crashes     []int          `json:"crashes,omitempty"`  // block indexes with a crash between FinalizeBlock and Commit
	Restarts    []int          `json:"restarts,omitempty"` // block indexes with a restart right after Commit
	Options     []string       `json:"options,omitempty"`
	Div         *C17Divergence `json:"divergence,omitempty"`
	GoVersion   string         `json:"go_version"`
	MaxProcs    int            `json:"gomaxprocs"`
	GOGC        string         `json:"gogc,omitempty"`
	Synctest    bool           `json:"synctest"`
	WallStart   string         `json:"wall_clock_at_start"` // what time.Now() says inside the replica
	WallEnd     string         `json:"wall_clock_at_end"`
	DB          string         `json:"db"`
}

// c17NodeOptions draws node-local options; none of them may influence results.
// C17_SKIP_OPTS (comma separated substrings of option descriptions) drops options again: a
// debugging aid to find out which option of a diverging combination is responsible.
func c17NodeOptions(seed uint64) (nodeOpts map[string]string, extra []func(*baseapp.BaseApp), desc []string) {
	rng := NewRng(seed ^ 0x5eed0517)
	nodeOpts = map[string]string{}
	var skip []string
	if v := os.Getenv("C17_SKIP_OPTS"); v != "" {
		skip = strings.Split(v, ",")
	}
	add := func(d string, opt func(*baseapp.BaseApp), k, v string) {
		for _, s := range skip {
			if s != "" && strings.Contains(d, s) {
				return
			}
		}
		desc = append(desc, d)
		if opt != nil {
			extra = append(extra, opt)
		}
		if k != "" {
			nodeOpts[k] = v
		}
	}
	// always: another min gas price, a tiny or odd IAVL cache
	mgp := []string{"4000000000000FX", "1FX", "0.000000001FX,7usdt"}[rng.IntN(3)]
	add("min-gas-prices="+mgp, baseapp.SetMinGasPrices(mgp), "", "")
	cs := []int{1, 7, 1000, 5_000_000}[rng.IntN(4)] // 0 has a kind of its own
	add(fmt.Sprintf("iavl-cache-size=%d", cs), baseapp.SetIAVLCacheSize(cs), "", "")
	// pruning strategies that delete versions have kinds of their own
	if rng.IntN(2) == 0 {
		add("pruning=nothing", baseapp.SetPruning(pruningtypes.NewPruningOptions(pruningtypes.PruningNothing)), "", "")
	} else {
		add("pruning=default", nil, "", "")
	}
	if rng.IntN(2) == 0 {
		add("iavl-disable-fastnode", baseapp.SetIAVLDisableFastNode(true), "", "")
	}
	if rng.IntN(2) == 0 {
		add("inter-block-cache", baseapp.SetInterBlockCache(cache.NewCommitKVStoreCacheManager(cache.DefaultCommitKVStoreCacheSize)), "", "")
	}
	if rng.IntN(2) == 0 {
		add("trace", baseapp.SetTrace(true), "", "")
	}
	if rng.IntN(3) == 0 {
		add("index-events=message.sender,transfer.recipient", baseapp.SetIndexEvents([]string{"message.sender", "transfer.recipient"}), "", "")
	}
	if rng.IntN(2) == 0 {
		add("evm.tracer=struct", nil, "evm.tracer", "struct")
	}
	if rng.IntN(2) == 0 {
		add("bypass-min-fee.msg-max-gas-usage=1", nil, "bypass-min-fee.msg-max-gas-usage", "1")
	}
	return nodeOpts, extra, desc
}

type c17Node struct {
	kind     *c17Kind
	seed     uint64
	dir      string
	db       dbm.DB
	app      *app.App
	nodeOpts map[string]string
	extra    []func(*baseapp.BaseApp)
	initReq  *abci.RequestInitChain
}

func c17Guard(f func() error) (err error) {
	defer func() {
		if r := recover(); r != nil {
			st := string(debug.Stack())
			err = fmt.Errorf("panic: %v [%s]", r, fxFrame(st))
		}
	}()
	return f()
}

// open (re)creates the app over the node's DB; a fresh chain (height 0) gets InitChain.
func (n *c17Node) open() error {
	if n.kind.Base != nil {
		n.extra = n.kind.Base()
	}
	if n.kind.NodeOpts {
		// fresh option objects for every process life (an inter-block cache must not survive a crash)
		_, n.extra, _ = c17NodeOptions(n.seed)
	}
	if n.kind.Crash || os.Getenv("C17_DB") == "goleveldb" { // C17_DB: debugging aid
		db, err := dbm.NewGoLevelDB("application", n.dir, nil)
		if err != nil {
			return fmt.Errorf("open goleveldb: %w", err)
		}
		n.db = db
	} else if n.db == nil {
		n.db = dbm.NewMemDB()
	}
	if err := c17Guard(func() error { n.app = NewApp(n.db, n.nodeOpts, n.extra...); return nil }); err != nil {
		return fmt.Errorf("NewApp: %w", err)
	}
	if n.app.LastBlockHeight() == 0 {
		return c17Guard(func() error { _, err := n.app.InitChain(n.initReq); return err })
	}
	return nil
}

// crash drops the process state: no Commit, no graceful shutdown; only the DB handle is closed
// (the file lock has to go) — everything not yet written to the DB is lost.
func (n *c17Node) crash() error {
	n.app = nil
	err := n.db.Close()
	n.db = nil
	return err
}

// c17Reref: the replica does not compare; it overwrites the reference results in t with its
// own (a fresh reference computed by the current code, used by `replay`).
var c17Reref bool

// c17Replay re-executes t as a replica of the given kind. dir is scratch space for a DB.
func c17Replay(t *C17Transcript, kind *c17Kind, vseed uint64, dir string) *C17ReplicaResult {
	res := &C17ReplicaResult{Kind: kind.Name, VariantSeed: vseed, GoVersion: runtime.Version(), MaxProcs: runtime.GOMAXPROCS(0),
		GOGC: os.Getenv("GOGC"), WallStart: time.Now().UTC().Format(time.RFC3339), DB: "memdb"}
	defer func() { res.WallEnd = time.Now().UTC().Format(time.RFC3339) }()
	n := &c17Node{kind: kind, seed: vseed, dir: dir, nodeOpts: map[string]string{}}
	for k, v := range t.NodeOpts {
		n.nodeOpts[k] = v
	}
	for _, k := range sortedKeys(kind.Fixed) {
		n.nodeOpts[k] = kind.Fixed[k]
		res.Options = append(res.Options, k+"="+kind.Fixed[k])
	}
	res.Options = append(res.Options, kind.BaseDesc...)
	if kind.NodeOpts {
		no, extra, desc := c17NodeOptions(vseed)
		for k, v := range no {
			n.nodeOpts[k] = v
		}
		n.extra = extra
		res.Options = desc
		// telemetry is process-global: wall-clock reads for metrics become live
		if _, err := telemetry.New(telemetry.Config{Enabled: true, ServiceName: "fxsim-replica", EnableServiceLabel: true, GlobalLabels: [][]string{{"chain_id", ChainID}}}); err != nil {
			res.Infra = "telemetry: " + err.Error()
			return res
		}
		res.Options = append(res.Options, "telemetry=enabled")
	}
	n.initReq = &abci.RequestInitChain{}
	if err := n.initReq.Unmarshal(t.InitReq); err != nil {
		res.Infra = "bad transcript (init request): " + err.Error()
		return res
	}
	// crash / restart points
	crashAt, restartAt := map[int]bool{}, map[int]bool{}
	if kind.Crash {
		res.DB = "goleveldb"
		rng := NewRng(vseed ^ 0xc4a5)
		nb := len(t.Blocks)
		if nb > 0 {
			for i, k := 0, 2+rng.IntN(3); i < k; i++ {
				crashAt[rng.IntN(nb)] = true
			}
			for i, k := 0, 1+rng.IntN(2); i < k; i++ {
				restartAt[rng.IntN(nb)] = true
			}
			if rng.IntN(4) == 0 {
				crashAt[0] = true // the very first block: InitChain has to be redone
			}
			crashAt[nb-1] = crashAt[nb-1] || rng.IntN(3) == 0
		}
	}
	if err := n.open(); err != nil {
		res.Infra = "cannot start node: " + err.Error()
		return res
	}
	defer func() {
		if n.db != nil {
			n.db.Close()
		}
	}()
	var prevHash []byte
	for i, b := range t.Blocks {
		req := &abci.RequestFinalizeBlock{}
		if err := req.Unmarshal(b.Req); err != nil {
			res.Infra = fmt.Sprintf("bad transcript (block %d): %v", i, err)
			return res
		}
		var ref *abci.ResponseFinalizeBlock
		if len(b.Ref) > 0 {
			ref = &abci.ResponseFinalizeBlock{}
			if err := ref.Unmarshal(b.Ref); err != nil {
				res.Infra = fmt.Sprintf("bad transcript (block %d ref): %v", i, err)
				return res
			}
		}
		exec := func(phase string) (stop bool) {
			var resp *abci.ResponseFinalizeBlock
			err := c17Guard(func() error {
				var e error
				resp, e = n.app.FinalizeBlock(req)
				return e
			})
			if c17Reref {
				if err != nil {
					t.Blocks[i].Ref = nil
					t.Blocks = t.Blocks[:i+1]
					t.Halted = true
					return true
				}
				t.Blocks[i].Ref, _ = c17Canonical(resp).Marshal()
				res.Blocks++
				return false
			}
			if ref == nil {
				if err == nil {
					// the reference halted in FinalizeBlock or Commit; try Commit too
					err = c17Guard(func() error { _, e := n.app.Commit(); return e })
				}
				if err == nil {
					res.Div = &C17Divergence{Block: i, Height: req.Height, What: "halt", All: []string{"halt"}, Phase: phase,
						Detail: "the reference run halted in this block, the replica executed and committed it"}
				}
				res.Blocks++
				return true
			}
			if err != nil {
				res.Div = &C17Divergence{Block: i, Height: req.Height, What: "halt", All: []string{"halt"}, Phase: phase,
					Detail: "replica halted in FinalizeBlock, the reference did not: " + c17Short(err.Error())}
				return true
			}
			got := c17Canonical(resp)
			res.Blocks++
			res.Txs += len(got.TxResults)
			res.Events += len(got.Events)
			for _, r := range got.TxResults {
				res.Events += len(r.Events)
			}
			if what, detail := c17Compare(ref, got); len(what) > 0 {
				res.Div = &C17Divergence{Block: i, Height: req.Height, What: what[0], All: what, Detail: detail, Phase: phase}
				return true
			}
			return false
		}
		if exec("") {
			return res
		}
		if crashAt[i] {
			res.Crashes = append(res.Crashes, i)
			if err := n.crash(); err != nil {
				res.Infra = "closing DB at crash: " + err.Error()
				return res
			}
			if err := n.open(); err != nil {
				res.Infra = "cannot restart node after crash: " + err.Error()
				return res
			}
			if i > 0 {
				if h := n.app.LastCommitID().Hash; string(h) != string(prevHash) || n.app.LastBlockHeight() != req.Height-1 {
					res.Div = &C17Divergence{Block: i, Height: req.Height, What: "app-hash", All: []string{"app-hash"}, Phase: "state found after crash",
						Detail: fmt.Sprintf("after the crash the durable state is height %d hash %X, expected height %d hash %X", n.app.LastBlockHeight(), h, req.Height-1, prevHash)}
					return res
				}
			}
			if exec("re-execution after crash between FinalizeBlock and Commit") {
				return res
			}
		}
		if err := c17Guard(func() error { _, e := n.app.Commit(); return e }); err != nil {
			res.Div = &C17Divergence{Block: i, Height: req.Height, What: "halt", All: []string{"halt"}, Phase: "Commit",
				Detail: "replica halted in Commit, the reference did not: " + c17Short(err.Error())}
			return res
		}
		if ref != nil {
			prevHash = ref.AppHash
		}
		if restartAt[i] {
			res.Restarts = append(res.Restarts, i)
			if err := n.crash(); err != nil {
				res.Infra = "closing DB at restart: " + err.Error()
				return res
			}
			if err := n.open(); err != nil {
				res.Infra = "cannot restart node: " + err.Error()
				return res
			}
			if h := n.app.LastCommitID().Hash; string(h) != string(prevHash) || n.app.LastBlockHeight() != req.Height {
				res.Div = &C17Divergence{Block: i, Height: req.Height, What: "app-hash", All: []string{"app-hash"}, Phase: "state found after restart",
					Detail: fmt.Sprintf("after the restart the durable state is height %d hash %X, expected height %d hash %X", n.app.LastBlockHeight(), h, req.Height, prevHash)}
				return res
			}
		}
	}
	sort.Ints(res.Crashes)
	return res
}

// ---------------------------------------------------------------------------------------
// replica process: fxsim c17-replica -kind K -vseed N -in transcript.json [-dir scratch]

func c17ReplicaMain(args []string) int {
	fs := flag.NewFlagSet("c17-replica", flag.ExitOnError)
	kindName := fs.String("kind", "", "")
	vseed := fs.Uint64("vseed", 0, "")
	in := fs.String("in", "", "")
	dir := fs.String("dir", "", "")
	reref := fs.String("reref", "", "write the transcript with this replica's results as the new reference")
	fs.Parse(args)
	c17Reref = *reref != ""
	kind := c17KindByName(*kindName)
	if kind == nil {
		fmt.Fprintln(os.Stderr, "unknown replica kind", *kindName)
		return 2
	}
	t, err := c17ReadTranscript(*in)
	if err != nil {
		fmt.Fprintln(os.Stderr, "cannot read transcript:", err)
		return 2
	}
	if *dir == "" {
		*dir = filepath.Join(filepath.Dir(*in), "db-"+strings.TrimSuffix(filepath.Base(*in), ".json")+"-"+kind.Name)
	}
	if kind.Crash || os.Getenv("C17_DB") == "goleveldb" {
		os.RemoveAll(*dir)
		if err := os.MkdirAll(*dir, 0o755); err != nil {
			fmt.Fprintln(os.Stderr, "scratch dir:", err)
			return 2
		}
		defer os.RemoveAll(*dir)
	}
	var res *C17ReplicaResult
	if kind.Synctest {
		if !c17SynctestAvailable {
			fmt.Fprintln(os.Stderr, "this binary ("+runtime.Version()+") has no testing/synctest")
			return 2
		}
		// does not return: prints the result and exits from inside the test harness
		c17RunInBubble(func() *C17ReplicaResult {
			r := c17Replay(t, kind, *vseed, *dir)
			r.Synctest = true
			return r
		})
		return 2
	}
	res = c17Replay(t, kind, *vseed, *dir)
	if c17Reref && res.Infra == "" {
		if err := c17WriteJSONCompact(*reref, t); err != nil {
			res.Infra = "write re-referenced transcript: " + err.Error()
		}
	}
	c17PrintResult(res)
	return 0
}

func c17PrintResult(res *C17ReplicaResult) {
	bz, _ := json.Marshal(res)
	fmt.Printf("C17RESULT %s\n", bz)
}
