package sim

import (
	"math/big"

	sdk "github.com/cosmos/cosmos-sdk/types"
	authtypes "github.com/cosmos/cosmos-sdk/x/auth/types"
	"github.com/ethereum/go-ethereum/common"

	erc20types "github.com/functionx/fx-core/v8/x/erc20/types"
)

// Hand-assembled recorder contract used as the callee of IBC memo calls (no solc here).
//
//	slot0 = CALLER, slot1 += 1, slot2 = CALLVALUE, then by calldata[0]:
//	1 -> REVERT (after the writes: a late failure)      3 -> INVALID opcode
//	2 -> spin until out of gas                          4 -> REVERT with 32 bytes of data
//	otherwise -> STOP
var ibcCalleeRuntime = []byte{
	0x33, 0x60, 0x00, 0x55, // 00 CALLER PUSH1 0 SSTORE
	0x60, 0x01, 0x54, 0x60, 0x01, 0x01, 0x60, 0x01, 0x55, // 04 slot1++
	0x34, 0x60, 0x02, 0x55, // 0d CALLVALUE PUSH1 2 SSTORE
	0x60, 0x00, 0x35, 0x60, 0xf8, 0x1c, // 11 first calldata byte
	0x80, 0x60, 0x01, 0x14, 0x60, 0x34, 0x57, // 17 ==1 -> revert
	0x80, 0x60, 0x02, 0x14, 0x60, 0x3a, 0x57, // 1e ==2 -> loop
	0x80, 0x60, 0x03, 0x14, 0x60, 0x3e, 0x57, // 25 ==3 -> invalid
	0x80, 0x60, 0x04, 0x14, 0x60, 0x40, 0x57, // 2c ==4 -> revert with data
	0x00,                               // 33 STOP
	0x5b, 0x60, 0x00, 0x60, 0x00, 0xfd, // 34 revert
	0x5b, 0x60, 0x3a, 0x56, // 3a loop
	0x5b, 0xfe, // 3e invalid
	0x5b, 0x60, 0x2a, 0x60, 0x00, 0x52, 0x60, 0x20, 0x60, 0x00, 0xfd, // 40 revert(0,32) with 0x2a
}

// ibcCalleeFails: does the recorder contract fail for this call data?
func ibcCalleeFails(data []byte) bool {
	return len(data) > 0 && data[0] >= 1 && data[0] <= 4
}

func ibcCalleeInit() []byte {
	n := byte(len(ibcCalleeRuntime))
	init := []byte{0x60, n, 0x80, 0x60, 0x0b, 0x60, 0x00, 0x39, 0x60, 0x00, 0xf3}
	return append(init, ibcCalleeRuntime...)
}

// ---- read-only ERC-20 queries through the real EVM keeper (on a discarded branch) ----

func ibcEvmQuery(w *World, ctx sdk.Context, to common.Address, data []byte) []byte {
	cctx, _ := ctx.CacheContext()
	from := common.BytesToAddress(authtypes.NewModuleAddress(erc20types.ModuleName))
	res, err := w.App.EvmKeeper.CallEVMWithoutGas(cctx, from, &to, nil, data, false)
	if err != nil || res == nil || res.Failed() {
		return nil
	}
	return res.Ret
}

func ibcErc20Balance(w *World, ctx sdk.Context, token, holder common.Address) *big.Int {
	ret := ibcEvmQuery(w, ctx, token, append([]byte{0x70, 0xa0, 0x82, 0x31}, common.LeftPadBytes(holder.Bytes(), 32)...))
	if len(ret) < 32 {
		return big.NewInt(0)
	}
	return new(big.Int).SetBytes(ret[:32])
}

func ibcErc20Supply(w *World, ctx sdk.Context, token common.Address) *big.Int {
	ret := ibcEvmQuery(w, ctx, token, []byte{0x18, 0x16, 0x0d, 0xdd})
	if len(ret) < 32 {
		return big.NewInt(0)
	}
	return new(big.Int).SetBytes(ret[:32])
}
