package sim

import (
	"bytes"
	"fmt"
	"math/big"

	"github.com/ethereum/go-ethereum/common"
	ethcrypto "github.com/ethereum/go-ethereum/crypto"
)

// ExtChain is a small executable reference model of FxBridgeLogic.sol for one external
// chain. It is the stub for the external chain and, at the same time, the judge for
// C06 (never both executed and refunded) and C12 (stored confirmations usable there).

type ExtMember struct {
	Addr  common.Address
	Power uint64
}

type ExtEvent struct {
	Nonce  uint64
	Height uint64
	Kind   string // oracle_set | send_to_fx | bridge_call | add_token | batch | bridge_call_result

	// oracle_set
	SetNonce uint64
	Members  []ExtMember
	// send_to_fx / add_token / batch
	Token    common.Address
	Amount   *big.Int
	Sender   common.Address
	Receiver string // bech32 fx address (send_to_fx)
	Target   string // raw target string (hex-encoded in the claim)
	// add_token
	Name, Symbol string
	Decimals     uint64
	// batch
	BatchNonce uint64
	// bridge_call
	Refund, To common.Address
	Tokens     []common.Address
	Amounts    []*big.Int
	Data, Memo []byte
	Value      *big.Int
	TxOrigin   common.Address
	// bridge_call_result
	CallNonce uint64
	Success   bool
	Cause     []byte
}

type ExtChain struct {
	Name       string
	GravityID  string
	Tron       bool
	Height     uint64
	EventNonce uint64
	Log        []*ExtEvent // Log[i].Nonce == i+1

	SetNonce   uint64
	Members    []ExtMember
	Checkpoint []byte
	Threshold  uint64

	LastBatchNonce map[common.Address]uint64
	UsedCallNonce  map[uint64]bool
	Tokens         map[common.Address]bool
	TokenList      []common.Address
	Custody        map[common.Address]*big.Int // net tokens held by the bridge contract (can be negative for origin tokens minted elsewhere)

	ExecutedTxIDs map[uint64]bool // outgoing transfer ids executed through a batch
	ExecutedCalls map[uint64]bool // outgoing bridge call nonces executed (success or not: tokens left fxcore custody when success)
	Rejected      map[string]int
	Inited        bool
}

func NewExtChain(name, gravityID string) *ExtChain {
	return &ExtChain{
		Name: name, GravityID: gravityID, Tron: name == "tron", Height: 1000,
		Threshold:      2863311530, // 2/3 of 2^32, as deployed
		LastBatchNonce: map[common.Address]uint64{}, UsedCallNonce: map[uint64]bool{},
		Tokens: map[common.Address]bool{}, Custody: map[common.Address]*big.Int{},
		ExecutedTxIDs: map[uint64]bool{}, ExecutedCalls: map[uint64]bool{}, Rejected: map[string]int{},
	}
}

func (e *ExtChain) emit(ev *ExtEvent) *ExtEvent {
	e.EventNonce++
	ev.Nonce = e.EventNonce
	ev.Height = e.Height
	e.Log = append(e.Log, ev)
	return ev
}

func (e *ExtChain) Event(n uint64) *ExtEvent {
	if n == 0 || n > uint64(len(e.Log)) {
		return nil
	}
	return e.Log[n-1]
}

// ---- digests (independent encoder)

func (e *ExtChain) prefix() string {
	if e.Tron {
		return "\x19TRON Signed Message:\n32"
	}
	return "\x19Ethereum Signed Message:\n32"
}

func OracleSetDigest(gravityID string, nonce uint64, members []ExtMember) []byte {
	addrs := make(aAddrArr, len(members))
	pows := make(aUintArr, len(members))
	for i, m := range members {
		addrs[i] = m.Addr
		pows[i] = new(big.Int).SetUint64(m.Power)
	}
	return ethcrypto.Keccak256(abiEncode(Bytes32Str(gravityID), Bytes32Str("checkpoint"), U(nonce), addrs, pows))
}

type ExtBatch struct {
	Nonce        uint64
	Token        common.Address
	Timeout      uint64
	FeeReceive   common.Address
	Amounts      []*big.Int
	Destinations []common.Address
	Fees         []*big.Int
	TxIDs        []uint64
}

func BatchDigest(gravityID string, b *ExtBatch) []byte {
	dst := make(aAddrArr, len(b.Destinations))
	for i, d := range b.Destinations {
		dst[i] = d
	}
	return ethcrypto.Keccak256(abiEncode(Bytes32Str(gravityID), Bytes32Str("transactionBatch"),
		aUintArr(b.Amounts), dst, aUintArr(b.Fees), U(b.Nonce), aAddr(b.Token), U(b.Timeout), aAddr(b.FeeReceive)))
}

type ExtCall struct {
	Nonce      uint64
	Sender     common.Address
	Refund     common.Address
	Tokens     []common.Address
	Amounts    []*big.Int
	To         common.Address
	Data, Memo []byte
	Timeout    uint64
	EventNonce uint64
}

func BridgeCallDigest(gravityID string, c *ExtCall) []byte {
	toks := make(aAddrArr, len(c.Tokens))
	for i, t := range c.Tokens {
		toks[i] = t
	}
	return ethcrypto.Keccak256(abiEncode(Bytes32Str(gravityID), Bytes32Str("bridgeCall"),
		aAddr(c.Sender), aAddr(c.Refund), toks, aUintArr(c.Amounts), aAddr(c.To), aBytes(c.Data), aBytes(c.Memo),
		U(c.Nonce), U(c.Timeout), U(c.EventNonce)))
}

// SignDigest signs digest the way an honest oracle does for this chain: over
// keccak(prefix || digest); returns [R||S||V] with V in {27,28}.
func (e *ExtChain) SignDigest(digest []byte, k *Key) []byte {
	h := ethcrypto.Keccak256(append([]byte(e.prefix()), digest...))
	sig, err := ethcrypto.Sign(h, k.ECDSA)
	if err != nil {
		panic(err)
	}
	sig[64] += 27
	return sig
}

// verifySig is the contract's verifySig: ecrecover over the prefixed digest; v must be 27/28
// (relayers normalise v before submitting).
func (e *ExtChain) verifySig(signer common.Address, digest, sig []byte) bool {
	if len(sig) != 65 {
		return false
	}
	s := append([]byte{}, sig...)
	if s[64] == 27 || s[64] == 28 {
		s[64] -= 27
	} else if s[64] > 1 {
		return false
	}
	h := ethcrypto.Keccak256(append([]byte(e.prefix()), digest...))
	pub, err := ethcrypto.SigToPub(h, s)
	if err != nil {
		return false
	}
	return ethcrypto.PubkeyToAddress(*pub) == signer
}

// checkSigs is checkOracleSignatures: sigs[i] belongs to Members[i] (nil = not signed).
func (e *ExtChain) checkSigs(digest []byte, sigs [][]byte) error {
	var cum uint64
	for i, m := range e.Members {
		if i >= len(sigs) || sigs[i] == nil {
			continue
		}
		if !e.verifySig(m.Addr, digest, sigs[i]) {
			return fmt.Errorf("Oracle signature does not match")
		}
		cum += m.Power
		if cum > e.Threshold {
			break
		}
	}
	if cum <= e.Threshold {
		return fmt.Errorf("not enough power")
	}
	return nil
}

// ---- transitions

func (e *ExtChain) Init(members []ExtMember) {
	e.Members = members
	e.SetNonce = 0
	e.Checkpoint = OracleSetDigest(e.GravityID, 0, members)
	e.Inited = true
	e.emit(&ExtEvent{Kind: "oracle_set", SetNonce: 0, Members: members})
}

func (e *ExtChain) reject(why string) error {
	e.Rejected[why]++
	return fmt.Errorf("%s", why)
}

func (e *ExtChain) AddToken(tok common.Address, name, symbol string, dec uint64) (*ExtEvent, error) {
	if e.Tokens[tok] {
		return nil, e.reject("token-exists")
	}
	e.Tokens[tok] = true
	e.TokenList = append(e.TokenList, tok)
	e.Custody[tok] = big.NewInt(0)
	return e.emit(&ExtEvent{Kind: "add_token", Token: tok, Name: name, Symbol: symbol, Decimals: dec}), nil
}

func (e *ExtChain) SendToFx(tok common.Address, sender common.Address, receiver string, amount *big.Int, target string) (*ExtEvent, error) {
	if !e.Tokens[tok] {
		return nil, e.reject("unsupported-token")
	}
	if amount.Sign() <= 0 {
		return nil, e.reject("zero-amount")
	}
	e.Custody[tok].Add(e.Custody[tok], amount)
	return e.emit(&ExtEvent{Kind: "send_to_fx", Token: tok, Sender: sender, Receiver: receiver, Amount: new(big.Int).Set(amount), Target: target}), nil
}

func (e *ExtChain) BridgeCall(sender, refund, to, origin common.Address, toks []common.Address, amts []*big.Int, data, memo []byte, value *big.Int) (*ExtEvent, error) {
	for i, t := range toks {
		if !e.Tokens[t] {
			return nil, e.reject("unsupported-token")
		}
		if amts[i].Sign() <= 0 {
			return nil, e.reject("zero-amount")
		}
	}
	for i, t := range toks {
		e.Custody[t].Add(e.Custody[t], amts[i])
	}
	return e.emit(&ExtEvent{Kind: "bridge_call", Sender: sender, Refund: refund, To: to, TxOrigin: origin, Tokens: toks, Amounts: amts, Data: data, Memo: memo, Value: value}), nil
}

func (e *ExtChain) UpdateOracleSet(newNonce uint64, newMembers []ExtMember, sigs [][]byte) (*ExtEvent, error) {
	if newNonce <= e.SetNonce {
		return nil, e.reject("oracle-set-nonce-not-greater")
	}
	cp := OracleSetDigest(e.GravityID, newNonce, newMembers)
	if err := e.checkSigs(cp, sigs); err != nil {
		return nil, e.reject("oracle-set-" + err.Error())
	}
	e.Members = newMembers
	e.SetNonce = newNonce
	e.Checkpoint = cp
	return e.emit(&ExtEvent{Kind: "oracle_set", SetNonce: newNonce, Members: newMembers}), nil
}

func (e *ExtChain) SubmitBatch(b *ExtBatch, sigs [][]byte) (*ExtEvent, error) {
	if !e.Tokens[b.Token] {
		return nil, e.reject("batch-unsupported-token")
	}
	if e.LastBatchNonce[b.Token] >= b.Nonce {
		return nil, e.reject("batch-nonce-not-greater")
	}
	if !(e.Height < b.Timeout) {
		return nil, e.reject("batch-timeout")
	}
	if err := e.checkSigs(BatchDigest(e.GravityID, b), sigs); err != nil {
		return nil, e.reject("batch-" + err.Error())
	}
	e.LastBatchNonce[b.Token] = b.Nonce
	for i := range b.Amounts {
		e.Custody[b.Token].Sub(e.Custody[b.Token], b.Amounts[i])
		e.Custody[b.Token].Sub(e.Custody[b.Token], b.Fees[i])
	}
	for _, id := range b.TxIDs {
		e.ExecutedTxIDs[id] = true
	}
	return e.emit(&ExtEvent{Kind: "batch", Token: b.Token, BatchNonce: b.Nonce}), nil
}

func (e *ExtChain) SubmitBridgeCall(c *ExtCall, sigs [][]byte, success bool, origin common.Address) (*ExtEvent, error) {
	if e.UsedCallNonce[c.Nonce] {
		return nil, e.reject("call-nonce-used")
	}
	if !(e.Height < c.Timeout) {
		return nil, e.reject("call-timeout")
	}
	if err := e.checkSigs(BridgeCallDigest(e.GravityID, c), sigs); err != nil {
		return nil, e.reject("call-" + err.Error())
	}
	e.UsedCallNonce[c.Nonce] = true
	if success {
		for i, t := range c.Tokens {
			if e.Custody[t] == nil {
				e.Custody[t] = big.NewInt(0)
			}
			e.Custody[t].Sub(e.Custody[t], c.Amounts[i])
		}
		e.ExecutedCalls[c.Nonce] = true
	}
	cause := []byte{}
	if !success {
		cause = []byte("revert")
	}
	return e.emit(&ExtEvent{Kind: "bridge_call_result", CallNonce: c.Nonce, Success: success, Cause: cause, TxOrigin: origin}), nil
}

func (e *ExtChain) MemberIndex(a common.Address) int {
	for i, m := range e.Members {
		if bytes.Equal(m.Addr[:], a[:]) {
			return i
		}
	}
	return -1
}
