package sim

import (
	"encoding/hex"
	"encoding/json"
	"fmt"
	"strconv"
	"strings"

	sdk "github.com/cosmos/cosmos-sdk/types"
	transfertypes "github.com/cosmos/ibc-go/v8/modules/apps/transfer/types"
	clienttypes "github.com/cosmos/ibc-go/v8/modules/core/02-client/types"
	channeltypes "github.com/cosmos/ibc-go/v8/modules/core/04-channel/types"
	ibcexported "github.com/cosmos/ibc-go/v8/modules/core/exported"
	localhost "github.com/cosmos/ibc-go/v8/modules/light-clients/09-localhost"
)

// ---------------------------------------------------------------------------------------
// IBC transaction intents. All of them are ordinary signed Cosmos transactions carrying the
// real ibc-go messages; the counter-party of every channel is the same app (09-localhost),
// so both channel ends execute fxcore's transfer stack (fx middleware + ICS-20).

const ibcPort = "transfer"
const ibcVersion = "ics20-1"

// ibcPacket is the relayer's / oracle's record of one packet (learnt from send_packet events).
type ibcPacket struct {
	ID      string // "<source channel>/<sequence>"
	Pkt     channeltypes.Packet
	Data    transfertypes.FungibleTokenPacketData
	RawOK   bool // packet data parsed as ICS-20
	Step    int  // step at which it was sent
	FromEVM bool // started by the crosschain precompile
	Origin  bool // EVM transfer of the origin token (msg.value): no tracking relation by design
	Token   string
	EvmFrom string // hex sender (FromEVM)

	// progress as observed from transaction results
	Recvd     bool   // a MsgRecvPacket executed the application callback
	Ack       []byte // acknowledgement bytes written by the receiving end
	AckOK     bool
	Settled   string // "", "ack-ok", "ack-err", "timeout"
	SettledAt int
	Dropped   bool // the relayer decided to lose the packet (generator memory)
	NRecv     int  // MsgRecvPacket txs that were accepted (including no-ops)
	NAck      int
	NTimeout  int
}

func ibcPktID(ch string, seq uint64) string { return fmt.Sprintf("%s/%d", ch, seq) }

func ibcHeight(h int64) clienttypes.Height {
	if h < 0 {
		h = 0
	}
	return clienttypes.NewHeight(0, uint64(h))
}

// proofHeight of a relay tx: the height of the block that carries it unless the step pins
// another one (an honest relayer over 09-localhost proves against the current state).
func ibcProofHeight(w *World, t *Tx) clienttypes.Height {
	if t.A.Has("ph") {
		return ibcHeight(t.A.I64("ph"))
	}
	return ibcHeight(w.Height + 1)
}

func installIbcBuilders(st *IbcSt) {
	installIbcChanBuilders()
	installIbcPacketBuilders(st)
}

// installIbcChanBuilders: the loop-back channel handshake (used by every world that opens channels).
func installIbcChanBuilders() {
	RegisterTx("ibc_chan_init", func(w *World, t *Tx) (*Built, error) {
		return &Built{Msgs: []sdk.Msg{channeltypes.NewMsgChannelOpenInit(ibcPort, ibcVersion, channeltypes.UNORDERED,
			[]string{ibcexported.LocalhostConnectionID}, ibcPort, w.KeyByName(t.S).Bech())}}, nil
	})
	RegisterTx("ibc_chan_try", func(w *World, t *Tx) (*Built, error) {
		return &Built{Msgs: []sdk.Msg{channeltypes.NewMsgChannelOpenTry(ibcPort, ibcVersion, channeltypes.UNORDERED,
			[]string{ibcexported.LocalhostConnectionID}, ibcPort, t.A.Str("cp"), ibcVersion, localhost.SentinelProof, ibcProofHeight(w, t), w.KeyByName(t.S).Bech())}}, nil
	})
	RegisterTx("ibc_chan_ack", func(w *World, t *Tx) (*Built, error) {
		return &Built{Msgs: []sdk.Msg{channeltypes.NewMsgChannelOpenAck(ibcPort, t.A.Str("ch"), t.A.Str("cp"), ibcVersion,
			localhost.SentinelProof, ibcProofHeight(w, t), w.KeyByName(t.S).Bech())}}, nil
	})
	RegisterTx("ibc_chan_confirm", func(w *World, t *Tx) (*Built, error) {
		return &Built{Msgs: []sdk.Msg{channeltypes.NewMsgChannelOpenConfirm(ibcPort, t.A.Str("ch"),
			localhost.SentinelProof, ibcProofHeight(w, t), w.KeyByName(t.S).Bech())}}, nil
	})
}

func installIbcPacketBuilders(st *IbcSt) {
	// ICS-20 transfer started by a Cosmos account.
	RegisterTx("ibc_transfer", func(w *World, t *Tx) (*Built, error) {
		sender := w.KeyByName(t.S).Bech()
		m := transfertypes.NewMsgTransfer(ibcPort, t.A.Str("ch"), sdk.Coin{Denom: t.A.Str("denom"), Amount: t.A.SdkInt("amount")},
			sender, t.A.Str("receiver"), ibcHeight(t.A.I64("th")), t.A.U64("tt"), t.A.Str("memo"))
		return &Built{Msgs: []sdk.Msg{m}}, nil
	})
	// relayer messages; the packet is looked up in the relayer's table, an unknown packet
	// makes the intent a harmless no-op (it is not built).
	RegisterTx("ibc_recv", func(w *World, t *Tx) (*Built, error) {
		p := st.Pkts[t.A.Str("pkt")]
		if p == nil {
			return nil, fmt.Errorf("unknown packet")
		}
		pkt := p.Pkt
		if t.A.Str("tamper") == "amount" && p.RawOK { // Byzantine relayer: other data than committed
			d := p.Data
			d.Amount = d.Amount + "0"
			pkt.Data = d.GetBytes()
		}
		return &Built{Msgs: []sdk.Msg{channeltypes.NewMsgRecvPacket(pkt, localhost.SentinelProof, ibcProofHeight(w, t), w.KeyByName(t.S).Bech())}}, nil
	})
	RegisterTx("ibc_ack", func(w *World, t *Tx) (*Built, error) {
		p := st.Pkts[t.A.Str("pkt")]
		if p == nil {
			return nil, fmt.Errorf("unknown packet")
		}
		ack := ibcAckBytesFor(t, p)
		if len(ack) == 0 {
			return nil, fmt.Errorf("no acknowledgement known")
		}
		return &Built{Msgs: []sdk.Msg{channeltypes.NewMsgAcknowledgement(p.Pkt, ack, localhost.SentinelProof, ibcProofHeight(w, t), w.KeyByName(t.S).Bech())}}, nil
	})
	RegisterTx("ibc_timeout", func(w *World, t *Tx) (*Built, error) {
		p := st.Pkts[t.A.Str("pkt")]
		if p == nil {
			return nil, fmt.Errorf("unknown packet")
		}
		return &Built{Msgs: []sdk.Msg{channeltypes.NewMsgTimeout(p.Pkt, 1, localhost.SentinelProof, ibcProofHeight(w, t), w.KeyByName(t.S).Bech())}}, nil
	})
}

// ibcAckBytesFor: the acknowledgement bytes a relay intent submits (the written ones unless
// the step asks the relayer to forge).
func ibcAckBytesFor(t *Tx, p *ibcPacket) []byte {
	switch t.A.Str("forge") {
	case "success":
		return channeltypes.NewResultAcknowledgement([]byte{1}).Acknowledgement()
	case "error":
		return channeltypes.NewErrorAcknowledgement(fmt.Errorf("forged")).Acknowledgement()
	}
	return p.Ack
}

// ibcPacketsFromEvents extracts every packet announced by send_packet events.
func ibcPacketsFromEvents(res *TxResult) []*ibcPacket {
	var out []*ibcPacket
	if res == nil {
		return nil
	}
	for _, e := range res.Events {
		if e.Type != channeltypes.EventTypeSendPacket {
			continue
		}
		at := map[string]string{}
		for _, a := range e.Attributes {
			at[a.Key] = a.Value
		}
		data, err := hex.DecodeString(at[channeltypes.AttributeKeyDataHex])
		if err != nil {
			continue
		}
		seq, _ := strconv.ParseUint(at[channeltypes.AttributeKeySequence], 10, 64)
		th, err := clienttypes.ParseHeight(at[channeltypes.AttributeKeyTimeoutHeight])
		if err != nil {
			th = clienttypes.ZeroHeight()
		}
		tt, _ := strconv.ParseUint(at[channeltypes.AttributeKeyTimeoutTimestamp], 10, 64)
		p := &ibcPacket{
			Pkt: channeltypes.NewPacket(data, seq, at[channeltypes.AttributeKeySrcPort], at[channeltypes.AttributeKeySrcChannel],
				at[channeltypes.AttributeKeyDstPort], at[channeltypes.AttributeKeyDstChannel], th, tt),
		}
		p.ID = ibcPktID(p.Pkt.SourceChannel, seq)
		if json.Unmarshal(data, &ibcRawData{}) == nil && transfertypes.ModuleCdc.UnmarshalJSON(data, &p.Data) == nil {
			p.RawOK = true
		}
		out = append(out, p)
	}
	return out
}

type ibcRawData struct {
	Denom string `json:"denom"`
}

// ibcAckFromEvents returns the acknowledgement written for packet id by this tx (nil if none).
func ibcAckFromEvents(res *TxResult, id string) []byte {
	if res == nil {
		return nil
	}
	for _, e := range res.Events {
		if e.Type != channeltypes.EventTypeWriteAck {
			continue
		}
		at := map[string]string{}
		for _, a := range e.Attributes {
			at[a.Key] = a.Value
		}
		seq, _ := strconv.ParseUint(at[channeltypes.AttributeKeySequence], 10, 64)
		if ibcPktID(at[channeltypes.AttributeKeySrcChannel], seq) != id {
			continue
		}
		ack, err := hex.DecodeString(at[channeltypes.AttributeKeyAckHex])
		if err == nil {
			return ack
		}
	}
	return nil
}

// ibcAckSuccess decodes the standard channel acknowledgement envelope.
func ibcAckSuccess(ack []byte) (ok bool, decoded bool) {
	var a struct {
		Result []byte `json:"result"`
		Error  string `json:"error"`
	}
	if err := json.Unmarshal(ack, &a); err != nil {
		return false, false
	}
	if a.Error != "" {
		return false, true
	}
	return len(a.Result) > 0, true
}

// ibcVoucherDenom is the ibc/HASH denom of base received over path "transfer/channel-N".
func ibcVoucherDenom(path, base string) string {
	return transfertypes.DenomTrace{Path: path, BaseDenom: base}.IBCDenom()
}

func ibcChanNum(ch string) string { return strings.TrimPrefix(ch, "channel-") }
