package sim

import (
	"encoding/binary"
	"fmt"
	"math/big"

	"github.com/ethereum/go-ethereum/common"
)

// A tiny EVM assembler (no Solidity compiler is installed). Two passes: labels are
// resolved to fixed-width PUSH2 operands.

const (
	opSTOP           = 0x00
	opADD            = 0x01
	opAND            = 0x16
	opOR             = 0x17
	opISZERO         = 0x15
	opSHR            = 0x1c
	opSHL            = 0x1b
	opCALLER         = 0x33
	opCALLDATALOAD   = 0x35
	opCALLDATASIZE   = 0x36
	opCALLDATACOPY   = 0x37
	opCODECOPY       = 0x39
	opRETURNDATASIZE = 0x3d
	opRETURNDATACOPY = 0x3e
	opPOP            = 0x50
	opMLOAD          = 0x51
	opMSTORE         = 0x52
	opSLOAD          = 0x54
	opSSTORE         = 0x55
	opJUMP           = 0x56
	opJUMPI          = 0x57
	opGAS            = 0x5a
	opJUMPDEST       = 0x5b
	opPUSH1          = 0x60
	opPUSH2          = 0x61
	opPUSH20         = 0x73
	opPUSH32         = 0x7f
	opDUP1           = 0x80
	opSWAP1          = 0x90
	opLOG1           = 0xa1
	opCALL           = 0xf1
	opCALLCODE       = 0xf2
	opRETURN         = 0xf3
	opDELEGATECALL   = 0xf4
	opSTATICCALL     = 0xfa
	opREVERT         = 0xfd
	opINVALID        = 0xfe
)

type asmItem struct {
	b     []byte
	label string // definition (JUMPDEST emitted) when def, reference when ref
	def   bool
	ref   bool
	data  string // reference to a data blob offset / length
	dlen  bool
}

type Asm struct {
	items []asmItem
	blobs map[string][]byte
	order []string
	nlab  int
}

func NewAsm() *Asm { return &Asm{blobs: map[string][]byte{}} }

func (a *Asm) Op(ops ...byte) *Asm {
	a.items = append(a.items, asmItem{b: ops})
	return a
}

func (a *Asm) Push(n uint64) *Asm {
	if n < 256 {
		return a.Op(opPUSH1, byte(n))
	}
	if n < 65536 {
		return a.Op(opPUSH2, byte(n>>8), byte(n))
	}
	var buf [8]byte
	binary.BigEndian.PutUint64(buf[:], n)
	i := 0
	for i < 7 && buf[i] == 0 {
		i++
	}
	return a.Op(append([]byte{byte(opPUSH1 + 7 - i)}, buf[i:]...)...)
}

func (a *Asm) PushBig(n *big.Int) *Asm {
	b := n.Bytes()
	if len(b) == 0 {
		return a.Op(opPUSH1, 0)
	}
	if len(b) > 32 {
		b = b[len(b)-32:]
	}
	return a.Op(append([]byte{byte(opPUSH1 + len(b) - 1)}, b...)...)
}

func (a *Asm) PushAddr(ad common.Address) *Asm {
	return a.Op(append([]byte{opPUSH20}, ad.Bytes()...)...)
}

func (a *Asm) NewLabel() string {
	a.nlab++
	return fmt.Sprintf("L%d", a.nlab)
}

func (a *Asm) Label(l string) *Asm {
	a.items = append(a.items, asmItem{label: l, def: true})
	return a
}

// PushLabel pushes the code offset of a label (PUSH2).
func (a *Asm) PushLabel(l string) *Asm {
	a.items = append(a.items, asmItem{label: l, ref: true})
	return a
}

func (a *Asm) JumpI(l string) *Asm { return a.PushLabel(l).Op(opJUMPI) }
func (a *Asm) Jump(l string) *Asm  { return a.PushLabel(l).Op(opJUMP) }

// Blob registers a data blob appended after the code; PushBlobOff / PushBlobLen push its
// code offset / length.
func (a *Asm) Blob(name string, b []byte) {
	if _, ok := a.blobs[name]; !ok {
		a.order = append(a.order, name)
	}
	a.blobs[name] = b
}
func (a *Asm) PushBlobOff(name string) *Asm {
	a.items = append(a.items, asmItem{data: name})
	return a
}
func (a *Asm) PushBlobLen(name string) *Asm {
	a.items = append(a.items, asmItem{data: name, dlen: true})
	return a
}

func (a *Asm) Bytes() []byte {
	// pass 1: sizes
	size := 0
	labels := map[string]int{}
	for _, it := range a.items {
		switch {
		case it.def:
			labels[it.label] = size
			size++ // JUMPDEST
		case it.ref, it.data != "":
			size += 3
		default:
			size += len(it.b)
		}
	}
	blobOff := map[string]int{}
	off := size
	for _, n := range a.order {
		blobOff[n] = off
		off += len(a.blobs[n])
	}
	var out []byte
	for _, it := range a.items {
		switch {
		case it.def:
			out = append(out, opJUMPDEST)
		case it.ref:
			v := labels[it.label]
			out = append(out, opPUSH2, byte(v>>8), byte(v))
		case it.data != "":
			v := blobOff[it.data]
			if it.dlen {
				v = len(a.blobs[it.data])
			}
			out = append(out, opPUSH2, byte(v>>8), byte(v))
		default:
			out = append(out, it.b...)
		}
	}
	for _, n := range a.order {
		out = append(out, a.blobs[n]...)
	}
	return out
}

// InitCode wraps runtime code in a constructor that returns it.
func InitCode(runtime []byte) []byte {
	a := NewAsm()
	a.Blob("rt", runtime)
	a.PushBlobLen("rt").PushBlobOff("rt").Push(0).Op(opCODECOPY)
	a.PushBlobLen("rt").Push(0).Op(opRETURN)
	return a.Bytes()
}
