package sim

func init() {
	gen := "seeded generation of schedules/fault sequences (one run = one PRNG seed = one world configuration + one history of steps); "
	levels["C01"] = levelInfo{"exploration", gen + "distinct = hash of the (step shape, per-tx success) sequence; non-trivial = at least one external event was observed (last-observed nonce advanced) in the run"}
	levels["C02"] = levelInfo{"exploration", gen + "distinct = hash of the (step shape, per-tx success) sequence; non-trivial = at least one observation whose quorum arithmetic was recomputed"}
	levels["C03"] = levelInfo{"exploration", gen + "distinct = shape hash; non-trivial = at least one pair of claim variants was executed on branches and compared"}
	levels["C04"] = levelInfo{"exploration", gen + "distinct = shape hash; non-trivial = the conservation equations were evaluated after at least one value-moving bridge operation"}
	levels["C05"] = levelInfo{"exploration", gen + "distinct = shape hash; non-trivial = at least one outgoing transfer or bridge call changed life-cycle state"}
	levels["C06"] = levelInfo{"exploration", gen + "distinct = shape hash; non-trivial = at least one batch / bridge call existed while external height advanced or a relayer submission happened"}
	levels["C07"] = levelInfo{"exploration", gen + "distinct = shape hash; non-trivial = the signed window elapsed over an unconfirmed object or a governance proposal was executed"}
	levels["C12"] = levelInfo{"exploration", gen + "distinct = shape hash; non-trivial = at least one confirmation (honest or Byzantine) was judged"}
	levels["C13"] = levelInfo{"exploration", gen + "distinct = shape hash; non-trivial = at least one oracle life-cycle transition beyond the initial bond"}
}
