package sim

import (
	"encoding/hex"
	"fmt"
	"math/big"
	"strings"

	cctypes "github.com/functionx/fx-core/v8/x/crosschain/types"
)

// ---------------------------------------------------------------------------------------
// The same boundaries reached through real transactions in the committed history:
// external event -> claims by the oracles (MsgClaim) -> attestation -> executeClaim
// precompile called by an EVM transaction.

// genCommit queues: the external bridge call, the oracles' claims, the execution.
func (e C18Engine) genCommit(r *Run) (Step, bool) {
	st := bst(r)
	cs := c18st(r)
	c := st.Chains[0]
	if !c.Ext.Inited {
		return Step{}, false
	}
	a, _, ok := e.drawCallShape(r)
	if !ok {
		return Step{}, false
	}
	to, ok1 := c18Addr(r, a.Str("to"))
	refund, ok2 := c18Addr(r, a.Str("refund"))
	if !ok1 || !ok2 {
		return Step{}, false
	}
	_, senderIdx := ParseKeyName(a.Str("sender"))
	// no unbonding entries in the committed history: their maturity would pay out in some later
	// block and blur that block's judgement
	allActs := uint64(1<<c18NActs-1) &^ (1 << c18ActUndelegate)
	mode := c18Mode(r.Rng.Uint64()&allActs, []int{c18EndRevert, c18EndInvalid, c18EndBurn, c18EndRevertData, c18EndReturn}[r.Rng.IntN(5)])
	if r.Pct(30) {
		mode = c18Mode(allActs, c18EndRevert)
	}
	n := c.Ext.EventNonce + 1
	ext := Step{Kind: "ext", A: A("chain", c.Name, "op", "bridge_call", "symbols", a.Str("syms"), "amounts", a.Str("amts"), "user", senderIdx,
		"to", to.Hex(), "refund", refund.Hex(), "data", hex.EncodeToString(word(mode.Bytes())), "memo", hex.EncodeToString(c18Memo(a.Str("memo"))))}
	cs.Queue = append(cs.Queue,
		Step{Kind: "block", DtMs: 5000, N: 1, Txs: []Tx{{K: "c18_catchup", S: "user/0"}}},
		Step{Kind: "block", DtMs: 5000, N: 1, Txs: []Tx{{K: "execute_claim", S: KeyName("user", r.Rng.IntN(st.NUsers)), A: A("chain", c.Name, "n", n), Gas: 8_000_000}}},
	)
	return ext, true
}

// c18Pred: what the keeper does with the parked claim on a branch of the pre-block state
// (events of a failed transaction are dropped, so the cause of a rejection is read here).
type c18Pred struct {
	N       uint64
	Outcome string
	Cause   string
	Err     string
}

func (e C18Engine) predictExecute(r *Run, chain string, n uint64) *c18Pred {
	st := bst(r)
	w := r.W
	ch := st.chain(chain)
	if ch == nil {
		return nil
	}
	k := ch.keeper(w)
	ctx := w.branchCtx()
	if _, ok := k.GetPendingExecuteClaim(ctx, n); !ok {
		return nil
	}
	p := &c18Pred{N: n}
	func() {
		defer func() {
			if rec := recover(); rec != nil {
				p.Outcome, p.Err = "panic", fmt.Sprint(rec)
			}
		}()
		cctx, _ := ctx.CacheContext()
		err := k.ExecuteClaim(cctx, n)
		p.Cause = c18ErrCause(cctx.EventManager().Events())
		switch {
		case err != nil:
			p.Outcome, p.Err = "refused", err.Error()
		case p.Cause != "":
			p.Outcome = "refund"
		default:
			p.Outcome = "success"
		}
	}()
	return p
}

// c18BlockNoiseStores: stores that every block writes (begin/end blockers); the committed
// judgement looks at the stores value lives in, not at these.
var c18ValueStores = map[string]bool{"bank": true, "evm": true, "erc20": true}

// judgeCommittedBlock judges a committed block that carried executeClaim / claim transactions.
func (e C18Engine) judgeCommittedBlock(r *Run, s *Step, o *Outcome) {
	st := bst(r)
	cs := c18st(r)
	w := r.W
	ch := st.Chains[0]
	post := st.Chk.post[ch.Name]
	pre := cs.preView
	var execs []TxOutcome
	nOther := 0
	for _, t := range o.Txs {
		if t.Tx == nil || t.Res == nil {
			continue
		}
		if t.Tx.K == "execute_claim" {
			execs = append(execs, t)
		} else {
			nOther++
		}
	}
	e.judgeCommittedAtt(r, pre, post, o)
	if len(execs) != 1 || nOther != 0 {
		return
	}
	t := execs[0]
	n := t.Tx.A.U64("n")
	claim, ok := pre.Pending[n].(*cctypes.MsgBridgeCallClaim)
	if !ok {
		return
	}
	receiver := claim.GetToAddr()
	if claim.IsMemoSendCallTo() {
		receiver = claim.GetSenderAddr()
	}
	refundAddr := claim.GetRefundAddr()
	var refund *cctypes.OutgoingBridgeCall
	for i := range post.Calls {
		if post.Calls[i].EventNonce == n {
			refund = &post.Calls[i]
		}
	}
	_, still := post.Pending[n]
	full := Diff(cs.pre, w.Dump())
	valueDiff := FilterDiff(full, func(x DiffEntry) bool { return !c18ValueStores[x.Store] })
	switch {
	case !t.Res.OK():
		r.Probe("commit:b:rejected")
		if !still {
			cs.violate("rejected-execution-no-effects", "committed/bridge-call/pending-claim-gone", "executeClaim(%d) failed (%s) but the parked claim is gone", n, t.Res.String())
		}
		if len(valueDiff) > 0 {
			cs.violate("rejected-execution-no-effects", "committed/bridge-call/"+c18KeyClass(valueDiff[0]), "executeClaim(%d) failed (%s) but value stores changed:%s", n, t.Res.String(), c18DiffText(valueDiff, 4))
		}
		if p := cs.pred; p != nil && p.N == n && p.Outcome == "refused" && p.Cause != "" {
			r.Probe("commit:b:refund-impossible")
			site := "bridge-call/refund-failed/" + c18RefuseClass(p.Err)
			if receiver != refundAddr && strings.Contains(p.Err, "insufficient funds") {
				site = "bridge-call/refund-not-fundable-from-refund-address"
			}
			cs.violate("refund-recorded", site, "committed history: executeClaim(%d) was rejected (%s): the call to %s failed (%s) and fxcore went on to record the refund for %s, but the refund failed (%s); the claim stays parked and can never be executed or refunded while the call keeps failing",
				n, t.Res.String(), claim.To, firstLine(p.Cause), claim.Refund, firstLine(p.Err))
		}
	case refund != nil:
		r.Probe("commit:b:refund-recorded")
		r.Fault("b:committed-tolerated-failure")
		r.State(fmt.Sprintf("commit-b|refund|tok%d|eq%v", len(claim.TokenContracts), receiver == refundAddr))
		want := map[string]*big.Int{}
		for i, tc := range claim.TokenContracts {
			if want[tc] == nil {
				want[tc] = big.NewInt(0)
			}
			want[tc].Add(want[tc], claim.Amounts[i].BigInt())
		}
		got := map[string]*big.Int{}
		for _, tk := range refund.Tokens {
			if got[tk.Contract] == nil {
				got[tk.Contract] = big.NewInt(0)
			}
			got[tk.Contract].Add(got[tk.Contract], tk.Amount.BigInt())
		}
		okTok := len(want) == len(got)
		for k, v := range want {
			if got[k] == nil || got[k].Cmp(v) != 0 {
				okTok = false
			}
		}
		if !okTok || refund.Refund != claim.Refund || refund.Sender != claim.Refund {
			cs.violate("refund-record-complete", "committed/bridge-call", "refund record %v does not carry exactly the tokens %s / refund address %s of the failed call", refund, c18FmtTokMap(want), claim.Refund)
		}
		if still {
			cs.violate("designated-outcome-only", "committed/bridge-call/pending-claim-left", "refund recorded for event %d but the parked claim is still there", n)
		}
		if len(valueDiff) > 0 {
			site := "committed/bridge-call/" + c18KeyClass(valueDiff[0])
			if receiver != refundAddr && c18OnlyBalancesOf(valueDiff, receiver, refundAddr) {
				site = "bridge-call/deposit-stays-with-receiver-refund-paid-by-refund-address"
			}
			cs.violate("designated-outcome-only", site, "committed history: executeClaim(%d) recorded the refund of a failed inbound call (to %s, refund %s) and besides it left:%s", n, claim.To, claim.Refund, c18DiffText(valueDiff, 6))
		}
	default:
		r.Probe("commit:b:success")
	}
}
