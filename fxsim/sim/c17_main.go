package sim

// C17 master: records transcripts from runs of all engines (one recorder process per
// transcript), re-executes each in independent replica processes and compares block by block.
//
//   fxsim check  -prop C17 -tier quick|thorough
//   fxsim replay -prop C17 <file>
//   fxsim c17-record  -prop P -seed S -tier T -out transcript.json     (internal)
//   fxsim c17-replica -kind K -vseed N -in transcript.json             (internal, both toolchains)
//   fxsim c17-info                                                     (internal)

import (
	"bufio"
	"bytes"
	"context"
	"encoding/json"
	"flag"
	"fmt"
	"os"
	"os/exec"
	"path/filepath"
	"runtime"
	"sort"
	"strconv"
	"strings"
	"sync"
	"time"
)

func init() {
	levels["C17"] = levelInfo{"exploration", "histories = raw ABCI transcripts (InitChain request + every RequestFinalizeBlock) recorded from seeded runs of all engines (bridge, evm, gov/migrate, ibc; property and seed per transcript); each is re-executed in independent replica processes (kinds: see replica_kinds) and compared with the recording run at every block on app hash, tx code/codespace/data/gas wanted/gas used/events, block events, validator updates, consensus param updates; evaluations = transcript x replica comparisons carried out (to the end of the transcript or to the first divergence); distinct = sha256 over genesis and all block tx bytes; non-trivial = the transcript has at least one successful tx and at least one block event"}
}

// c17Main intercepts the commands that belong to C17. ok=false: not ours.
func c17Main(args []string) (rc int, ok bool) {
	if len(args) == 0 {
		return 0, false
	}
	switch args[0] {
	case "c17-record":
		return c17RecordMain(args[1:]), true
	case "c17-replica":
		return c17ReplicaMain(args[1:]), true
	case "c17-info":
		fmt.Printf("C17INFO go=%s synctest=%v\n", runtime.Version(), c17SynctestAvailable)
		return 0, true
	case "check", "replay":
		prop := ""
		for i, a := range args {
			if (a == "-prop" || a == "--prop") && i+1 < len(args) {
				prop = args[i+1]
			} else if strings.HasPrefix(a, "-prop=") || strings.HasPrefix(a, "--prop=") {
				prop = a[strings.Index(a, "=")+1:]
			}
		}
		if prop != "C17" {
			return 0, false
		}
		if args[0] == "check" {
			return c17CheckMain(args[1:]), true
		}
		return c17ReplayMain(args[1:]), true
	}
	return 0, false
}

// ---------------------------------------------------------------------------------------
// recorder process

type c17RecordSummary struct {
	C17Transcript
	NBlocks int      `json:"n_blocks"`
	Error   string   `json:"error,omitempty"`
	Foreign string   `json:"foreign,omitempty"`
	Sample  []string `json:"sample,omitempty"`
}

func c17RecordMain(args []string) int {
	fs := flag.NewFlagSet("c17-record", flag.ExitOnError)
	prop := fs.String("prop", "", "")
	seed := fs.Uint64("seed", 1, "")
	tier := fs.String("tier", "quick", "")
	out := fs.String("out", "", "")
	fs.Parse(args)
	eng := EngineFor(*prop)
	if eng == nil {
		fmt.Fprintln(os.Stderr, "no engine for", *prop)
		return 2
	}
	RecordTranscripts = true
	r, res := Execute(eng, *prop, *seed, *tier)
	sum := c17RecordSummary{Foreign: res.Foreign}
	t, err := c17FromWorld(r.W, eng.Name(), *prop, *seed, *tier, len(r.Steps))
	if err != nil {
		sum.Error = err.Error()
	} else {
		if err := c17WriteJSONCompact(*out, t); err != nil {
			fmt.Fprintln(os.Stderr, "write transcript:", err)
			return 2
		}
		sum.C17Transcript = *t
		sum.NBlocks = len(t.Blocks)
		sum.C17Transcript.Blocks, sum.C17Transcript.InitReq = nil, nil
		sum.Sample = TraceLines(r.Steps, 12)
	}
	bz, _ := json.Marshal(sum)
	fmt.Printf("C17RECORD %s\n", bz)
	return 0
}

// ---------------------------------------------------------------------------------------
// process plumbing

type c17Bins struct {
	Self, Go126 string
}

func c17FindBins() c17Bins {
	self, _ := os.Executable()
	b := c17Bins{Self: self, Go126: filepath.Join(filepath.Dir(self), "fxsim126")}
	if v := os.Getenv("C17_BIN126"); v != "" {
		b.Go126 = v
	}
	return b
}

func (b c17Bins) path(kind *c17Kind) string {
	if kind.Binary == "fxsim126" {
		return b.Go126
	}
	return b.Self
}

func c17Env(extra []string) []string {
	var env []string
	for _, e := range os.Environ() {
		if strings.HasPrefix(e, "GOMAXPROCS=") || strings.HasPrefix(e, "GOGC=") || strings.HasPrefix(e, "GODEBUG=") {
			continue
		}
		env = append(env, e)
	}
	return append(env, extra...)
}

// c17RunProc runs a child and returns the payload of the output line that starts with prefix.
func c17RunProc(bin string, args, env []string, prefix string, timeout time.Duration) (payload string, stderrTail string, err error) {
	ctx, cancel := context.WithTimeout(context.Background(), timeout)
	defer cancel()
	cmd := exec.CommandContext(ctx, bin, args...)
	cmd.Env = env
	var so, se bytes.Buffer
	cmd.Stdout, cmd.Stderr = &so, &se
	runErr := cmd.Run()
	stdoutAll := so.String()
	sc := bufio.NewScanner(strings.NewReader(stdoutAll))
	sc.Buffer(make([]byte, 1<<20), 1<<28)
	for sc.Scan() {
		if l := sc.Text(); strings.HasPrefix(l, prefix) {
			payload = l[len(prefix):]
		}
	}
	stderrTail = tail(se.String(), 1500)
	if ctx.Err() != nil {
		return payload, stderrTail, fmt.Errorf("timeout after %v", timeout)
	}
	if payload == "" {
		if runErr != nil {
			return "", stderrTail, fmt.Errorf("%v; stdout: %s", runErr, tail(stdoutAll, 300))
		}
		return "", stderrTail, fmt.Errorf("no %sline in output", prefix)
	}
	if runErr != nil {
		return payload, stderrTail, fmt.Errorf("result printed but process failed afterwards: %v", runErr)
	}
	return payload, stderrTail, nil
}

// c17SpawnReplica runs one replica process. err != nil: infrastructure trouble.
func c17SpawnReplica(bins c17Bins, kind *c17Kind, vseed uint64, in, scratch string, timeout time.Duration) (*C17ReplicaResult, string, error) {
	args := []string{"c17-replica", "-kind", kind.Name, "-vseed", fmt.Sprint(vseed), "-in", in, "-dir", scratch}
	var lastErr error
	for attempt := 0; attempt < 2; attempt++ {
		payload, se, err := c17RunProc(bins.path(kind), args, c17Env(kind.Env), "C17RESULT ", timeout)
		note := ""
		if err != nil {
			if payload == "" {
				lastErr = fmt.Errorf("%v; stderr: %s", err, tail(se, 600))
				continue
			}
			// the replica finished its comparison and printed the result; what failed is the
			// shutdown of the process (a synctest bubble that cannot close, for instance)
			note = err.Error() + ": " + c17Short(lastLine(se))
		}
		var res C17ReplicaResult
		if jerr := json.Unmarshal([]byte(payload), &res); jerr != nil {
			lastErr = fmt.Errorf("bad result line: %v", jerr)
			continue
		}
		if res.Infra != "" {
			lastErr = fmt.Errorf("%s", res.Infra)
			continue
		}
		return &res, note, nil
	}
	return nil, "", lastErr
}

func lastLine(s string) string {
	ls := strings.Split(strings.TrimSpace(s), "\n")
	for _, l := range ls {
		if strings.HasPrefix(l, "panic:") || strings.HasPrefix(l, "fatal error:") {
			return l
		}
	}
	return ls[len(ls)-1]
}

// ---------------------------------------------------------------------------------------
// replay file

type C17Origin struct {
	Prop      string `json:"prop"`
	Seed      uint64 `json:"seed"`
	Tier      string `json:"tier"`
	CheckSeed uint64 `json:"check_seed"`
	Index     int    `json:"index"`
}

type C17ReplayFile struct {
	Property    string         `json:"property"`
	Engine      string         `json:"engine"`
	Kind        string         `json:"replica_kind"`
	VariantSeed uint64         `json:"variant_seed"` // drives crash points / node options of the replica
	Attempts    int            `json:"attempts"`     // a non-deterministic divergence may need several fresh replicas
	Origin      C17Origin      `json:"origin"`
	Violation   *Violation     `json:"violation,omitempty"`
	Divergence  *C17Divergence `json:"divergence,omitempty"`
	Minimised   bool           `json:"minimised"` // transcript truncated after the first diverging block
	Transcript  *C17Transcript `json:"transcript"`
}

func c17Violation(engine string, res *C17ReplicaResult) Violation {
	d := res.Div
	msg := fmt.Sprintf("replica %s diverged from the recording run at height %d (block #%d of the transcript)", res.Kind, d.Height, d.Block)
	if d.Phase != "" {
		msg += " [" + d.Phase + "]"
	}
	msg += ": " + d.Detail
	if len(d.All) > 1 {
		msg += " (differing: " + strings.Join(d.All, ", ") + ")"
	}
	if len(res.Options) > 0 {
		msg += " options: " + strings.Join(res.Options, " ")
	}
	if len(res.Crashes)+len(res.Restarts) > 0 {
		msg += fmt.Sprintf(" crashes at blocks %v restarts after blocks %v", res.Crashes, res.Restarts)
	}
	if k := c17KindByName(res.Kind); k != nil && (len(k.Fixed) > 0 || k.Base != nil) {
		// fixed app.toml option(s): which engine produced the history says nothing about the cause
		msg += " (history from engine " + engine + ")"
		engine = "any"
	}
	return Violation{Invariant: "replica-agreement", Site: res.Kind + "/" + d.What + "/" + engine, Step: d.Block, Message: msg}
}

func c17ReplayMain(args []string) int {
	fs := flag.NewFlagSet("replay", flag.ExitOnError)
	fs.String("prop", "", "")
	fs.Parse(args)
	if fs.NArg() < 1 {
		fmt.Println("usage: replay -prop C17 file")
		return 2
	}
	bz, err := os.ReadFile(fs.Arg(0))
	if err != nil {
		fmt.Println("INFRA:", err)
		return 2
	}
	var rf C17ReplayFile
	if err := json.Unmarshal(bz, &rf); err != nil || rf.Property != "C17" || rf.Transcript == nil {
		fmt.Println("INFRA: not a C17 replay file:", err)
		return 2
	}
	kind := c17KindByName(rf.Kind)
	if kind == nil {
		fmt.Println("INFRA: unknown replica kind", rf.Kind)
		return 2
	}
	bins := c17FindBins()
	if msg := c17Preflight(bins, kind.Binary == "fxsim126"); msg != "" {
		fmt.Println("INFRA:", msg)
		return 2
	}
	work := filepath.Join(verifRoot, ".work", fmt.Sprintf("C17-replay-%d", os.Getpid()))
	os.MkdirAll(work, 0o755)
	defer os.RemoveAll(work)
	in := filepath.Join(work, "transcript.json")
	if err := c17WriteJSONCompact(in, rf.Transcript); err != nil {
		fmt.Println("INFRA:", err)
		return 2
	}
	attempts := rf.Attempts
	if attempts < 1 {
		attempts = 1
	}
	// try runs the replica kind against the reference stored in the transcript file `in`
	try := func(in, label string) (*Violation, int) {
		for a := 1; a <= attempts; a++ {
			res, _, err := c17SpawnReplica(bins, kind, rf.VariantSeed, in, filepath.Join(work, "db"), 10*time.Minute)
			if err != nil {
				fmt.Println("INFRA: replica", kind.Name, "could not run:", err)
				return nil, 2
			}
			if res.Div == nil {
				fmt.Printf("%s, attempt %d/%d: replica %s agreed on %d blocks, %d txs\n", label, a, attempts, kind.Name, res.Blocks, res.Txs)
				continue
			}
			v := c17Violation(rf.Transcript.Engine, res)
			fmt.Printf("%s, attempt %d/%d: %s: %s\n", label, a, attempts, v.ID(), v.Message)
			return &v, 0
		}
		return nil, 0
	}
	report := func(v *Violation) int {
		fmt.Printf("reproduced: %s\n", v.ID())
		if rf.Violation != nil && rf.Violation.ID() != v.ID() {
			fmt.Printf("note: the recorded violation was %s\n", rf.Violation.ID())
		}
		if k := isKnown(loadKnown(), "C17", *v); k != nil {
			fmt.Printf("KNOWN-FINDING: property=C17 %s — %s\n", v.ID(), k.What)
			return 0
		}
		fmt.Printf("VIOLATION property=C17 replay=%s\n", fs.Arg(0))
		return 1
	}
	// 1. exactly the recorded comparison
	v, rc := try(in, "recorded reference")
	if rc != 0 {
		return rc
	}
	if v == nil {
		fmt.Println("no violation on replay")
		return 0
	}
	// 2. the recorded reference may be stale (code changed since): compute a fresh one with the
	// current code in a plain process and compare against that
	fresh := filepath.Join(work, "fresh.json")
	plain := c17KindByName("proc-gomaxprocs1")
	if _, se, err := c17RunProc(bins.path(plain), []string{"c17-replica", "-kind", plain.Name, "-in", in, "-reref", fresh}, c17Env(plain.Env), "C17RESULT ", 10*time.Minute); err != nil {
		fmt.Println("INFRA: cannot compute a fresh reference:", err, tail(se, 300))
		return 2
	}
	v2, rc := try(fresh, "fresh reference (same blocks, current code, plain process)")
	if rc != 0 {
		return rc
	}
	if v2 != nil {
		return report(v2)
	}
	// 3. the recording run itself may be the odd one: record the history again from its origin
	if rf.Origin.Prop != "" && EngineFor(rf.Origin.Prop) != nil {
		again := filepath.Join(work, "again.json")
		if _, se, err := c17RunProc(bins.Self, []string{"c17-record", "-prop", rf.Origin.Prop, "-seed", fmt.Sprint(rf.Origin.Seed), "-tier", rf.Origin.Tier, "-out", again},
			c17Env([]string{"GOMAXPROCS=2"}), "C17RECORD ", 10*time.Minute); err != nil {
			fmt.Println("INFRA: cannot record the history again:", err, tail(se, 300))
			return 2
		}
		if _, err := os.Stat(again); err == nil {
			v3, rc := try(again, fmt.Sprintf("history recorded again (%s seed %d)", rf.Origin.Prop, rf.Origin.Seed))
			if rc != 0 {
				return rc
			}
			if v3 != nil {
				return report(v3)
			}
		}
	}
	fmt.Println("not reproduced with the current code: the replica differs only from the reference stored in the replay file (stale: code changed since it was recorded)")
	fmt.Println("no violation on replay")
	return 0
}

// c17Preflight checks that the replica binaries exist and are what they claim to be.
func c17Preflight(bins c17Bins, need126 bool) string {
	if !need126 {
		return ""
	}
	if _, err := os.Stat(bins.Go126); err != nil {
		return "replica binary built with go1.26.8 is missing (" + bins.Go126 + "): run ./setup.sh"
	}
	out, se, err := c17RunProc(bins.Go126, []string{"c17-info"}, c17Env(nil), "C17INFO ", 60*time.Second)
	if err != nil {
		return "go1.26.8 replica binary does not start: " + err.Error() + " " + tail(se, 300)
	}
	if !strings.Contains(out, "go=go1.26") || !strings.Contains(out, "synctest=true") {
		return "go1.26.8 replica binary reports " + out
	}
	return ""
}

// ---------------------------------------------------------------------------------------
// check

var c17PropOrder = []string{"C05", "C09", "C15", "C19", "C13", "C11", "C14", "C04", "C10", "C16", "C07", "C08", "C01", "C12", "C18", "C06", "C02", "C03"}

type c17Unit struct {
	Index   int
	Sum     c17RecordSummary
	Kinds   []string
	Results []*C17ReplicaResult
}

type c17Found struct {
	Index int
	V     Violation
	Path  string
}

// c17Schedule decides what transcript #i is: engines take turns, properties rotate within an engine.
func c17Schedule(props []string, i int) (prop string, round, slot int) {
	var engines []string
	groups := map[string][]string{}
	for _, p := range props {
		e := c17EngineOf(p)
		if _, ok := groups[e]; !ok {
			engines = append(engines, e)
		}
		groups[e] = append(groups[e], p)
	}
	slot, round = i%len(engines), i/len(engines)
	g := groups[engines[slot]]
	return g[round%len(g)], round, slot
}

func c17KindsFor(tier string, round, slot int, seed uint64) []*c17Kind {
	var out []*c17Kind
	if tier == "thorough" {
		for k := range c17Kinds {
			out = append(out, &c17Kinds[k])
		}
		return out
	}
	// quick: three of the six base kinds; the first rotates so that every kind meets every engine
	first := (round + slot) % c17BaseKinds
	out = append(out, &c17Kinds[first])
	rng := NewRng(seed ^ 0x17)
	var rest []int
	for k := 0; k < c17BaseKinds; k++ {
		if k != first {
			rest = append(rest, k)
		}
	}
	a := rng.IntN(len(rest))
	out = append(out, &c17Kinds[rest[a]])
	rest = append(rest[:a], rest[a+1:]...)
	out = append(out, &c17Kinds[rest[rng.IntN(len(rest))]])
	if round%2 == 1 {
		out = append(out, &c17Kinds[c17BaseKinds+(round/2+slot)%c17SingleOptKinds])
	}
	return out
}

func c17CheckMain(args []string) int {
	fs := flag.NewFlagSet("check", flag.ExitOnError)
	fs.String("prop", "", "")
	tier := fs.String("tier", "quick", "")
	fs.Parse(args)
	if t := os.Getenv("VERIF_TIER"); t == "quick" || t == "thorough" {
		*tier = t
	}
	if *tier != "quick" && *tier != "thorough" {
		fmt.Println("INFRA: unknown tier", *tier)
		return 2
	}
	base := uint64(20261001)
	if s := os.Getenv("VERIF_SEED"); s != "" {
		if n, err := strconv.ParseUint(s, 10, 64); err == nil {
			base = n
		}
	}
	budget := 100.0
	if *tier == "thorough" {
		budget = 1200
	}
	if b := os.Getenv("VERIF_BUDGET_S"); b != "" {
		if f, err := strconv.ParseFloat(b, 64); err == nil {
			budget = f
		}
	}
	workers := 16
	if wv := os.Getenv("VERIF_WORKERS"); wv != "" {
		if n, err := strconv.Atoi(wv); err == nil && n > 0 {
			workers = n
		}
	}
	maxUnits := 1 << 30
	if mv := os.Getenv("VERIF_MAX_RUNS"); mv != "" {
		if n, err := strconv.Atoi(mv); err == nil && n > 0 {
			maxUnits = n
		}
	}
	t0 := time.Now()
	bins := c17FindBins()
	if msg := c17Preflight(bins, true); msg != "" {
		fmt.Println("INFRA:", msg)
		return 2
	}
	var props []string
	for _, p := range c17PropOrder {
		if EngineFor(p) != nil {
			props = append(props, p)
		}
	}
	if len(props) == 0 {
		fmt.Println("INFRA: no engines registered")
		return 2
	}
	work := filepath.Join(verifRoot, ".work", "C17")
	os.RemoveAll(work)
	os.MkdirAll(work, 0o755)
	defer os.RemoveAll(work)

	// a unit (one transcript and its replicas) takes 5-25 s: stop starting units early enough
	reserve := 17.0
	if *tier == "thorough" {
		reserve = 90
	}
	if reserve > budget/3 {
		reserve = budget / 3
	}
	startUntil := t0.Add(time.Duration((budget - reserve) * float64(time.Second)))
	hardStop := t0.Add(time.Duration((budget + 30) * float64(time.Second)))

	var mu sync.Mutex
	var units []*c17Unit
	var found []c17Found
	var infra []string
	recFail := map[string]int{}
	skipped := 0
	next := 0
	var wg sync.WaitGroup
	for wk := 0; wk < workers; wk++ {
		wg.Add(1)
		go func() {
			defer wg.Done()
			for {
				mu.Lock()
				i := next
				stop := i >= maxUnits || time.Now().After(startUntil) || len(infra) > 0
				if !stop {
					next++
				}
				mu.Unlock()
				if stop {
					return
				}
				prop, round, slot := c17Schedule(props, i)
				seed := RunSeed(base, "C17", uint64(i))
				tpath := filepath.Join(work, fmt.Sprintf("t%05d.json", i))
				payload, se, err := c17RunProc(bins.Self, []string{"c17-record", "-prop", prop, "-seed", fmt.Sprint(seed), "-tier", *tier, "-out", tpath},
					c17Env([]string{"GOMAXPROCS=2"}), "C17RECORD ", 300*time.Second)
				u := &c17Unit{Index: i}
				if err == nil {
					err = json.Unmarshal([]byte(payload), &u.Sum)
				}
				if err == nil && u.Sum.Error != "" {
					err = fmt.Errorf("%s (foreign: %s)", u.Sum.Error, u.Sum.Foreign)
				}
				if err != nil {
					mu.Lock()
					recFail[fmt.Sprintf("%s seed %d: %s %s", prop, seed, c17Short(err.Error()), c17Short(lastLine(se)))]++
					mu.Unlock()
					os.Remove(tpath)
					continue
				}
				for _, kind := range c17KindsFor(*tier, round, slot, seed) {
					if time.Now().After(hardStop) {
						mu.Lock()
						skipped++
						mu.Unlock()
						continue
					}
					vseed := splitmix(seed ^ uint64(len(kind.Name))<<32 ^ uint64(kind.Name[len(kind.Name)-1]))
					res, note, err := c17SpawnReplica(bins, kind, vseed, tpath, filepath.Join(work, fmt.Sprintf("db%05d-%s", i, kind.Name)), 300*time.Second)
					if err != nil {
						mu.Lock()
						infra = append(infra, fmt.Sprintf("replica %s on transcript %s/%d: %v", kind.Name, prop, seed, err))
						mu.Unlock()
						break
					}
					if note != "" {
						res.Options = append(res.Options, "shutdown-note: "+note)
					}
					u.Kinds = append(u.Kinds, kind.Name)
					u.Results = append(u.Results, res)
					if res.Div != nil {
						v := c17Violation(u.Sum.Engine, res)
						rp := filepath.Join(work, fmt.Sprintf("raw-%05d-%s.json", i, kind.Name))
						if t, err := c17ReadTranscript(tpath); err == nil {
							rf := &C17ReplayFile{Property: "C17", Engine: u.Sum.Engine, Kind: kind.Name, VariantSeed: vseed, Attempts: 8,
								Origin:    C17Origin{Prop: prop, Seed: seed, Tier: *tier, CheckSeed: base, Index: i},
								Violation: &v, Divergence: res.Div, Minimised: res.Div.Block+1 < len(t.Blocks), Transcript: t.c17Truncate(res.Div.Block)}
							if werr := WriteJSON(rp, rf); werr != nil {
								rp = ""
							}
						} else {
							rp = ""
						}
						mu.Lock()
						found = append(found, c17Found{Index: i, V: v, Path: rp})
						mu.Unlock()
					}
				}
				os.Remove(tpath)
				mu.Lock()
				units = append(units, u)
				mu.Unlock()
			}
		}()
	}
	wg.Wait()
	sort.Slice(units, func(a, b int) bool { return units[a].Index < units[b].Index })
	sort.SliceStable(found, func(a, b int) bool { return found[a].Index < found[b].Index })

	if len(infra) > 0 {
		for _, m := range infra {
			fmt.Println("INFRA:", m)
		}
		for _, f := range found {
			fmt.Printf("note: a divergence was also seen (%s), not reported because of the infrastructure trouble\n", f.V.ID())
		}
		return 2
	}
	nRecFail := 0
	for _, k := range sortedKeys(recFail) {
		nRecFail += recFail[k]
		fmt.Println("recorder failed:", k)
	}
	if len(units) == 0 || nRecFail > 2 && nRecFail*3 > len(units)+nRecFail {
		fmt.Printf("INFRA: %d transcripts recorded, %d recorder failures\n", len(units), nRecFail)
		return 2
	}

	// aggregate
	cov := c17Aggregate(units)
	if cov.evals == 0 {
		fmt.Println("INFRA: no replica comparison finished")
		return 2
	}

	for _, k := range sortedKeys(cov.perturbed) {
		fmt.Printf("HARNESS-LEAK: %d recording run(s) wrote committed state outside a block (%s); from that block on the reference is a pure ABCI replay done in the recorder process\n", cov.perturbed[k], k)
	}

	// violations
	known := loadKnown()
	outDir := filepath.Join(verifRoot, "out", "replays", "C17")
	knownHit := map[string]int{}
	first := map[string]c17Found{}
	count := map[string]int{}
	var ids []string
	for _, f := range found {
		id := f.V.ID()
		count[id]++
		if _, ok := first[id]; !ok {
			first[id] = f
			ids = append(ids, id)
		}
	}
	sort.Strings(ids)
	exit, nUnknown := 0, 0
	var moreIDs []string
	for _, id := range ids {
		f := first[id]
		if k := isKnown(known, "C17", f.V); k != nil {
			knownHit[id] = count[id]
			fmt.Printf("KNOWN-FINDING: property=C17 %s — %s (hit in %d comparisons)\n", id, k.What, count[id])
			continue
		}
		nUnknown++
		if nUnknown > 8 { // everything diverges everywhere: eight replays say it all
			moreIDs = append(moreIDs, id)
			continue
		}
		fmt.Printf("violation %s: %s (%d comparisons)\n", id, f.V.Message, count[id])
		final := ""
		if f.Path != "" {
			os.MkdirAll(outDir, 0o755)
			final = filepath.Join(outDir, sanitize.ReplaceAllString(id, "_")+fmt.Sprintf("-%d.json", f.Index))
			if bz, err := os.ReadFile(f.Path); err != nil || os.WriteFile(final, bz, 0o644) != nil {
				final = ""
			}
		}
		if final == "" {
			fmt.Println("INFRA: could not write the replay file for", id)
			return 2
		}
		fmt.Printf("VIOLATION property=C17 replay=%s\n", final)
		exit = 1
	}
	if len(moreIDs) > 0 {
		fmt.Printf("%d more violation ids without a replay file: %s\n", len(moreIDs), strings.Join(moreIDs, " "))
	}
	wall := time.Since(t0).Seconds()
	cov.write(*tier, base, wall, budget, workers, knownHit, nUnknown, recFail, skipped, props)
	fmt.Printf("C17 %s: %d transcripts (%d distinct non-trivial), %d replica comparisons, %d blocks and %d txs compared, %d crash points, %d violations (%d known ids), %.0fs\n",
		*tier, len(units), len(cov.distinct), cov.evals, cov.blocks, cov.txs, cov.crashes+cov.restarts, nUnknown, len(knownHit), wall)
	return exit
}

// ---------------------------------------------------------------------------------------
// evidence

type c17Cov struct {
	evals, blocks, txs, events int
	crashes, restarts          int
	transcripts                int
	tBlocks, tTxs, tTxsOK      int
	halted                     int
	distinct                   map[string]struct{}
	byKind, byEngine, byProp   map[string]int
	kindEngine                 map[string]int
	toolchains                 map[string]int
	options                    map[string]int
	bubbleClock                map[string]int
	notes                      map[string]int
	diverged                   int
	perturbed                  map[string]int
	pureBlocks                 int
	samples                    []interface{}
}

func c17Aggregate(units []*c17Unit) *c17Cov {
	c := &c17Cov{distinct: map[string]struct{}{}, byKind: map[string]int{}, byEngine: map[string]int{}, byProp: map[string]int{}, kindEngine: map[string]int{},
		perturbed: map[string]int{}, toolchains: map[string]int{}, options: map[string]int{}, bubbleClock: map[string]int{}, notes: map[string]int{}}
	seenEngine := map[string]bool{}
	for _, u := range units {
		c.transcripts++
		c.tBlocks += u.Sum.NBlocks
		c.tTxs += u.Sum.Txs
		c.tTxsOK += u.Sum.TxsOK
		if u.Sum.Halted {
			c.halted++
		}
		if p := u.Sum.Perturbed; p != nil {
			c.perturbed[fmt.Sprintf("engine=%s prop=%s stores=%s", u.Sum.Engine, u.Sum.Prop, strings.Join(p.Stores, ","))]++
			c.pureBlocks += p.PureBlocks
		}
		c.byEngine[u.Sum.Engine]++
		c.byProp[u.Sum.Prop]++
		if u.Sum.Nontrivial() && len(u.Results) > 0 {
			c.distinct[u.Sum.Hash] = struct{}{}
		}
		var rs []string
		for _, r := range u.Results {
			c.evals++
			if r.Div != nil {
				c.diverged++
				rs = append(rs, r.Kind+": DIVERGED at height "+fmt.Sprint(r.Div.Height))
			} else {
				rs = append(rs, fmt.Sprintf("%s: agreed on %d blocks / %d txs / %d events", r.Kind, r.Blocks, r.Txs, r.Events))
			}
			c.blocks += r.Blocks
			c.txs += r.Txs
			c.events += r.Events
			c.crashes += len(r.Crashes)
			c.restarts += len(r.Restarts)
			c.byKind[r.Kind]++
			c.kindEngine[r.Kind+" x "+u.Sum.Engine]++
			c.toolchains[r.GoVersion]++
			if r.Synctest {
				c.bubbleClock[r.WallStart+" .. "+r.WallEnd]++
			}
			for _, o := range r.Options {
				if strings.HasPrefix(o, "shutdown-note: ") {
					c.notes[r.Kind+": "+o]++
				} else {
					c.options[o]++
				}
			}
		}
		if !seenEngine[u.Sum.Engine] && len(u.Results) > 0 && u.Sum.Nontrivial() {
			seenEngine[u.Sum.Engine] = true
			c.samples = append(c.samples, map[string]interface{}{
				"transcript": u.Sum.Describe(), "first_steps": u.Sum.Sample, "replicas": rs,
			})
		}
	}
	return c
}

func (c *c17Cov) write(tier string, seed uint64, wall, budget float64, workers int, knownHit map[string]int, unknown int, recFail map[string]int, skipped int, props []string) {
	li := levels["C17"]
	samples := c.samples
	if len(samples) == 0 {
		samples = []interface{}{"no non-trivial transcript was completed"}
	}
	kinds := map[string]interface{}{}
	for _, k := range c17Kinds {
		kinds[k.Name] = map[string]interface{}{"comparisons": c.byKind[k.Name], "what": k.What, "binary": k.Binary, "env": k.Env}
	}
	synctestState := "working: replicas ran inside a testing/synctest bubble (fake clock, see bubble_wall_clock)"
	if len(c.bubbleClock) == 0 {
		synctestState = "no synctest replica ran in this check"
	}
	cov := map[string]interface{}{
		"evaluations":                            c.evals,
		"distinct_nontrivial":                    len(c.distinct),
		"rule":                                   li.Rule,
		"samples":                                samples,
		"runs_per_hour":                          int(float64(c.evals) / wall * 3600),
		"transcripts":                            c.transcripts,
		"transcripts_per_hour":                   int(float64(c.transcripts) / wall * 3600),
		"transcript_blocks":                      c.tBlocks,
		"transcript_txs":                         c.tTxs,
		"transcript_txs_ok":                      c.tTxsOK,
		"transcripts_ending_in_halt":             c.halted,
		"blocks_compared":                        c.blocks,
		"txs_compared":                           c.txs,
		"events_compared":                        c.events,
		"replica_kinds":                          kinds,
		"replica_kind_x_engine":                  c.kindEngine,
		"transcripts_by_engine":                  c.byEngine,
		"transcripts_by_property":                c.byProp,
		"source_properties":                      props,
		"crash_points_injected":                  c.crashes,
		"clean_restarts_injected":                c.restarts,
		"toolchains":                             c.toolchains,
		"synctest":                               synctestState,
		"bubble_wall_clock":                      c.bubbleClock,
		"node_options_used":                      c.options,
		"replica_shutdown_notes":                 c.notes,
		"divergent_comparisons":                  c.diverged,
		"comparisons_agreeing_to_the_end":        c.evals - c.diverged,
		"recordings_perturbed_by_harness_writes": c.perturbed,
		"reference_blocks_from_pure_replay":      c.pureBlocks,
		"known_findings_hit":                     knownHit,
		"recorder_failures":                      recFail,
		"replicas_skipped_at_budget_end":         skipped,
		"workers":                                workers,
		"search_budget_s":                        budget,
		"real_components":                        append(append([]string{}, realComponents...), "store over goleveldb on disk (crash-restart replicas)", "Go runtimes go1.23.5 and go1.26.8", "OS processes"),
		"stub_components":                        []string{"CometBFT consensus/mempool/p2p (the recorded block sequence is fed through ABCI InitChain/FinalizeBlock/Commit directly)", "histories come from the simulator's engines (external chains, oracles, relayers, users are models)", "crash = dropping all process state between FinalizeBlock and Commit and closing the DB handle (no torn writes inside Commit)", "wall clock inside synctest replicas (fake, starts 2000-01-01)"},
	}
	ev := map[string]interface{}{
		"property_id": "C17", "tier": tier, "seed": seed, "level": li.Level, "coverage": cov,
		"assumptions": []string{"sampling: a clean batch is evidence, not proof", "the reference of every comparison is the recording run itself (an engine run that also issues queries and branch executions between blocks); only when the recording run wrote committed state outside a block (detected per block: IAVL working hash != last commit) the reference from that block on is a pure replay in the recorder process",
			"`log` and `info` of tx results and the node-local `index` flag of event attributes are not compared (ABCI: non-deterministic / node configuration)",
			"map-order or clock dependence is only visible when it reaches app hash, tx results, events, validator or consensus-param updates within the recorded histories"},
		"wall_s": wall, "violations": unknown,
	}
	os.MkdirAll(filepath.Join(verifRoot, "evidence"), 0o755)
	WriteJSON(filepath.Join(verifRoot, "evidence", "C17.json"), ev)
}
