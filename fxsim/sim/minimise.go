package sim

import (
	"time"
)

// Minimise shrinks a failing replay by delta debugging over steps and over the txs inside
// block steps, keeping the same violation id. Bounded by budget.
func Minimise(eng Engine, rf *ReplayFile, budget time.Duration) *ReplayFile {
	if rf.Violation == nil {
		return rf
	}
	want := rf.Violation.ID()
	deadline := time.Now().Add(budget)
	fails := func(steps []Step) (*Violation, int) {
		cand := &ReplayFile{Property: rf.Property, Engine: rf.Engine, Seed: rf.Seed, Config: rf.Config, Steps: steps}
		_, res := ExecuteReplay(eng, cand)
		for i := range res.Violations {
			if res.Violations[i].ID() == want {
				return &res.Violations[i], res.Steps
			}
		}
		return nil, 0
	}
	steps := append([]Step{}, rf.Steps...)
	v, used := fails(steps)
	if v == nil {
		return rf // does not reproduce; keep the original
	}
	if used < len(steps) {
		steps = steps[:used]
	}
	best := v
	// ddmin on steps
	n := 2
	for len(steps) >= 2 && time.Now().Before(deadline) {
		chunk := (len(steps) + n - 1) / n
		reduced := false
		for start := 0; start < len(steps) && time.Now().Before(deadline); start += chunk {
			end := start + chunk
			if end > len(steps) {
				end = len(steps)
			}
			cand := append(append([]Step{}, steps[:start]...), steps[end:]...)
			if vv, u := fails(cand); vv != nil {
				if u < len(cand) {
					cand = cand[:u]
				}
				steps, best = cand, vv
				n = max(n-1, 2)
				reduced = true
				break
			}
		}
		if !reduced {
			if n >= len(steps) {
				break
			}
			n = min(n*2, len(steps))
		}
	}
	// drop single txs inside block steps, shrink block repetition
	for i := 0; i < len(steps) && time.Now().Before(deadline); i++ {
		for j := 0; j < len(steps[i].Txs) && time.Now().Before(deadline); {
			cand := cloneSteps(steps)
			cand[i].Txs = append(append([]Tx{}, cand[i].Txs[:j]...), cand[i].Txs[j+1:]...)
			if vv, _ := fails(cand); vv != nil {
				steps, best = cand, vv
			} else {
				j++
			}
		}
		if steps[i].N > 1 {
			for _, nn := range []int{1, steps[i].N / 2} {
				if nn < 1 || nn >= steps[i].N {
					continue
				}
				cand := cloneSteps(steps)
				cand[i].N = nn
				if vv, _ := fails(cand); vv != nil {
					steps, best = cand, vv
					break
				}
			}
		}
	}
	out := &ReplayFile{Property: rf.Property, Engine: rf.Engine, Seed: rf.Seed, Config: rf.Config, Steps: steps, Violation: best, Minimised: true}
	return out
}

func cloneSteps(s []Step) []Step {
	out := make([]Step, len(s))
	for i := range s {
		out[i] = s[i]
		out[i].Txs = append([]Tx{}, s[i].Txs...)
	}
	return out
}
