package sim

import (
	"fmt"
	"math/big"
	"sort"
	"strings"
)

// ---------------------------------------------------------------------------------------
// generation (may read state and draw from r.Rng; everything it decides is written into the
// concrete step)

func (e C18Engine) Gen(r *Run) Step {
	st := bst(r)
	cs := c18st(r)
	if len(st.Setup) > 0 {
		s := st.Setup[0]
		st.Setup = st.Setup[1:]
		return s
	}
	if len(cs.Queue) > 0 {
		s := cs.Queue[0]
		cs.Queue = cs.Queue[1:]
		return s
	}
	for try := 0; try < 20; try++ {
		kind := Weighted(r.Rng, r.Cfg.Weights)
		if s, ok := e.genKind(r, kind); ok {
			return s
		}
	}
	return Step{Kind: "block", DtMs: 5000, N: 1}
}

func (e C18Engine) haveCallee(r *Run) int {
	cs := c18st(r)
	for i := len(cs.Callees) - 1; i >= 0; i-- {
		if cs.Callees[i].OK {
			return i
		}
	}
	return -1
}

func (e C18Engine) genKind(r *Run, kind string) (Step, bool) {
	st := bst(r)
	c := st.Chains[0]
	w := r.W
	switch kind {
	case "call":
		return e.genCall(r)
	case "commit":
		return e.genCommit(r)
	case "att":
		return e.genAtt(r)
	case "gov":
		return e.genGovBranch(r)
	case "govcommit":
		return e.genGovCommit(r)
	case "govmulti":
		return e.genGovMulti(r, false)
	case "govmulticommit":
		return e.genGovMulti(r, true)
	case "gasparam":
		// real governance changes the gas limit of inbound bridge calls (MsgUpdateParams)
		g := []uint64{30_000_000, 3_000_000, 400_000, 90_000, 30_000, 1}[r.Rng.IntN(6)]
		return Step{Kind: "c18_params", DtMs: 5000, A: A("chain", c.Name, "gas", g)}, true
	case "toggle":
		// real governance disables / re-enables one pair in the committed history
		denoms := []string{"FX", "usdt", "dai", "usdc"}
		return Step{Kind: "gov", DtMs: 5000, A: A("what", "toggle", "token", denoms[r.Rng.IntN(len(denoms))])}, true
	case "fund":
		// somebody funds an address that later serves as refund address
		sym := []string{"FX", "usdt", "dai", "usdc"}[r.Rng.IntN(4)]
		u := r.Rng.IntN(st.NUsers)
		bal := w.App.BankKeeper.GetBalance(w.Ctx(), w.Key("user", u).Acc(), sym).Amount
		if !bal.IsPositive() {
			return Step{}, false
		}
		amt := int64(1 + r.Rng.IntN(5000))
		if bal.IsInt64() && bal.Int64() < amt {
			amt = bal.Int64()
		}
		return Step{Kind: "block", DtMs: 5000, N: 1, Txs: []Tx{{K: "bank_send", S: KeyName("user", u), A: A("to", w.Key("rf", r.Rng.IntN(3)).Bech(), "denom", sym, "amount", amt)}}}, true
	case "tick":
		v := w.ViewChain(w.Ctx(), c.Name)
		if len(v.Pending) > 0 && r.Pct(50) {
			return Step{Kind: "block", DtMs: 5000, N: 1, Txs: []Tx{{K: "execute_claim_all", S: KeyName("user", r.Rng.IntN(st.NUsers))}}}, true
		}
		return Step{Kind: "block", DtMs: 5000, N: 1, Txs: []Tx{{K: "c18_catchup", S: "user/0"}, {K: "c18_confirm_sets", S: "user/0"}}}, true
	}
	return Step{}, false
}

// addedTokens: tokens of the chain that fxcore knows (bridge token registered).
func (e C18Engine) addedTokens(r *Run) []*TokenInfo {
	st := bst(r)
	c := st.Chains[0]
	w := r.W
	k := c.keeper(w)
	var out []*TokenInfo
	for _, t := range c.Tokens {
		if _, ok := k.GetBridgeDenomByContract(w.Ctx(), ExtAddrStr(c.Name, t.Contract)); ok {
			out = append(out, t)
		}
	}
	return out
}

// drawCallShape draws the call itself: tokens, receiver, refund address, memo.
func (e C18Engine) drawCallShape(r *Run) (Args, []*TokenInfo, bool) {
	st := bst(r)
	c := st.Chains[0]
	toks := e.addedTokens(r)
	if len(toks) == 0 {
		return nil, nil, false
	}
	r.Rng.Shuffle(len(toks), func(i, j int) { toks[i], toks[j] = toks[j], toks[i] })
	n := 1 + r.Rng.IntN(len(toks))
	if r.Pct(8) {
		n = 0
	}
	toks = toks[:n]
	var syms, amts []string
	for _, t := range toks {
		syms = append(syms, t.Symbol)
		amts = append(amts, fmt.Sprint(1+r.Rng.IntN(3000)))
	}
	if n > 0 && r.Pct(10) { // the same token twice
		syms = append(syms, toks[0].Symbol)
		amts = append(amts, fmt.Sprint(1+r.Rng.IntN(100)))
	}
	ci := e.haveCallee(r)
	to := fmt.Sprintf("callee/%d", ci)
	if ci < 0 || r.Pct(25) {
		to = []string{KeyName("user", r.Rng.IntN(st.NUsers)), KeyName("fresh", r.Rng.IntN(1000))}[r.Rng.IntN(2)]
		if r.Pct(6) {
			to = "module/distribution" // a blocked receiver
		}
	}
	sender := KeyName("extuser", r.Rng.IntN(6))
	if r.Pct(3) {
		sender = "module/gov"
	}
	memo := ""
	switch {
	case r.Pct(25):
		memo = "sendcallto"
	case r.Pct(10):
		memo = "c0ffee"
	}
	receiver := to
	if memo == "sendcallto" {
		receiver = sender
	}
	// refund: the common real-world shape is the sender's own external address; equal to the
	// receiver, a funded fxcore account and a never-seen address are the other classes
	var refund string
	switch r.Rng.IntN(10) {
	case 0, 1, 2, 3:
		refund = receiver
	case 4, 5:
		refund = sender
	case 6, 7:
		refund = KeyName("user", r.Rng.IntN(st.NUsers))
	case 8:
		refund = KeyName("rf", r.Rng.IntN(3))
	default:
		refund = KeyName("fresh", 1000+r.Rng.IntN(1000))
	}
	a := A("chain", c.Name, "syms", strings.Join(syms, ","), "amts", strings.Join(amts, ","), "to", to, "refund", refund, "sender", sender, "memo", memo)
	if r.Pct(15) {
		a["origin"] = KeyName("fresh", 2000+r.Rng.IntN(1000))
	}
	return a, toks, true
}

// baseDenomsSorted: the base denoms of the call's tokens in the order BridgeCallEvm converts them.
func c18BaseDenomsSorted(toks []*TokenInfo) []string {
	seen := map[string]bool{}
	var ds []string
	for _, t := range toks {
		if !seen[t.Base] {
			seen[t.Base] = true
			ds = append(ds, t.Base)
		}
	}
	sort.Strings(ds)
	return ds
}

func (e C18Engine) genCall(r *Run) (Step, bool) {
	a, toks, ok := e.drawCallShape(r)
	if !ok {
		return Step{}, false
	}
	isCallee := strings.HasPrefix(a.Str("to"), "callee/")
	denoms := c18BaseDenomsSorted(toks)
	var vars []c18Variant
	mk := func(mode *big.Int, gas uint64, dis string, path string) c18Variant {
		return c18Variant{Mode: mode, Gas: gas, Disable: dis, Path: path}
	}
	allActs := uint64(1<<c18NActs - 1)
	if isCallee {
		// reference: the callee reverts before doing anything
		vars = append(vars, mk(c18Mode(0, c18EndRevert), 0, "", "k"))
		ends := []int{c18EndRevert, c18EndInvalid, c18EndBurn, c18EndRevertData}
		switch r.Rng.IntN(4) {
		case 0: // every single action, then fail
			for b := 0; b < c18NActs; b++ {
				vars = append(vars, mk(c18Mode(1<<uint(b), ends[r.Rng.IntN(len(ends))]), 0, "", "k"))
			}
		case 1: // all actions x every ending, both paths
			for _, en := range ends {
				vars = append(vars, mk(c18Mode(allActs, en), 0, "", "k"))
				vars = append(vars, mk(c18Mode(allActs, en), 0, "", "e"))
			}
			vars = append(vars, mk(c18Mode(0, c18EndInvalid), 0, "", "k"), mk(c18Mode(0, c18EndBurn), 0, "", "e"))
		case 2: // gas ladder over a callee that would succeed with enough gas
			acts := allActs
			if r.Pct(50) {
				acts = r.Rng.Uint64() & allActs
			}
			for _, g := range c18GasLadder(r) {
				vars = append(vars, mk(c18Mode(acts, c18EndReturn), g, "", []string{"k", "k", "e"}[r.Rng.IntN(3)]))
			}
		default: // random subsets
			for i := 0; i < 6; i++ {
				vars = append(vars, mk(c18Mode(r.Rng.Uint64()&allActs, ends[r.Rng.IntN(len(ends))]), 0, "", []string{"k", "e"}[r.Rng.IntN(2)]))
			}
		}
		// token conversion failing at every position, callee never reached
		for _, d := range denoms {
			vars = append(vars, mk(c18Mode(allActs, c18EndReturn), 0, d, "k"))
		}
		vars = append(vars, mk(c18Mode(0, c18EndRevert), 1, "", "k")) // gas limit 1
	} else {
		if len(denoms) == 0 {
			return Step{}, false
		}
		// receiver is an account without code: only a disabled pair can fail; first pair = reference
		for _, d := range denoms {
			vars = append(vars, mk(big.NewInt(0), 0, d, "k"))
		}
		for _, d := range denoms {
			vars = append(vars, mk(big.NewInt(0), 0, d, "e"))
		}
		vars = append(vars, mk(big.NewInt(0), 0, "", "k")) // control: succeeds
	}
	// an endless loop burns the whole gas limit: keep those cut points below 3M gas
	if st := bst(r); st.Chains[0].keeper(r.W).GetBridgeCallMaxGasLimit(r.W.Ctx()) > 3_000_000 {
		for i := range vars {
			if c18ModeEnd(vars[i].Mode) == c18EndBurn && vars[i].Gas == 0 {
				vars[i].Gas = uint64(300_000 + r.Rng.IntN(2_000_000))
			}
		}
	}
	var ds []string
	for _, v := range vars {
		ds = append(ds, v.String())
	}
	a["vars"] = strings.Join(ds, ";")
	return Step{Kind: "c18_call", A: a}, true
}

func c18GasLadder(r *Run) []uint64 {
	pts := []uint64{1, 20_999, 21_000, 21_500 + uint64(r.Rng.IntN(3000))}
	g := 25_000.0
	for g < 2_500_000 {
		pts = append(pts, uint64(g)+uint64(r.Rng.IntN(2000)))
		g *= 1.25 + r.Rng.Float64()*0.5
	}
	return pts
}
