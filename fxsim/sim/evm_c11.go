package sim

import (
	"fmt"
	"sort"
	"strings"

	sdkmath "cosmossdk.io/math"
	sdk "github.com/cosmos/cosmos-sdk/types"
	distrkeeper "github.com/cosmos/cosmos-sdk/x/distribution/keeper"
	distrtypes "github.com/cosmos/cosmos-sdk/x/distribution/types"
	stakingkeeper "github.com/cosmos/cosmos-sdk/x/staking/keeper"
	stakingtypes "github.com/cosmos/cosmos-sdk/x/staking/types"
)

// C11 — transferring delegation shares conserves shares, stake and reward entitlements.

type delKey struct{ del, val string }

type c11Model struct {
	sharesPre map[delKey]sdkmath.LegacyDec
	valPre    map[string][2]string // tokens, shares
	balPre    map[string]sdkmath.Int
	redPre    map[delKey]sdkmath.LegacyDec // shares that unmatured incoming redelegations still reference
}

func newC11() *c11Model { return &c11Model{} }

func (w *World) allDelegations(ctx sdk.Context) map[delKey]sdkmath.LegacyDec {
	out := map[delKey]sdkmath.LegacyDec{}
	dels, err := w.App.StakingKeeper.GetAllDelegations(ctx)
	if err != nil {
		return out
	}
	for _, d := range dels {
		out[delKey{d.DelegatorAddress, d.ValidatorAddress}] = d.Shares
	}
	return out
}

func (m *c11Model) before(r *Run, s *Step) {
	if r.Prop != "C11" {
		return
	}
	w := r.W
	ctx := w.Ctx()
	m.sharesPre = w.allDelegations(ctx)
	m.valPre = map[string][2]string{}
	vals, _ := w.App.StakingKeeper.GetAllValidators(ctx)
	for _, v := range vals {
		m.valPre[v.OperatorAddress] = [2]string{v.Tokens.String(), v.DelegatorShares.String()}
	}
	m.redPre = w.incomingRedelegationShares(ctx)
	m.balPre = map[string]sdkmath.Int{}
	for _, k := range trackedAccounts(r) {
		m.balPre[k.Bech()] = w.App.BankKeeper.GetBalance(ctx, k.Acc(), "FX").Amount
	}
}

// incomingRedelegationShares: per (delegator, destination validator) the destination shares that
// redelegation entries which have not matured yet still reference (they are slashed there if the
// source validator is slashed for an earlier infraction).
func (w *World) incomingRedelegationShares(ctx sdk.Context) map[delKey]sdkmath.LegacyDec {
	out := map[delKey]sdkmath.LegacyDec{}
	_ = w.App.StakingKeeper.IterateRedelegations(ctx, func(_ int64, red stakingtypes.Redelegation) bool {
		for _, e := range red.Entries {
			if e.CompletionTime.After(ctx.BlockTime()) {
				k := delKey{red.DelegatorAddress, red.ValidatorDstAddress}
				if _, ok := out[k]; !ok {
					out[k] = sdkmath.LegacyZeroDec()
				}
				out[k] = out[k].Add(e.SharesDst)
			}
		}
		return false
	})
	return out
}

// assertInvariants runs every registered crisis invariant on a branch.
func (w *World) brokenInvariant() (msg string) {
	defer func() {
		if rec := recover(); rec != nil {
			msg = fmt.Sprint(rec)
		}
	}()
	ctx := w.Branch()
	w.App.CrisisKeeper.AssertInvariants(ctx)
	return ""
}

func invariantSite(msg string) string {
	// "invariant broken: <module>: <route> invariant ..." -> module/route
	l := firstLine(msg)
	if i := strings.Index(l, "invariant broken:"); i >= 0 {
		l = strings.TrimSpace(l[i+len("invariant broken:"):])
	}
	f := strings.Fields(l)
	if len(f) >= 2 {
		return strings.Trim(f[0], ":") + "/" + strings.Trim(f[1], ":")
	}
	return "unknown"
}

func (m *c11Model) check(r *Run, s *Step, o *Outcome) []Violation {
	var vs []Violation
	w := r.W
	ctx := w.Ctx()
	post := w.allDelegations(ctx)
	solo := s.Kind == "block" && deliveredCount(o) == 1 && s.N <= 1
	for _, t := range o.Txs {
		if t.Tx == nil || t.Res == nil || t.Tx.K != "eth_call" || t.Tx.A.Str("t") != "staking" {
			continue
		}
		meth := t.Tx.A.Str("m")
		if meth != "transferShares" && meth != "transferFromShares" {
			continue
		}
		if !t.Res.OK() {
			r.Probe("share-transfer-refused")
			continue
		}
		r.Nontrivial = true
		r.Probe("share-transfer-ok:" + meth)
		if !solo {
			continue
		}
		args := strings.Split(t.Tx.A.Str("args"), "|")
		res := EvmEngine{}.resolver(r, nil)
		val := res(args[0])
		var from, to string
		var shares sdkmath.LegacyDec
		if meth == "transferShares" {
			from = w.KeyByName(t.Tx.S).Bech()
			to = sdk.AccAddress(commonHex(res(args[1]))).String()
			shares = sdkmath.LegacyMustNewDecFromStr(args[2])
		} else {
			from = sdk.AccAddress(commonHex(res(args[1]))).String()
			to = sdk.AccAddress(commonHex(res(args[2]))).String()
			shares = sdkmath.LegacyMustNewDecFromStr(args[3])
		}
		get := func(mm map[delKey]sdkmath.LegacyDec, d string) sdkmath.LegacyDec {
			if v, ok := mm[delKey{d, val}]; ok {
				return v
			}
			return sdkmath.LegacyZeroDec()
		}
		kind := "to-other"
		if from == to {
			kind = "self"
			r.Probe("self-transfer")
		} else if get(m.sharesPre, to).IsZero() {
			kind = "to-new-delegator"
		}
		dFrom := get(post, from).Sub(get(m.sharesPre, from))
		dTo := get(post, to).Sub(get(m.sharesPre, to))
		if from == to {
			if !dFrom.IsZero() {
				vs = append(vs, viol("shares-conserved", "transfer/"+kind, "%s of %s shares to oneself changed the delegation by %s", meth, shares, dFrom))
			}
		} else {
			if !dFrom.Equal(shares.Neg()) || !dTo.Equal(shares) {
				vs = append(vs, viol("shares-conserved", "transfer/"+kind, "%s of %s shares: sender changed by %s, recipient by %s", meth, shares, dFrom, dTo))
			}
		}
		// bookkeeping: the transfer must not take away shares that an unmatured incoming redelegation of
		// the sender still references (those shares answer for a slash of the source validator)
		deficit := func(shares map[delKey]sdkmath.LegacyDec, red map[delKey]sdkmath.LegacyDec) sdkmath.LegacyDec {
			need, ok := red[delKey{from, val}]
			if !ok {
				return sdkmath.LegacyZeroDec()
			}
			d := need.Sub(get(shares, from))
			if d.IsNegative() {
				return sdkmath.LegacyZeroDec()
			}
			return d
		}
		if from != to {
			pre, postD := deficit(m.sharesPre, m.redPre), deficit(post, w.incomingRedelegationShares(ctx))
			if _, has := m.redPre[delKey{from, val}]; has {
				r.Probe("share-transfer-ok-with-incoming-redelegation")
			}
			if postD.GT(pre) {
				vs = append(vs, viol("bookkeeping-consistent", "transfer/redelegation-backing-removed", "%s of %s shares left the sender with %s shares less than its unmatured incoming redelegations at %s reference (before: %s)", meth, shares, postD, val, pre))
			}
		}
		// validator untouched
		if v, err := w.App.StakingKeeper.GetValidator(ctx, mustVal(val)); err == nil {
			if p, ok := m.valPre[val]; ok && (p[0] != v.Tokens.String() || p[1] != v.DelegatorShares.String()) {
				vs = append(vs, viol("validator-untouched", "transfer/"+kind, "validator tokens/shares changed by a share transfer: %s/%s -> %s/%s", p[0], p[1], v.Tokens, v.DelegatorShares))
			}
		}
		// rewards are paid, never taken
		for _, k := range trackedAccounts(r) {
			if k.Bech() == from || k.Bech() == to {
				if w.App.BankKeeper.GetBalance(ctx, k.Acc(), "FX").Amount.LT(m.balPre[k.Bech()]) {
					vs = append(vs, viol("rewards-paid", "transfer/"+kind, "balance of %s decreased by a share transfer", k.Name()))
				}
			}
		}
	}
	// module invariants after every step
	if msg := w.brokenInvariant(); msg != "" {
		vs = append(vs, viol("sdk-invariants", invariantSite(msg), "%s", firstLine(msg)))
	}
	r.State(fmt.Sprintf("dels%d", min(len(post), 12)))
	return vs
}

func mustVal(s string) sdk.ValAddress {
	v, _ := sdk.ValAddressFromBech32(s)
	return v
}

func commonHex(s string) []byte {
	s = strings.TrimPrefix(s, "0x")
	b := make([]byte, 20)
	for i := 0; i < 20 && 2*i+1 < len(s); i++ {
		fmt.Sscanf(s[2*i:2*i+2], "%02x", &b[i])
	}
	return b
}

// finish: bounded liveness — on a branch every delegator can withdraw rewards and fully
// undelegate without error or panic.
func (m *c11Model) finish(r *Run) []Violation {
	var vs []Violation
	w := r.W
	ctx := w.Branch()
	dels := w.allDelegations(ctx)
	var keys []delKey
	for k := range dels {
		keys = append(keys, k)
	}
	sort.Slice(keys, func(i, j int) bool { return keys[i].del+keys[i].val < keys[j].del+keys[j].val })
	dsrv := distrkeeper.NewMsgServerImpl(w.App.DistrKeeper)
	ssrv := stakingkeeper.NewMsgServerImpl(w.App.StakingKeeper.Keeper)
	for _, k := range keys {
		err := func() (err error) {
			defer func() {
				if rec := recover(); rec != nil {
					err = fmt.Errorf("panic: %v", rec)
				}
			}()
			if _, e := dsrv.WithdrawDelegatorReward(ctx, &distrtypes.MsgWithdrawDelegatorReward{DelegatorAddress: k.del, ValidatorAddress: k.val}); e != nil {
				return fmt.Errorf("withdraw: %w", e)
			}
			val, e := w.App.StakingKeeper.GetValidator(ctx, mustVal(k.val))
			if e != nil {
				return e
			}
			d, e := w.App.StakingKeeper.GetDelegation(ctx, sdk.MustAccAddressFromBech32(k.del), mustVal(k.val))
			if e != nil {
				return e
			}
			amt := val.TokensFromShares(d.Shares).TruncateInt()
			if !amt.IsPositive() {
				return nil
			}
			if _, e := ssrv.Undelegate(ctx, &stakingtypes.MsgUndelegate{DelegatorAddress: k.del, ValidatorAddress: k.val, Amount: sdk.NewCoin("FX", amt)}); e != nil {
				if strings.Contains(e.Error(), "too many unbonding") {
					return nil
				}
				return fmt.Errorf("undelegate: %w", e)
			}
			return nil
		}()
		if err != nil {
			vs = append(vs, viol("exit-liveness", "withdraw-or-undelegate-fails", "delegator %s at %s cannot leave: %s", k.del, k.val, firstLine(err.Error())))
			break
		}
	}
	r.Probe("finish-exit-checked")
	return vs
}

// ---- generator

func (e EvmEngine) genC11(r *Run) Step {
	st := bst(r)
	w := r.W
	blk := func(txs ...Tx) Step { return Step{Kind: "block", DtMs: int64(2000 + r.Rng.IntN(8000)), N: 1, Txs: txs} }
	u := r.Rng.IntN(st.NUsers)
	signer := KeyName("user", u)
	val := fmt.Sprintf("$valop%d", r.Rng.IntN(r.Cfg.World.Validators))
	pc := func(m string, args ...string) Tx {
		return Tx{K: "pcall", S: signer, A: A("t", "staking", "m", m, "args", strings.Join(args, "|")), Gas: 2_000_000}
	}
	dels := w.allDelegations(w.Ctx())
	myShares := func(valop string) sdkmath.Int {
		if d, ok := dels[delKey{w.Key("user", u).Bech(), valop}]; ok {
			return d.TruncateInt()
		}
		return sdkmath.ZeroInt()
	}
	res := e.resolver(r, nil)
	switch r.Rng.IntN(13) {
	case 12:
		// scenario over several blocks: redelegate into a validator, approve a spender there, then the
		// sender itself or the spender moves shares out while the redelegation has not matured
		if r.Cfg.World.Validators < 2 {
			return blk(pc("withdraw", val))
		}
		src := r.Rng.IntN(r.Cfg.World.Validators)
		dst := (src + 1 + r.Rng.IntN(r.Cfg.World.Validators-1)) % r.Cfg.World.Validators
		srcV, dstV := fmt.Sprintf("$valop%d", src), fmt.Sprintf("$valop%d", dst)
		b := (u + 1 + r.Rng.IntN(st.NUsers-1)) % st.NUsers
		amt := FX(int64(10 + r.Rng.IntN(500)))
		pcs := func(signer, m string, args ...string) Tx {
			return Tx{K: "pcall", S: signer, A: A("t", "staking", "m", m, "args", strings.Join(args, "|")), Gas: 2_000_000}
		}
		part := amt.QuoRaw(int64(1 + r.Rng.IntN(3)))
		var follow []Step
		follow = append(follow, blk(pcs(signer, "redelegateV2", srcV, dstV, amt.String())))
		if r.Pct(50) {
			follow = append(follow, blk(pcs(signer, "approveShares", dstV, fmt.Sprintf("$user%d", b), FX(1_000_000).String())))
			follow = append(follow, blk(pcs(KeyName("user", b), "transferFromShares", dstV, fmt.Sprintf("$user%d", u), fmt.Sprintf("$user%d", r.Rng.IntN(st.NUsers)), part.String())))
		} else {
			follow = append(follow, blk(pcs(signer, "transferShares", dstV, fmt.Sprintf("$user%d", b), part.String())))
		}
		st.Setup = append(st.Setup, follow...)
		return blk(pc("delegateV2", srcV, amt.MulRaw(2).String()))
	case 0, 1, 2:
		return blk(pc("delegateV2", val, FX(int64(1+r.Rng.IntN(1000))).String()))
	case 3:
		sh := myShares(res(val))
		if !sh.IsPositive() {
			return blk(pc("delegateV2", val, FX(int64(1+r.Rng.IntN(1000))).String()))
		}
		amt := sh.QuoRaw(int64(1 + r.Rng.IntN(4)))
		return blk(pc("undelegateV2", val, amt.String()))
	case 4:
		sh := myShares(res(val))
		if !sh.IsPositive() || r.Cfg.World.Validators < 2 {
			return blk(pc("withdraw", val))
		}
		return blk(pc("redelegateV2", val, fmt.Sprintf("$valop%d", r.Rng.IntN(r.Cfg.World.Validators)), sh.QuoRaw(int64(1+r.Rng.IntN(4))).String()))
	case 5:
		return blk(pc("withdraw", val))
	case 6:
		return blk(pc("approveShares", val, fmt.Sprintf("$user%d", r.Rng.IntN(st.NUsers)), FX(int64(r.Rng.IntN(2000))).String()))
	case 7, 8, 9:
		sh := myShares(res(val))
		if !sh.IsPositive() {
			return blk(pc("delegateV2", val, FX(int64(1+r.Rng.IntN(1000))).String()))
		}
		to := r.Rng.IntN(st.NUsers)
		if r.Pct(25) {
			to = u // self transfer
		}
		amt := sh
		if r.Pct(70) {
			amt = sh.QuoRaw(int64(2 + r.Rng.IntN(5)))
		}
		if !amt.IsPositive() {
			amt = sh
		}
		if r.Pct(12) {
			amt = sh.Add(FX(int64(1 + r.Rng.IntN(50)))) // more than the sender holds: must be refused without effects
		}
		if r.Pct(8) {
			amt = sdkmath.ZeroInt() // nothing to move: whatever the answer, no record may appear or change
		}
		return blk(pc("transferShares", val, fmt.Sprintf("$user%d", to), amt.String()))
	case 10:
		from := r.Rng.IntN(st.NUsers)
		famt := FX(int64(1 + r.Rng.IntN(100)))
		if r.Pct(12) {
			famt = sdkmath.ZeroInt() // needs no allowance: anybody could send it against anybody
		}
		return blk(pc("transferFromShares", val, fmt.Sprintf("$user%d", from), fmt.Sprintf("$user%d", r.Rng.IntN(st.NUsers)), famt.String()))
	default:
		// reward-producing blocks, sometimes with a validator missing (downtime slashing)
		s := Step{Kind: "block", DtMs: 6000, N: 1 + r.Rng.IntN(6)}
		if r.Cfg.World.Validators > 1 && r.Pct(30) {
			s.A = A("absent", 1+r.Rng.IntN(r.Cfg.World.Validators-1))
			s.N = 5 + r.Rng.IntN(60)
			r.Fault("val-downtime")
		}
		return s
	}
}
