package sim

import (
	"encoding/hex"
	"fmt"
	"math/big"
	"strings"
	"time"

	sdkmath "cosmossdk.io/math"
	codectypes "github.com/cosmos/cosmos-sdk/codec/types"
	sdk "github.com/cosmos/cosmos-sdk/types"
	banktypes "github.com/cosmos/cosmos-sdk/x/bank/types"
	distrtypes "github.com/cosmos/cosmos-sdk/x/distribution/types"
	govv1 "github.com/cosmos/cosmos-sdk/x/gov/types/v1"
	stakingtypes "github.com/cosmos/cosmos-sdk/x/staking/types"
	"github.com/ethereum/go-ethereum/common"

	fxtypes "github.com/functionx/fx-core/v8/types"
	cctypes "github.com/functionx/fx-core/v8/x/crosschain/types"
)

// Built is what a tx intent resolves to: Cosmos messages or an EVM call.
type Built struct {
	Msgs  []sdk.Msg
	Eth   bool
	To    *common.Address
	Value *big.Int
	Data  []byte
}

type TxBuilder func(w *World, t *Tx) (*Built, error)

var txBuilders = map[string]TxBuilder{}

func RegisterTx(kind string, b TxBuilder) { txBuilders[kind] = b }

func init() {
	RegisterTx("bank_send", func(w *World, t *Tx) (*Built, error) {
		from := w.KeyByName(t.S)
		to, err := sdk.AccAddressFromBech32(t.A.Str("to"))
		if err != nil {
			return nil, err
		}
		return &Built{Msgs: []sdk.Msg{banktypes.NewMsgSend(from.Acc(), to, sdk.NewCoins(sdk.NewCoin(t.A.Str("denom"), t.A.SdkInt("amount"))))}}, nil
	})
	RegisterTx("delegate", func(w *World, t *Tx) (*Built, error) {
		k := w.KeyByName(t.S)
		return &Built{Msgs: []sdk.Msg{stakingtypes.NewMsgDelegate(k.Bech(), w.Key("val", t.A.Int("val")).Val().String(), sdk.NewCoin(fxtypes.DefaultDenom, t.A.SdkInt("amount")))}}, nil
	})
	RegisterTx("undelegate", func(w *World, t *Tx) (*Built, error) {
		k := w.KeyByName(t.S)
		return &Built{Msgs: []sdk.Msg{stakingtypes.NewMsgUndelegate(k.Bech(), w.Key("val", t.A.Int("val")).Val().String(), sdk.NewCoin(fxtypes.DefaultDenom, t.A.SdkInt("amount")))}}, nil
	})
	RegisterTx("redelegate", func(w *World, t *Tx) (*Built, error) {
		k := w.KeyByName(t.S)
		return &Built{Msgs: []sdk.Msg{stakingtypes.NewMsgBeginRedelegate(k.Bech(), w.Key("val", t.A.Int("val")).Val().String(), w.Key("val", t.A.Int("dst")).Val().String(), sdk.NewCoin(fxtypes.DefaultDenom, t.A.SdkInt("amount")))}}, nil
	})
	RegisterTx("withdraw", func(w *World, t *Tx) (*Built, error) {
		k := w.KeyByName(t.S)
		return &Built{Msgs: []sdk.Msg{distrtypes.NewMsgWithdrawDelegatorReward(k.Bech(), w.Key("val", t.A.Int("val")).Val().String())}}, nil
	})
	RegisterTx("gov_vote", func(w *World, t *Tx) (*Built, error) {
		k := w.KeyByName(t.S)
		opt := govv1.VoteOption(t.A.Int("opt"))
		return &Built{Msgs: []sdk.Msg{govv1.NewMsgVote(k.Acc(), t.A.U64("id"), opt, "")}}, nil
	})
	RegisterTx("gov_deposit", func(w *World, t *Tx) (*Built, error) {
		k := w.KeyByName(t.S)
		return &Built{Msgs: []sdk.Msg{govv1.NewMsgDeposit(k.Acc(), t.A.U64("id"), sdk.NewCoins(sdk.NewCoin(fxtypes.DefaultDenom, t.A.SdkInt("amount"))))}}, nil
	})
	RegisterTx("eth_call", func(w *World, t *Tx) (*Built, error) {
		var to *common.Address
		if t.A.Has("to") && t.A.Str("to") != "" {
			a := common.HexToAddress(t.A.Str("to"))
			to = &a
		}
		data, err := hex.DecodeString(t.A.Str("data"))
		if err != nil {
			return nil, err
		}
		return &Built{Eth: true, To: to, Value: t.A.Big("value"), Data: data}, nil
	})
}

// ExtAddrStr renders a 20-byte address in the external chain's string form.
func ExtAddrStr(chain string, a common.Address) string {
	return cctypes.ExternalAddrToStr(chain, a.Bytes())
}

// GovAuthority is the bech32 address of the gov module account.
func (w *World) GovAuthority() string {
	return w.App.GovKeeper.GetAuthority()
}

// BlockResult is the result of delivering intents in one block.
type BlockResult struct {
	Out  []TxOutcome
	Halt *HaltInfo
}

// DeliverBlock builds, signs (with each signer's current sequence) and delivers the
// intents in one block, followed by extra empty blocks.
func (w *World) DeliverBlock(txs []Tx, dt time.Duration, extraBlocks int) *BlockResult {
	br := &BlockResult{}
	var raws [][]byte
	var idx []int // raw index -> tx outcome index
	seqOff := map[string]uint64{}
	for i := range txs {
		t := &txs[i]
		oc := TxOutcome{Tx: t}
		b, ok := txBuilders[t.K]
		if !ok {
			oc.Note = "unknown tx kind " + t.K
			br.Out = append(br.Out, oc)
			continue
		}
		built, err := safeBuild(b, w, t)
		if err != nil {
			oc.Note = "build: " + err.Error()
			br.Out = append(br.Out, oc)
			continue
		}
		k := w.KeyByName(t.S)
		var raw []byte
		if built.Eth {
			gas := t.Gas
			if gas == 0 {
				gas = 3_000_000
			}
			raw, _, err = w.SignEth(k, seqOff[t.S], built.To, built.Value, gas, built.Data)
		} else {
			raw, err = w.SignCosmos(k, seqOff[t.S], t.Gas, built.Msgs...)
		}
		if err != nil {
			oc.Note = "sign: " + err.Error()
			br.Out = append(br.Out, oc)
			continue
		}
		seqOff[t.S]++
		oc.Built = true
		oc.Bytes = raw
		br.Out = append(br.Out, oc)
		raws = append(raws, raw)
		idx = append(idx, len(br.Out)-1)
		for _, f := range t.F {
			if f == "dup-bytes" {
				raws = append(raws, raw)
				idx = append(idx, -1)
			}
		}
	}
	resp, halt := w.RunBlock(raws, dt)
	if halt != nil {
		br.Halt = halt
		return br
	}
	for ri, r := range resp.TxResults {
		if idx[ri] >= 0 {
			br.Out[idx[ri]].Res = FromExec(r)
		} else {
			// duplicate bytes must be rejected
			dup := FromExec(r)
			if dup.OK() {
				br.Out = append(br.Out, TxOutcome{Tx: &Tx{K: "dup-bytes-accepted"}, Res: dup, Built: true})
			}
		}
	}
	for i := 0; i < extraBlocks; i++ {
		if _, halt := w.RunBlock(nil, dt); halt != nil {
			br.Halt = halt
			return br
		}
	}
	return br
}

func safeBuild(b TxBuilder, w *World, t *Tx) (built *Built, err error) {
	defer func() {
		if r := recover(); r != nil {
			err = fmt.Errorf("builder panic: %v", r)
		}
	}()
	if t.A == nil {
		t.A = Args{}
	}
	return b(w, t)
}

// ---- governance helper ---------------------------------------------------------------

type GovResult struct {
	ProposalID uint64
	Status     string
	Note       string
	Halt       *HaltInfo
}

// PassProposal submits msgs as a proposal from val/0 with the required deposit, lets all
// bonded validators vote yes, jumps past the voting period and returns the final status.
func (w *World) PassProposal(title string, msgs []sdk.Msg, dt time.Duration) *GovResult {
	res := &GovResult{}
	proposer := w.Key("val", 0)
	ctx := w.Ctx()
	params, err := w.App.GovKeeper.Params.Get(ctx)
	if err != nil {
		res.Note = err.Error()
		return res
	}
	deposit := sdk.NewCoins(params.MinDeposit...)
	if d, err := safeMinDeposit(w, msgs); err == nil && d != nil {
		deposit = d
	}
	sub, err := govv1.NewMsgSubmitProposal(msgs, deposit, proposer.Bech(), "", title, title, false)
	if err != nil {
		res.Note = "submit: " + err.Error()
		return res
	}
	raw, err := w.SignCosmos(proposer, 0, 10_000_000, sub)
	if err != nil {
		res.Note = "sign: " + err.Error()
		return res
	}
	resp, halt := w.RunBlock([][]byte{raw}, dt)
	if halt != nil {
		res.Halt = halt
		return res
	}
	tr := FromExec(resp.TxResults[0])
	if !tr.OK() {
		res.Note = "submit failed: " + tr.String()
		res.Status = "SUBMIT_FAILED"
		return res
	}
	ids := tr.EventAttr("submit_proposal", "proposal_id")
	if len(ids) == 0 {
		res.Note = "no proposal id"
		return res
	}
	fmt.Sscan(ids[0], &res.ProposalID)
	var votes [][]byte
	for i := range w.Vals {
		v := w.Vals[i].Op
		raw, err := w.SignCosmos(v, 0, 0, govv1.NewMsgVote(v.Acc(), res.ProposalID, govv1.OptionYes, ""))
		if err == nil {
			votes = append(votes, raw)
		}
	}
	if _, halt = w.RunBlock(votes, dt); halt != nil {
		res.Halt = halt
		return res
	}
	p, err := w.App.GovKeeper.Proposals.Get(w.Ctx(), res.ProposalID)
	if err != nil {
		res.Note = "proposal vanished: " + err.Error()
		return res
	}
	jump := dt
	if p.VotingEndTime != nil {
		jump = p.VotingEndTime.Sub(w.Now) + time.Second
	}
	if _, halt = w.RunBlock(nil, jump); halt != nil {
		res.Halt = halt
		return res
	}
	p, err = w.App.GovKeeper.Proposals.Get(w.Ctx(), res.ProposalID)
	if err != nil {
		res.Status = "GONE"
		return res
	}
	res.Status = strings.TrimPrefix(p.Status.String(), "PROPOSAL_STATUS_")
	if p.FailedReason != "" {
		res.Note = p.FailedReason
	}
	return res
}

func safeMinDeposit(w *World, msgs []sdk.Msg) (c sdk.Coins, err error) {
	defer func() {
		if r := recover(); r != nil {
			err = fmt.Errorf("%v", r)
		}
	}()
	var anys []*codectypes.Any
	for _, m := range msgs {
		a, e := codectypes.NewAnyWithValue(m)
		if e != nil {
			return nil, e
		}
		anys = append(anys, a)
	}
	_ = anys
	return nil, fmt.Errorf("unused")
}

var _ = sdkmath.ZeroInt
