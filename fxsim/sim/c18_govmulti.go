package sim

import (
	"fmt"
	"strings"
	"time"

	sdkmath "cosmossdk.io/math"
	sdk "github.com/cosmos/cosmos-sdk/types"
	authtypes "github.com/cosmos/cosmos-sdk/x/auth/types"
	banktypes "github.com/cosmos/cosmos-sdk/x/bank/types"
	govv1 "github.com/cosmos/cosmos-sdk/x/gov/types/v1"

	fxtypes "github.com/functionx/fx-core/v8/types"
	fxgov "github.com/functionx/fx-core/v8/x/gov"
	fxgovkeeper "github.com/functionx/fx-core/v8/x/gov/keeper"
)

// ---------------------------------------------------------------------------------------
// C18 (c), several proposals ending in the SAME block.
//
// The cache that isolates a failing proposal's messages must be per proposal: a proposal that
// fails late must leave nothing even when other proposals are executed before or after it by
// the same EndBlocker. A scenario is an ordered list of proposals (submission order = id
// order = execution order for equal end times), each of kind
//
//	L  contains a failing message AFTER messages that write   (fails late)
//	F  the same messages with the failing one first            (fails first)
//	P  only valid messages                                     (passes)
//
// Differential oracle on branches of one committed state: the scenario S, S' (every L replaced
// by its F form) and S'' (every failing proposal replaced by a message-less one) must end in
// identical stores except for the proposal records; every depositor gets the deposit back
// exactly once; the gov account changes by exactly what the PASSED proposals send.
// Through real blocks (submit all in one block, all votes in the next, one block past the
// latest voting end): none of the keys that the failing proposals' valid messages write (and
// the passing ones do not) may change in the block that ends them; deposits as above.

const c18GovDonation = 1_000_000_000 // afx the gov account holds beyond deposits in "c18send" scenarios

var c18GovAcc = authtypes.NewModuleAddress("gov")

// c18SpecMsgs is gspecMsgs plus the item kind "c18send:to=<key name>,amount=<afx>" (a
// MsgSend out of the gov account: fails when the account does not hold the amount).
func c18SpecMsgs(w *World, spec string, auth string) (out []sdk.Msg, err error) {
	defer func() {
		if rec := recover(); rec != nil {
			out, err = nil, fmt.Errorf("spec: %v", rec)
		}
	}()
	for _, item := range strings.Split(spec, ";") {
		item = strings.TrimSpace(item)
		if item == "" {
			continue
		}
		kind, a := gparseItem(item)
		if kind == "c18send" {
			from, e := sdk.AccAddressFromBech32(auth)
			if e != nil {
				return nil, e
			}
			to := a.Str("to")
			if !strings.Contains(to, "/") {
				return nil, fmt.Errorf("bad recipient")
			}
			amt := a.SdkInt("amount")
			if !amt.IsPositive() {
				return nil, fmt.Errorf("bad amount")
			}
			out = append(out, banktypes.NewMsgSend(from, w.KeyByName(to).Acc(), sdk.NewCoins(sdk.NewCoin(fxtypes.DefaultDenom, amt))))
			continue
		}
		ms, e := gspecMsgs(w, item, auth)
		if e != nil {
			return nil, e
		}
		out = append(out, ms...)
	}
	return out, nil
}

// c18SentBy sums the amounts of the c18send items of a spec.
func c18SentBy(spec string) sdkmath.Int {
	tot := sdkmath.ZeroInt()
	for _, item := range strings.Split(spec, ";") {
		kind, a := gparseItem(strings.TrimSpace(item))
		if kind == "c18send" {
			tot = tot.Add(a.SdkInt("amount"))
		}
	}
	return tot
}

type c18MultiRes struct {
	Post     Dump
	IDs      []uint64
	Status   []string
	Reason   []string
	Err      string
	UserBal0 []sdkmath.Int // FX of user/0..2 before the first submission (after the donation)
	UserBal1 []sdkmath.Int // ... after the block that ended the proposals
	GovBal0  sdkmath.Int
	GovBal1  sdkmath.Int
}

func c18Proposer(i int) string { return KeyName("user", i%3) }

// govMultiOnBranch: all proposals submitted at the same time, voted through, ended by ONE
// EndBlocker call after the latest voting end.
func (e C18Engine) govMultiOnBranch(r *Run, specs []string) *c18MultiRes {
	w := r.W
	res := &c18MultiRes{}
	ctx := w.branchCtx()
	bal := func(a sdk.AccAddress) sdkmath.Int {
		return w.App.BankKeeper.GetBalance(ctx, a, fxtypes.DefaultDenom).Amount
	}
	func() {
		defer func() {
			if rec := recover(); rec != nil {
				res.Err = fmt.Sprintf("panic: %v", rec)
			}
		}()
		for _, s := range specs {
			if strings.Contains(s, "c18send") {
				don := sdk.NewCoins(sdk.NewCoin(fxtypes.DefaultDenom, sdkmath.NewInt(c18GovDonation)))
				if err := w.App.BankKeeper.SendCoins(ctx, w.Key("user", 0).Acc(), c18GovAcc, don); err != nil {
					res.Err = "donation: " + err.Error()
					return
				}
				break
			}
		}
		for u := 0; u < 3; u++ {
			res.UserBal0 = append(res.UserBal0, bal(w.Key("user", u).Acc()))
		}
		res.GovBal0 = bal(c18GovAcc)
		params, err := w.App.GovKeeper.Params.Get(ctx)
		if err != nil {
			res.Err = err.Error()
			return
		}
		ms := fxgovkeeper.NewMsgServerImpl(w.App.GovKeeper)
		var end time.Time
		for i, spec := range specs {
			msgs, err := c18SpecMsgs(w, spec, w.GovAuthority())
			if err != nil {
				res.Err = "spec: " + err.Error()
				return
			}
			meta := ""
			if len(msgs) == 0 {
				meta = "c18 text"
			}
			sub, err := govv1.NewMsgSubmitProposal(msgs, sdk.NewCoins(params.MinDeposit...), w.KeyByName(c18Proposer(i)).Bech(), meta, "c18 proposal", "c18 proposal", false)
			if err != nil {
				res.Err = "submit: " + err.Error()
				return
			}
			sr, err := ms.SubmitProposal(ctx, sub)
			if err != nil {
				res.Err = "submit: " + err.Error()
				return
			}
			res.IDs = append(res.IDs, sr.ProposalId)
			for v := range w.Vals {
				if _, err := ms.Vote(ctx, govv1.NewMsgVote(w.Vals[v].Op.Acc(), sr.ProposalId, govv1.OptionYes, "")); err != nil {
					res.Err = "vote: " + err.Error()
					return
				}
			}
			p, err := w.App.GovKeeper.Proposals.Get(ctx, sr.ProposalId)
			if err != nil || p.VotingEndTime == nil {
				res.Err = "not in voting period"
				return
			}
			if p.VotingEndTime.After(end) {
				end = *p.VotingEndTime
			}
		}
		h := ctx.BlockHeader()
		h.Time = end.Add(time.Second)
		h.Height++
		if err := fxgov.EndBlocker(ctx.WithBlockHeader(h), w.App.GovKeeper); err != nil {
			res.Err = "end blocker: " + err.Error()
			return
		}
		for _, id := range res.IDs {
			p, err := w.App.GovKeeper.Proposals.Get(ctx, id)
			if err != nil {
				res.Err = "proposal gone: " + err.Error()
				return
			}
			res.Status = append(res.Status, strings.TrimPrefix(p.Status.String(), "PROPOSAL_STATUS_"))
			res.Reason = append(res.Reason, p.FailedReason)
		}
		for u := 0; u < 3; u++ {
			res.UserBal1 = append(res.UserBal1, bal(w.Key("user", u).Acc()))
		}
		res.GovBal1 = bal(c18GovAcc)
	}()
	res.Post = w.DumpCtx(ctx)
	return res
}

// ---------------------------------------------------------------------------------------
// scenario <-> step arguments

type c18Scenario struct {
	Kinds []string // L | F | P
	Specs []string // as submitted
	First []string // L: the same messages with the failing one first; otherwise == Specs[i]
	Valid []string // L, F: the messages without the failing one (passes); P: == Specs[i]
}

func c18ParseScenario(a Args) (*c18Scenario, bool) {
	n := a.Int("n")
	if n < 1 || n > 6 {
		return nil, false
	}
	sc := &c18Scenario{}
	for i := 0; i < n; i++ {
		k := a.Str(fmt.Sprintf("k%d", i))
		p := a.Str(fmt.Sprintf("p%d", i))
		if (k != "L" && k != "F" && k != "P") || p == "" {
			return nil, false
		}
		f, v := p, p
		if k == "L" {
			f = a.Str(fmt.Sprintf("f%d", i))
		}
		if k != "P" {
			v = a.Str(fmt.Sprintf("v%d", i))
		}
		if f == "" {
			return nil, false
		}
		sc.Kinds, sc.Specs, sc.First, sc.Valid = append(sc.Kinds, k), append(sc.Specs, p), append(sc.First, f), append(sc.Valid, v)
	}
	return sc, true
}

func (sc *c18Scenario) order() string { return strings.Join(sc.Kinds, "") }

// variants: S' (L -> F form), S” (failing -> message-less), all-valid (failing -> without the
// failing message), none (everything message-less).
func (sc *c18Scenario) variant(which string) []string {
	out := make([]string, len(sc.Specs))
	for i := range sc.Specs {
		out[i] = sc.Specs[i]
		switch which {
		case "first":
			out[i] = sc.First[i]
		case "textfail":
			if sc.Kinds[i] != "P" {
				out[i] = ""
			}
		case "allvalid":
			out[i] = sc.Valid[i]
		case "none":
			out[i] = ""
		}
	}
	return out
}

func c18IsAnyProposalKey(x DiffEntry, ids []uint64) bool {
	for _, id := range ids {
		if c18IsProposalKey(x, id) {
			return true
		}
	}
	return false
}

// ---------------------------------------------------------------------------------------
// generation

func (e C18Engine) c18GovItemsOf(r *Run, typ string) (valid, invalid []string) {
	if typ == "c18send" {
		cs := c18st(r)
		for i := 0; i < 5; i++ {
			cs.uniq++
			valid = append(valid, gitem("c18send", "to", KeyName("rcpt", cs.uniq), "amount", 1+r.Rng.IntN(100_000)))
		}
		cs.uniq++
		invalid = []string{gitem("c18send", "to", KeyName("rcpt", cs.uniq), "amount", "1000000000000000000000000000000000000")}
		return
	}
	return e.c18GovItems(r, typ)
}

func (e C18Engine) genGovMulti(r *Run, commit bool) (Step, bool) {
	types := append([]string{"c18send", "c18send"}, c18GovTypes...)
	typ := types[r.Rng.IntN(len(types))]
	valid, invalid := e.c18GovItemsOf(r, typ)
	seen := map[string]bool{}
	for _, v := range valid {
		seen[v] = true
	}
	for round := 0; round < 2; round++ { // a pool large enough for three proposals without reuse
		more, _ := e.c18GovItemsOf(r, typ)
		for _, v := range more {
			if !seen[v] {
				seen[v] = true
				valid = append(valid, v)
			}
		}
	}
	if commit && typ == "store" {
		// raw keys written for real stay in the world: keep them in a store nobody iterates
		var keep []string
		for _, v := range valid {
			if strings.Contains(v, "space=migrate") {
				keep = append(keep, v)
			}
		}
		valid = keep
	}
	if len(valid) < 2 || len(invalid) == 0 {
		return Step{}, false
	}
	r.Rng.Shuffle(len(valid), func(i, j int) { valid[i], valid[j] = valid[j], valid[i] })
	orders := []string{"LP", "PL", "LP", "LPF", "LFP", "PLF", "PFL", "FLP", "FPL", "LLP", "LPP", "LPL", "PLP"}
	order := orders[r.Rng.IntN(len(orders))]
	take := func(n int) []string {
		if n > len(valid) {
			n = len(valid)
		}
		out := valid[:n]
		valid = append(valid[n:], out...) // rotate: later proposals reuse items only when the pool is exhausted
		return append([]string{}, out...)
	}
	a := A("type", typ, "n", len(order))
	if commit {
		a["commit"] = "1"
	}
	for i, k := range order {
		bad := invalid[r.Rng.IntN(len(invalid))]
		its := take(1 + r.Rng.IntN(2))
		switch k {
		case 'P':
			a[fmt.Sprintf("p%d", i)] = strings.Join(its, ";")
		case 'L':
			pos := 1 + r.Rng.IntN(len(its)) // after at least one writing message
			late := append(append(append([]string{}, its[:pos]...), bad), its[pos:]...)
			a[fmt.Sprintf("p%d", i)] = strings.Join(late, ";")
			a[fmt.Sprintf("f%d", i)] = strings.Join(append([]string{bad}, its...), ";")
			a[fmt.Sprintf("v%d", i)] = strings.Join(its, ";")
		case 'F':
			a[fmt.Sprintf("p%d", i)] = strings.Join(append([]string{bad}, its...), ";")
			a[fmt.Sprintf("v%d", i)] = strings.Join(its, ";")
		}
		a[fmt.Sprintf("k%d", i)] = string(k)
	}
	return Step{Kind: "c18_govmulti", DtMs: 5000, A: a}, true
}

// ---------------------------------------------------------------------------------------
// apply

func (e C18Engine) applyGovMulti(r *Run, s *Step, o *Outcome) {
	cs := c18st(r)
	sc, ok := c18ParseScenario(s.A)
	if !ok {
		o.Note = "bad scenario"
		return
	}
	typ := s.A.Str("type")
	S := e.govMultiOnBranch(r, sc.Specs)
	if r.Verbose {
		fmt.Printf("      scenario %s %v -> %v err=%q\n", sc.order(), sc.Specs, S.Status, firstLine(S.Err))
	}
	r.Probe("c:multi:scenario")
	if S.Err != "" {
		r.Probe("c:multi:not-run")
		o.Note = "scenario not runnable: " + firstLine(S.Err)
		return
	}
	nFail := 0
	okStatus := true
	for i, k := range sc.Kinds {
		want := "FAILED"
		if k == "P" {
			want = "PASSED"
		} else {
			nFail++
		}
		if S.Status[i] != want {
			okStatus = false
			if k != "P" {
				cs.violate("proposal-marked-failed", "gov-multi/"+typ, "scenario %s: proposal %d [%s] contains a failing message but ended %s", sc.order(), S.IDs[i], c18TrimTo(sc.Specs[i], 120), S.Status[i])
			} else {
				r.Probe("c:multi:valid-proposal-did-not-pass")
			}
		}
	}
	if !okStatus {
		return
	}
	site := "gov-multi/" + typ
	// ---- the scenario against its fail-first and message-less forms
	for _, which := range []string{"first", "textfail"} {
		T := e.govMultiOnBranch(r, sc.variant(which))
		if T.Err != "" || len(T.IDs) != len(S.IDs) {
			r.Probe("c:multi:variant-not-run")
			continue
		}
		r.Nontrivial = true
		r.Probe("c:multi:compared")
		r.Probe("c:multi:compared:" + which + ":" + sc.order())
		r.Fault("c:multi:" + typ + ":" + sc.order())
		r.State("c-multi|" + typ + "|" + sc.order() + "|" + which)
		d := FilterDiff(Diff(T.Post, S.Post), func(x DiffEntry) bool { return c18IsAnyProposalKey(x, S.IDs) })
		if len(d) > 0 {
			cs.violate("fail-late-equals-fail-first", site+"/"+c18KeyClass(d[0]), "proposals %v ending in one block (%s): the block's effect differs from the same block with the failing proposals %s:%s",
				sc.Specs, sc.order(), map[string]string{"first": "failing at their first message", "textfail": "replaced by message-less proposals"}[which], c18DiffText(d, 5))
		}
	}
	// ---- deposits exactly once, the gov account pays only what passed proposals send
	e.judgeMultiBalances(r, sc, S.Status, S.UserBal0, S.UserBal1, S.GovBal0, S.GovBal1, sdkmath.ZeroInt(), site, "")
	if s.A.Str("commit") == "1" {
		e.commitGovMulti(r, s, sc, o)
	}
}

// judgeMultiBalances: users' balances return to what they were (+refund when the deposit was
// already taken at the "before" point), the gov account loses deposits held and passed sends.
func (e C18Engine) judgeMultiBalances(r *Run, sc *c18Scenario, status []string, u0, u1 []sdkmath.Int, g0, g1 sdkmath.Int, depositHeld sdkmath.Int, site, where string) {
	cs := c18st(r)
	if len(u0) != 3 || len(u1) != 3 {
		return
	}
	nOf := make([]int64, 3)
	for i := range sc.Specs {
		nOf[i%3]++
	}
	for u := 0; u < 3; u++ {
		want := u0[u]
		if depositHeld.IsPositive() {
			want = want.Add(depositHeld.MulRaw(nOf[u]))
		}
		if !u1[u].Equal(want) {
			cs.violate("deposits-handled", site, "%sscenario %s: depositor user/%d holds %s after the proposals ended, expected %s (every deposit back exactly once)", where, sc.order(), u, u1[u], want)
			return
		}
	}
	sent := sdkmath.ZeroInt()
	for i, st := range status {
		if st == "PASSED" {
			sent = sent.Add(c18SentBy(sc.Specs[i]))
		}
	}
	want := g0.Sub(sent).Sub(depositHeld.MulRaw(int64(len(sc.Specs))))
	if !g1.Equal(want) {
		cs.violate("deposits-handled", site+"/gov-account", "%sscenario %s: the gov account holds %s after the proposals ended, expected %s (deposits out once, %s sent by passed proposals)", where, sc.order(), g1, want, sent)
	}
}

// commitGovMulti: the scenario through real blocks.
func (e C18Engine) commitGovMulti(r *Run, s *Step, sc *c18Scenario, o *Outcome) {
	cs := c18st(r)
	w := r.W
	typ := s.A.Str("type")
	site := "committed/gov-multi/" + typ
	// what do the failing proposals' valid messages write that the passing ones do not?
	textfail := e.govMultiOnBranch(r, sc.variant("textfail"))
	allvalid := e.govMultiOnBranch(r, sc.variant("allvalid"))
	none := e.govMultiOnBranch(r, sc.variant("none"))
	t0 := w.Now
	defer func() { r.SimTimeMs += w.Now.Sub(t0).Milliseconds() }()
	params, err := w.App.GovKeeper.Params.Get(w.Ctx())
	if err != nil {
		return
	}
	var raws [][]byte
	seq := map[string]uint64{}
	for _, sp := range sc.Specs {
		if strings.Contains(sp, "c18send") {
			raw, err := w.SignCosmos(w.Key("user", 0), seq["user/0"], 0, banktypes.NewMsgSend(w.Key("user", 0).Acc(), c18GovAcc, sdk.NewCoins(sdk.NewCoin(fxtypes.DefaultDenom, sdkmath.NewInt(c18GovDonation)))))
			if err == nil {
				raws = append(raws, raw)
				seq["user/0"]++
			}
			break
		}
	}
	nDon := len(raws)
	for i, sp := range sc.Specs {
		msgs, err := c18SpecMsgs(w, sp, w.GovAuthority())
		if err != nil || len(msgs) == 0 {
			o.Note = "spec"
			return
		}
		pn := c18Proposer(i)
		sub, err := govv1.NewMsgSubmitProposal(msgs, sdk.NewCoins(params.MinDeposit...), w.KeyByName(pn).Bech(), "", "c18 proposal", "c18 proposal", false)
		if err != nil {
			o.Note = "submit: " + err.Error()
			return
		}
		raw, err := w.SignCosmos(w.KeyByName(pn), seq[pn], 10_000_000, sub)
		if err != nil {
			return
		}
		seq[pn]++
		raws = append(raws, raw)
	}
	resp, halt := w.RunBlock(raws, 5*time.Second)
	if halt != nil {
		o.Halt = halt
		return
	}
	var ids []uint64
	for i := nDon; i < len(resp.TxResults); i++ {
		tr := FromExec(resp.TxResults[i])
		if !tr.OK() {
			o.Note = "submit failed: " + tr.String()
			r.Probe("commit:c:multi:submit-refused")
			return // whatever was submitted ends on its own later; nothing to judge
		}
		var id uint64
		if l := tr.EventAttr("submit_proposal", "proposal_id"); len(l) > 0 {
			fmt.Sscan(l[0], &id)
		}
		ids = append(ids, id)
	}
	var votes [][]byte
	for v := range w.Vals {
		k := w.Vals[v].Op
		for j, id := range ids {
			if raw, err := w.SignCosmos(k, uint64(j), 0, govv1.NewMsgVote(k.Acc(), id, govv1.OptionYes, "")); err == nil {
				votes = append(votes, raw)
			}
		}
	}
	if _, halt = w.RunBlock(votes, 5*time.Second); halt != nil {
		o.Halt = halt
		return
	}
	var end time.Time
	for _, id := range ids {
		p, err := w.App.GovKeeper.Proposals.Get(w.Ctx(), id)
		if err != nil || p.VotingEndTime == nil {
			o.Note = "not voting"
			return
		}
		if p.VotingEndTime.After(end) {
			end = *p.VotingEndTime
		}
	}
	pre := w.Dump()
	ctx := w.Ctx()
	bal := func(c sdk.Context, a sdk.AccAddress) sdkmath.Int {
		return w.App.BankKeeper.GetBalance(c, a, fxtypes.DefaultDenom).Amount
	}
	var u0, u1 []sdkmath.Int
	for u := 0; u < 3; u++ {
		u0 = append(u0, bal(ctx, w.Key("user", u).Acc()))
	}
	g0 := bal(ctx, c18GovAcc)
	if _, halt = w.RunBlock(nil, end.Sub(w.Now)+time.Second); halt != nil {
		o.Halt = halt
		return
	}
	post := w.Dump()
	ctx = w.Ctx()
	for u := 0; u < 3; u++ {
		u1 = append(u1, bal(ctx, w.Key("user", u).Acc()))
	}
	g1 := bal(ctx, c18GovAcc)
	var status []string
	for _, id := range ids {
		p, err := w.App.GovKeeper.Proposals.Get(ctx, id)
		if err != nil {
			o.Note = "proposal gone"
			return
		}
		status = append(status, strings.TrimPrefix(p.Status.String(), "PROPOSAL_STATUS_"))
	}
	o.Note = strings.Join(status, ",")
	r.Probe("commit:c:multi:" + sc.order())
	r.Fault("c:multi:committed:" + typ)
	r.State("commit-c-multi|" + typ + "|" + sc.order())
	for i, k := range sc.Kinds {
		if k != "P" && status[i] != "FAILED" {
			cs.violate("proposal-marked-failed", site, "committed history: proposal %d [%s] contains a failing message but ended %s", ids[i], c18TrimTo(sc.Specs[i], 120), status[i])
			return
		}
		if k == "P" && status[i] != "PASSED" {
			r.Probe("commit:c:multi:valid-proposal-did-not-pass")
			return
		}
	}
	dep := sdkmath.ZeroInt()
	for _, c := range params.MinDeposit {
		if c.Denom == fxtypes.DefaultDenom {
			dep = c.Amount
		}
	}
	e.judgeMultiBalances(r, sc, status, u0, u1, g0, g1, dep, site, "committed history, ")
	if textfail.Err != "" || allvalid.Err != "" || none.Err != "" {
		r.Probe("commit:c:multi:no-write-set")
		return
	}
	for _, st := range allvalid.Status {
		if st != "PASSED" {
			r.Probe("commit:c:multi:no-write-set")
			return
		}
	}
	skip := func(x DiffEntry) bool { return x.Store == "gov" }
	wP := c18DiffKeySet(FilterDiff(Diff(none.Post, textfail.Post), skip))
	r.Probe("commit:c:multi:judged")
	var left []DiffEntry
	for _, x := range FilterDiff(Diff(textfail.Post, allvalid.Post), skip) {
		if wP[x.Store+"\x00"+string(x.Key)] {
			continue
		}
		a, aok := pre[x.Store][string(x.Key)]
		b, bok := post[x.Store][string(x.Key)]
		if aok != bok || string(a) != string(b) {
			left = append(left, DiffEntry{Store: x.Store, Key: x.Key, A: a, B: b})
		}
	}
	if len(left) > 0 {
		cs.violate("designated-outcome-only", site+"/"+c18KeyClass(left[0]), "committed history: proposals %v (%s, statuses %v) ended in one block; keys that only the FAILED proposals' messages write changed in that block:%s", sc.Specs, sc.order(), status, c18DiffText(left, 5))
	}
}
