package sim

import (
	"bufio"
	"encoding/json"
	"flag"
	"fmt"
	"os"
	"os/exec"
	"path/filepath"
	"regexp"
	"sort"
	"strconv"
	"strings"
	"sync"
	"time"
)

func EngineFor(prop string) Engine {
	if f, ok := extraEngines[prop]; ok {
		return f()
	}
	switch prop {
	case "C01", "C02", "C03", "C04", "C05", "C06", "C07", "C12", "C13":
		return BridgeEngine{}
	}
	return nil
}

var extraEngines = map[string]func() Engine{}

func RegisterEngine(props []string, f func() Engine) {
	for _, p := range props {
		extraEngines[p] = f
	}
}

func splitmix(x uint64) uint64 {
	x += 0x9e3779b97f4a7c15
	z := x
	z = (z ^ (z >> 30)) * 0xbf58476d1ce4e5b9
	z = (z ^ (z >> 27)) * 0x94d049bb133111eb
	return z ^ (z >> 31)
}

// RunSeed derives the seed of run #i of a check from the check's base seed.
func RunSeed(base uint64, prop string, i uint64) uint64 {
	h := base
	for _, c := range prop {
		h = splitmix(h ^ uint64(c))
	}
	return splitmix(h+i) >> 1
}

var verifRoot = func() string {
	if v := os.Getenv("VERIF_ROOT"); v != "" {
		return v
	}
	return "/verif"
}()

func Main(args []string) int {
	if rc, ok := c17Main(args); ok { // C17 (replica agreement) has its own master: c17_main.go
		return rc
	}
	switch args[0] {
	case "worker":
		return workerMain(args[1:])
	case "check":
		return checkMain(args[1:])
	case "replay":
		return replayMain(args[1:])
	case "minimise":
		return minimiseMain(args[1:])
	}
	fmt.Fprintln(os.Stderr, "unknown command", args[0])
	return 2
}

// ---------------------------------------------------------------------------------------
// worker: runs seeds base+offset, base+offset+stride, ... until the budget ends.

func workerMain(args []string) int {
	fs := flag.NewFlagSet("worker", flag.ExitOnError)
	prop := fs.String("prop", "", "")
	tier := fs.String("tier", "quick", "")
	base := fs.Uint64("base", 1, "")
	offset := fs.Uint64("offset", 0, "")
	stride := fs.Uint64("stride", 1, "")
	budget := fs.Float64("budget", 60, "seconds")
	maxRuns := fs.Int("max-runs", 1<<30, "")
	outDir := fs.String("out", "", "")
	fs.Parse(args)
	eng := EngineFor(*prop)
	if eng == nil {
		fmt.Fprintln(os.Stderr, "no engine for", *prop)
		return 2
	}
	start := time.Now()
	out := bufio.NewWriter(os.Stdout)
	defer out.Flush()
	var watch sync.Mutex
	var runStart time.Time
	var curSeed uint64
	go func() { // watchdog: a single run must never hang the check
		for {
			time.Sleep(5 * time.Second)
			watch.Lock()
			rs, cs := runStart, curSeed
			watch.Unlock()
			if !rs.IsZero() && time.Since(rs) > 240*time.Second {
				fmt.Fprintf(os.Stderr, "WATCHDOG seed=%d\n", cs)
				os.Exit(3)
			}
		}
	}()
	for i := uint64(0); int(i) < *maxRuns; i++ {
		if time.Since(start).Seconds() > *budget {
			break
		}
		idx := *offset + i**stride
		seed := RunSeed(*base, *prop, idx)
		watch.Lock()
		runStart, curSeed = time.Now(), seed
		watch.Unlock()
		fmt.Fprintf(out, "START %d\n", seed)
		out.Flush()
		r, res := Execute(eng, *prop, seed, *tier)
		if len(res.Violations) > 0 && *outDir != "" {
			p := filepath.Join(*outDir, fmt.Sprintf("raw-%s-%d.json", *prop, seed))
			v := res.Violations[0]
			if err := WriteJSON(p, r.ReplayFile(&v)); err == nil {
				res.ReplayPath = p
			}
		}
		if i < 2 && *offset == 0 {
			// setup prefix + the tail of the history (the property-specific part)
			if len(r.Steps) > 36 {
				res.Sample = append(TraceLines(r.Steps[:6], 6), "… ("+fmt.Sprint(len(r.Steps)-36)+" steps omitted)")
				res.Sample = append(res.Sample, TraceLines(r.Steps[len(r.Steps)-30:], 30)...)
			} else {
				res.Sample = TraceLines(r.Steps, 40)
			}
		}
		bz, _ := json.Marshal(res)
		fmt.Fprintf(out, "RESULT %s\n", bz)
		out.Flush()
	}
	return 0
}

// ---------------------------------------------------------------------------------------
// known findings

type KnownFinding struct {
	Property  string `json:"property"`
	Invariant string `json:"invariant"`
	Site      string `json:"site"`
	What      string `json:"what"`
}

func loadKnown() []KnownFinding {
	var out []KnownFinding
	bz, err := os.ReadFile(filepath.Join(verifRoot, "known_findings.jsonl"))
	if err != nil {
		return nil
	}
	for _, l := range strings.Split(string(bz), "\n") {
		l = strings.TrimSpace(l)
		if l == "" || !strings.HasPrefix(l, "{") {
			continue // "fixed: ..." lines suppress nothing
		}
		var k KnownFinding
		if json.Unmarshal([]byte(l), &k) == nil {
			out = append(out, k)
		}
	}
	return out
}

func isKnown(known []KnownFinding, prop string, v Violation) *KnownFinding {
	for i := range known {
		k := &known[i]
		if k.Property == prop && k.Invariant == v.Invariant && k.Site == v.Site {
			return k
		}
	}
	return nil
}

// ---------------------------------------------------------------------------------------
// check: master

type tierCfg struct {
	budget  float64
	workers int
}

var sanitize = regexp.MustCompile(`[^A-Za-z0-9_.-]+`)

type levelInfo struct {
	Level string
	Rule  string
}

var levels = map[string]levelInfo{}

func checkMain(args []string) int {
	fs := flag.NewFlagSet("check", flag.ExitOnError)
	prop := fs.String("prop", "", "")
	tier := fs.String("tier", "quick", "")
	fs.Parse(args)
	if t := os.Getenv("VERIF_TIER"); t != "" && (t == "quick" || t == "thorough") {
		*tier = t
	}
	eng := EngineFor(*prop)
	if eng == nil {
		fmt.Fprintln(os.Stderr, "no engine for", *prop)
		return 2
	}
	base := uint64(20261001)
	if s := os.Getenv("VERIF_SEED"); s != "" {
		if n, err := strconv.ParseUint(s, 10, 64); err == nil {
			base = n
		}
	}
	budget := 100.0
	if *tier == "thorough" {
		budget = 1200
	}
	if b := os.Getenv("VERIF_BUDGET_S"); b != "" {
		if f, err := strconv.ParseFloat(b, 64); err == nil {
			budget = f
		}
	}
	workers := 16
	if wv := os.Getenv("VERIF_WORKERS"); wv != "" {
		if n, err := strconv.Atoi(wv); err == nil && n > 0 {
			workers = n
		}
	}
	maxRuns := 1 << 30
	if mv := os.Getenv("VERIF_MAX_RUNS"); mv != "" {
		if n, err := strconv.Atoi(mv); err == nil && n > 0 {
			maxRuns = n
		}
	}
	t0 := time.Now()
	work := filepath.Join(verifRoot, ".work", *prop)
	os.RemoveAll(work)
	os.MkdirAll(work, 0o755)
	defer os.RemoveAll(work)
	self, _ := os.Executable()

	agg := newAggregate(*prop)
	var mu sync.Mutex
	var wg sync.WaitGroup
	infra := ""
	for i := 0; i < workers; i++ {
		wg.Add(1)
		go func(i int) {
			defer wg.Done()
			cmd := exec.Command(self, "worker", "-prop", *prop, "-tier", *tier, "-base", fmt.Sprint(base), "-offset", fmt.Sprint(i),
				"-stride", fmt.Sprint(workers), "-budget", fmt.Sprint(budget), "-out", work, "-max-runs", fmt.Sprint((maxRuns+workers-1)/workers))
			cmd.Env = append(os.Environ(), "GOMAXPROCS=2")
			stdout, _ := cmd.StdoutPipe()
			var stderr strings.Builder
			cmd.Stderr = &stderr
			if err := cmd.Start(); err != nil {
				mu.Lock()
				infra = "cannot start worker: " + err.Error()
				mu.Unlock()
				return
			}
			sc := bufio.NewScanner(stdout)
			sc.Buffer(make([]byte, 1<<20), 1<<28)
			var lastStart uint64
			started := false
			for sc.Scan() {
				l := sc.Text()
				if strings.HasPrefix(l, "START ") {
					lastStart, _ = strconv.ParseUint(l[6:], 10, 64)
					started = true
					continue
				}
				if strings.HasPrefix(l, "RESULT ") {
					var res RunResult
					if err := json.Unmarshal([]byte(l[7:]), &res); err == nil {
						mu.Lock()
						agg.add(&res)
						mu.Unlock()
					}
					started = false
				}
			}
			err := cmd.Wait()
			if err != nil {
				mu.Lock()
				if started {
					agg.crashed = append(agg.crashed, crashInfo{Seed: lastStart, Stderr: tail(stderr.String(), 4000)})
				} else if infra == "" {
					infra = "worker failed: " + err.Error() + " " + tail(stderr.String(), 500)
				}
				mu.Unlock()
			}
		}(i)
	}
	wg.Wait()
	if infra != "" {
		fmt.Println("INFRA:", infra)
		return 2
	}
	if agg.evals == 0 {
		fmt.Println("INFRA: no run finished")
		return 2
	}

	// crashed workers: reproduce in a fresh process; a reproducible hard crash during block
	// processing is a halt (C07), anything else is infrastructure trouble.
	for _, c := range agg.crashed {
		cmd := exec.Command(self, "run", "-prop", *prop, "-seed", fmt.Sprint(c.Seed))
		outb, err := cmd.CombinedOutput()
		if err != nil {
			fmt.Printf("INFRA: worker crashed on seed %d and the crash reproduces:\n%s\n", c.Seed, tail(string(outb), 3000))
		} else {
			fmt.Printf("INFRA: worker crashed on seed %d (not reproducible):\n%s\n", c.Seed, c.Stderr)
		}
		return 2
	}

	// violations: minimise the first of each distinct id, classify
	known := loadKnown()
	exit := 0
	outDir := filepath.Join(verifRoot, "out", "replays", *prop)
	os.MkdirAll(outDir, 0o755)
	minBudget := 45 * time.Second
	if *tier == "thorough" {
		minBudget = 240 * time.Second
	}
	knownHit := map[string]int{}
	var ids []string
	for id := range agg.firstViolation {
		ids = append(ids, id)
	}
	sort.Strings(ids)
	nUnknown := 0
	var kids []string
	for id := range agg.knownCount {
		kids = append(kids, id)
	}
	sort.Strings(kids)
	for _, id := range kids {
		fv := agg.knownFirst[id]
		k := isKnown(known, *prop, fv.V)
		what := ""
		if k != nil {
			what = k.What
		}
		knownHit[id] = agg.knownCount[id]
		fmt.Printf("KNOWN-FINDING: property=%s %s — %s (hit in %d runs, e.g. seed %d)\n", *prop, id, what, agg.knownCount[id], fv.Seed)
	}
	for _, id := range ids {
		fv := agg.firstViolation[id]
		if k := isKnown(known, *prop, fv.V); k != nil {
			knownHit[id] = agg.violationCount[id]
			fmt.Printf("KNOWN-FINDING: property=%s %s — %s (hit in %d runs, e.g. seed %d)\n", *prop, id, k.What, agg.violationCount[id], fv.Seed)
			continue
		}
		nUnknown++
		path := fv.Path
		final := filepath.Join(outDir, sanitize.ReplaceAllString(id, "_")+fmt.Sprintf("-%d.json", fv.Seed))
		if rf, err := ReadReplay(path); err == nil {
			if nUnknown <= 3 {
				rf = Minimise(eng, rf, minBudget)
			}
			WriteJSON(final, rf)
			fmt.Printf("violation %s: %s (seed %d, %d steps after minimisation)\n", id, rf.Violation.Message, fv.Seed, len(rf.Steps))
		} else {
			final = path
		}
		fmt.Printf("VIOLATION property=%s replay=%s\n", *prop, final)
		exit = 1
	}
	agg.writeEvidence(*prop, *tier, base, time.Since(t0).Seconds(), budget, workers, knownHit, nUnknown)
	fmt.Printf("%s %s: %d runs, %d distinct non-trivial shapes, %d violations (%d known ids), %.0fs\n", *prop, *tier, agg.evals, len(agg.shapes), nUnknown, len(knownHit), time.Since(t0).Seconds())
	return exit
}

func tail(s string, n int) string {
	if len(s) > n {
		return s[len(s)-n:]
	}
	return s
}

type crashInfo struct {
	Seed   uint64
	Stderr string
}

type firstV struct {
	V    Violation
	Seed uint64
	Path string
}

type aggregate struct {
	prop           string
	evals          int
	steps          int
	shapes         map[string]struct{}
	states         map[string]struct{}
	probes         map[string]int
	faults         map[string]int
	simMs          int64
	extBlocks      int64
	foreign        map[string]int
	seeds          []uint64
	samples        [][]string
	firstViolation map[string]firstV
	violationCount map[string]int
	knownCount     map[string]int
	knownFirst     map[string]firstV
	crashed        []crashInfo
}

func newAggregate(prop string) *aggregate {
	return &aggregate{prop: prop, shapes: map[string]struct{}{}, states: map[string]struct{}{}, probes: map[string]int{}, faults: map[string]int{},
		foreign: map[string]int{}, firstViolation: map[string]firstV{}, violationCount: map[string]int{}, knownCount: map[string]int{}, knownFirst: map[string]firstV{}}
}

func (a *aggregate) add(r *RunResult) {
	a.evals++
	a.steps += r.Steps
	if r.Nontrivial {
		a.shapes[r.Shape] = struct{}{}
	}
	for _, s := range r.States {
		a.states[s] = struct{}{}
	}
	for k, v := range r.Probes {
		a.probes[k] += v
	}
	for k, v := range r.Faults {
		a.faults[k] += v
	}
	a.simMs += r.SimTimeMs
	a.extBlocks += r.ExtBlocks
	if r.Foreign != "" {
		a.foreign[r.Foreign]++
	}
	if len(a.seeds) < 32 {
		a.seeds = append(a.seeds, r.Seed)
	}
	if len(r.Sample) > 0 && len(a.samples) < 2 {
		a.samples = append(a.samples, r.Sample)
	}
	for _, v := range r.Known {
		a.knownCount[v.ID()]++
		if _, ok := a.knownFirst[v.ID()]; !ok {
			a.knownFirst[v.ID()] = firstV{V: v, Seed: r.Seed}
		}
	}
	for _, v := range r.Violations {
		id := v.ID()
		a.violationCount[id]++
		if cur, ok := a.firstViolation[id]; !ok || r.Seed < cur.Seed {
			if r.ReplayPath != "" {
				a.firstViolation[id] = firstV{V: v, Seed: r.Seed, Path: r.ReplayPath}
			}
		}
		break // only the first violation of a run has a replay
	}
}

func (a *aggregate) writeEvidence(prop, tier string, seed uint64, wall, budget float64, workers int, knownHit map[string]int, unknown int) {
	li := levels[prop]
	if li.Level == "" {
		li.Level = "exploration"
	}
	samples := []interface{}{}
	for _, s := range a.samples {
		samples = append(samples, s)
	}
	if len(samples) == 0 {
		samples = append(samples, "no sample captured")
	}
	cov := map[string]interface{}{
		"evaluations":         a.evals,
		"distinct_nontrivial": len(a.shapes),
		"rule":                li.Rule,
		"samples":             samples,
		"steps_total":         a.steps,
		"runs_per_hour":       int(float64(a.evals) / wall * 3600),
		"seeds_first":         a.seeds,
		"simulated_time_s":    a.simMs / 1000,
		"external_blocks":     a.extBlocks,
		"faults_fired":        a.faults,
		"probes":              a.probes,
		"distinct_states":     len(a.states),
		"aborted_foreign":     a.foreign,
		"known_findings_hit":  knownHit,
		"workers":             workers,
		"search_budget_s":     budget,
		"real_components":     realComponents,
		"stub_components":     stubComponents,
	}
	ev := map[string]interface{}{
		"property_id": prop, "tier": tier, "seed": seed, "level": li.Level, "coverage": cov,
		"assumptions": assumptions, "wall_s": wall, "violations": unknown,
	}
	os.MkdirAll(filepath.Join(verifRoot, "evidence"), 0o755)
	WriteJSON(filepath.Join(verifRoot, "evidence", prop+".json"), ev)
}

var realComponents = []string{"app.App (baseapp, tx decoding, ante handlers, msg router)", "x/crosschain (8 chain modules)", "x/erc20", "x/evm + ethermint + go-ethereum fork EVM", "staking and crosschain precompiles", "x/staking, x/distribution, x/slashing, x/bank, x/gov (fx wrappers + SDK)", "x/migrate", "x/ibc middleware + ibc-go core/transfer/09-localhost", "store: rootmulti + IAVL over MemDB"}
var stubComponents = []string{"CometBFT consensus/mempool/p2p (seeded scheduler + transport)", "external chains and bridge contracts (extchain Go model of FxBridgeLogic.sol)", "oracle / relayer / user processes (actors)", "IBC counter-party (loop-back over 09-localhost)", "disk (MemDB)"}
var assumptions = []string{"sampling: a clean batch is evidence, not proof", "hooks under build tag verif only add tx-decoding support (MsgEthereumTx signer, MsgClaim/MsgConfirm Any unpacking)", "fees are zero (feemarket NoBaseFee) so balance deltas are exact"}

// ---------------------------------------------------------------------------------------
// replay / minimise commands

func replayMain(args []string) int {
	fs := flag.NewFlagSet("replay", flag.ExitOnError)
	prop := fs.String("prop", "", "")
	fs.Parse(args)
	if fs.NArg() < 1 {
		fmt.Println("usage: replay [-prop P] file")
		return 2
	}
	rf, err := ReadReplay(fs.Arg(0))
	if err != nil {
		fmt.Println("INFRA:", err)
		return 2
	}
	if *prop != "" && *prop != rf.Property {
		fmt.Println("INFRA: replay file is for", rf.Property)
		return 2
	}
	eng := EngineFor(rf.Property)
	_, res := ExecuteReplay(eng, rf)
	if len(res.Violations) > 0 {
		v := res.Violations[0]
		fmt.Printf("reproduced: %s at step %d: %s\n", v.ID(), v.Step, v.Message)
		if k := isKnown(loadKnown(), rf.Property, v); k != nil {
			fmt.Printf("KNOWN-FINDING: property=%s %s — %s\n", rf.Property, v.ID(), k.What)
			return 0
		}
		fmt.Printf("VIOLATION property=%s replay=%s\n", rf.Property, fs.Arg(0))
		return 1
	}
	if res.Foreign != "" {
		fmt.Println("run aborted:", res.Foreign)
	}
	fmt.Println("no violation on replay")
	return 0
}

func minimiseMain(args []string) int {
	if len(args) < 2 {
		fmt.Println("usage: minimise in out")
		return 2
	}
	rf, err := ReadReplay(args[0])
	if err != nil {
		fmt.Println(err)
		return 2
	}
	out := Minimise(EngineFor(rf.Property), rf, 5*time.Minute)
	WriteJSON(args[1], out)
	fmt.Printf("%d -> %d steps\n", len(rf.Steps), len(out.Steps))
	return 0
}
