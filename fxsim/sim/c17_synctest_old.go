//go:build !go1.25

package sim

const c17SynctestAvailable = false

func c17RunInBubble(f func() *C17ReplicaResult) {}
