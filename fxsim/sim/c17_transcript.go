package sim

// C17 — block execution is deterministic.
//
// A *transcript* is the complete raw ABCI history of one simulated run of any engine: the
// InitChain request (genesis bytes, consensus params, chain id, initial height, genesis time)
// and the exact sequence of RequestFinalizeBlock messages, each with the *reference* result
// of the recording run (canonical ResponseFinalizeBlock: app hash, per-tx code / codespace /
// data / gas wanted / gas used / events, block events, validator updates, consensus param
// updates; `log` and `info` are dropped because ABCI defines them as non-deterministic).
// Transcripts are files; replicas (c17_replica.go) are separate OS processes.

import (
	"bytes"
	"crypto/sha256"
	"encoding/hex"
	"encoding/json"
	"fmt"
	"os"
	"sort"
	"strings"

	storetypes "cosmossdk.io/store/types"
	abci "github.com/cometbft/cometbft/abci/types"
	dbm "github.com/cosmos/cosmos-db"

	"github.com/functionx/fx-core/v8/app"
)

type C17Block struct {
	Req []byte `json:"req"`           // proto RequestFinalizeBlock
	Ref []byte `json:"ref,omitempty"` // proto canonical ResponseFinalizeBlock; empty: the reference halted here
}

type C17Transcript struct {
	Engine   string            `json:"engine"`
	Prop     string            `json:"prop"`
	Seed     uint64            `json:"seed"`
	Tier     string            `json:"tier"`
	NodeOpts map[string]string `json:"node_opts,omitempty"` // node options of the recording run
	InitReq  []byte            `json:"init_req"`            // proto RequestInitChain (genesis, consensus params, time, chain id)
	Blocks   []C17Block        `json:"blocks"`

	// summary (filled by the recorder)
	Hash        string        `json:"hash"` // sha256 over genesis and all block tx bytes
	Txs         int           `json:"txs"`
	TxsOK       int           `json:"txs_ok"`
	BlockEvents int           `json:"block_events"`
	TxEvents    int           `json:"tx_events"`
	ValUpdates  int           `json:"validator_updates"`
	Halted      bool          `json:"halted,omitempty"`
	Steps       int           `json:"steps"`
	Perturbed   *C17Perturbed `json:"perturbed,omitempty"`
}

// C17Perturbed: the recording run wrote committed state outside a block (harness leak).
type C17Perturbed struct {
	Block       int      `json:"block"` // first block that started from perturbed state
	Height      int64    `json:"height"`
	Stores      []string `json:"stores"` // stores whose working tree differed from the last commit
	DirtyBlocks int      `json:"dirty_blocks"`
	PureBlocks  int      `json:"pure_blocks"` // blocks whose reference is the pure replay in the recorder process
}

// c17Canonical strips what ABCI declares non-deterministic (log, info) and the node-local
// `index` flag of event attributes.
func c17Canonical(resp *abci.ResponseFinalizeBlock) *abci.ResponseFinalizeBlock {
	out := &abci.ResponseFinalizeBlock{
		Events:                c17Events(resp.Events),
		ValidatorUpdates:      resp.ValidatorUpdates,
		ConsensusParamUpdates: resp.ConsensusParamUpdates,
		AppHash:               resp.AppHash,
	}
	for _, t := range resp.TxResults {
		if t == nil {
			out.TxResults = append(out.TxResults, &abci.ExecTxResult{})
			continue
		}
		out.TxResults = append(out.TxResults, &abci.ExecTxResult{
			Code: t.Code, Data: t.Data, GasWanted: t.GasWanted, GasUsed: t.GasUsed,
			Events: c17Events(t.Events), Codespace: t.Codespace,
		})
	}
	return out
}

func c17Events(evs []abci.Event) []abci.Event {
	out := make([]abci.Event, 0, len(evs))
	for _, e := range evs {
		ne := abci.Event{Type: e.Type}
		for _, a := range e.Attributes {
			ne.Attributes = append(ne.Attributes, abci.EventAttribute{Key: a.Key, Value: a.Value})
		}
		out = append(out, ne)
	}
	return out
}

// c17DirtyStores lists the IAVL stores whose working tree differs from the last committed
// version, i.e. that were written outside FinalizeBlock/Commit (by the harness through an
// uncached context). Called by World.RunBlock before FinalizeBlock while recording.
func (w *World) c17DirtyStores() []string {
	if w.Height == 0 || w.App == nil {
		return nil
	}
	var out []string
	cms := w.App.CommitMultiStore()
	keys := w.App.GetKVStoreKey()
	for _, n := range w.StoreNames() {
		st := cms.GetCommitKVStore(keys[n])
		if st == nil || st.GetStoreType() != storetypes.StoreTypeIAVL || st.LastCommitID().Version == 0 {
			continue
		}
		if !bytes.Equal(st.WorkingHash(), st.LastCommitID().Hash) {
			out = append(out, n)
		}
	}
	return out
}

// c17FromWorld turns the recording of a finished run into a transcript.
func c17FromWorld(w *World, engine, prop string, seed uint64, tier string, steps int) (*C17Transcript, error) {
	if w == nil || w.Transcript == nil || len(w.Transcript.Genesis) == 0 {
		return nil, fmt.Errorf("world recorded no transcript")
	}
	tr := w.Transcript
	cp := app.CustomGenesisConsensusParams().ToProto() // exactly what World.InitChain sends
	ireq := &abci.RequestInitChain{ChainId: ChainID, ConsensusParams: &cp, AppStateBytes: tr.Genesis, InitialHeight: 1, Time: GenesisTime}
	ibz, err := ireq.Marshal()
	if err != nil {
		return nil, err
	}
	t := &C17Transcript{Engine: engine, Prop: prop, Seed: seed, Tier: tier, NodeOpts: tr.Cfg.NodeOpts, InitReq: ibz, Steps: steps}

	// Was committed state written outside a block (harness leak)? Then the recording run is
	// not an execution of this block sequence from that block on: its results cannot be the
	// reference. The history stays (it is a valid block sequence); from the first perturbed
	// block on the reference comes from a pure ABCI replay done right here.
	first := -1
	stores := map[string]bool{}
	nDirty := 0
	for i, b := range tr.Blocks {
		if len(b.Dirty) > 0 {
			if first < 0 {
				first = i
			}
			nDirty++
			for _, s := range b.Dirty {
				stores[s] = true
			}
		}
	}
	resps := make([]*abci.ResponseFinalizeBlock, len(tr.Blocks))
	for i, b := range tr.Blocks {
		resps[i] = b.Resp
	}
	nBlocks := len(tr.Blocks)
	if first >= 0 {
		var names []string
		for s := range stores {
			names = append(names, s)
		}
		sort.Strings(names)
		t.Perturbed = &C17Perturbed{Block: first, Height: tr.Blocks[first].Req.Height, Stores: names, DirtyBlocks: nDirty}
		var pure *app.App
		if err := c17Guard(func() error {
			pure = NewApp(dbm.NewMemDB(), tr.Cfg.NodeOpts)
			_, e := pure.InitChain(ireq)
			return e
		}); err != nil {
			return nil, fmt.Errorf("pure replay: %w", err)
		}
		for i, b := range tr.Blocks {
			var resp *abci.ResponseFinalizeBlock
			err := c17Guard(func() error {
				var e error
				if resp, e = pure.FinalizeBlock(b.Req); e != nil {
					return e
				}
				_, e = pure.Commit()
				return e
			})
			if err != nil {
				resp = nil
			}
			if i >= first {
				resps[i] = resp
			}
			if resp == nil {
				nBlocks = i + 1 // a halt ends the history
				break
			}
		}
		t.Perturbed.PureBlocks = nBlocks - first
	}

	h := sha256.New()
	h.Write(tr.Genesis)
	for i, b := range tr.Blocks[:nBlocks] {
		rbz, err := b.Req.Marshal()
		if err != nil {
			return nil, err
		}
		cb := C17Block{Req: rbz}
		for _, tx := range b.Req.Txs {
			h.Write([]byte{byte(len(tx)), byte(len(tx) >> 8), byte(len(tx) >> 16)})
			h.Write(tx)
		}
		h.Write([]byte{0xff})
		if resps[i] == nil {
			// the reference halted in this block (panic / error): it must be the last one
			if i != nBlocks-1 {
				return nil, fmt.Errorf("block %d has no response but is not the last", i)
			}
			t.Halted = true
			t.Blocks = append(t.Blocks, cb)
			break
		}
		can := c17Canonical(resps[i])
		if cb.Ref, err = can.Marshal(); err != nil {
			return nil, err
		}
		t.Blocks = append(t.Blocks, cb)
		t.Txs += len(can.TxResults)
		for _, r := range can.TxResults {
			if r.Code == 0 {
				t.TxsOK++
			}
			t.TxEvents += len(r.Events)
		}
		t.BlockEvents += len(can.Events)
		t.ValUpdates += len(can.ValidatorUpdates)
	}
	t.Hash = hex.EncodeToString(h.Sum(nil))
	return t, nil
}

func (t *C17Transcript) Nontrivial() bool { return t.TxsOK > 0 && t.BlockEvents > 0 }

func (t *C17Transcript) Describe() string {
	return fmt.Sprintf("engine=%s prop=%s seed=%d tier=%s steps=%d blocks=%d txs=%d (ok %d) tx_events=%d block_events=%d validator_updates=%d halted=%v hash=%s",
		t.Engine, t.Prop, t.Seed, t.Tier, t.Steps, len(t.Blocks), t.Txs, t.TxsOK, t.TxEvents, t.BlockEvents, t.ValUpdates, t.Halted, t.Hash[:16])
}

func c17ReadTranscript(path string) (*C17Transcript, error) {
	bz, err := os.ReadFile(path)
	if err != nil {
		return nil, err
	}
	var t C17Transcript
	if err := json.Unmarshal(bz, &t); err != nil {
		return nil, err
	}
	return &t, nil
}

func c17WriteJSONCompact(path string, v interface{}) error {
	bz, err := json.Marshal(v)
	if err != nil {
		return err
	}
	return os.WriteFile(path, bz, 0o644)
}

// ---------------------------------------------------------------------------------------
// comparison

type C17Divergence struct {
	Block  int      `json:"block"` // index into the transcript
	Height int64    `json:"height"`
	What   string   `json:"what"` // first differing category
	All    []string `json:"all"`  // all differing categories
	Detail string   `json:"detail"`
	Phase  string   `json:"phase,omitempty"` // e.g. "re-execution after crash"
}

func c17Short(s string) string {
	if len(s) > 160 {
		return s[:160] + "…"
	}
	return s
}

func c17EventDiff(where string, ref, got []abci.Event) string {
	n := len(ref)
	if len(got) < n {
		n = len(got)
	}
	for i := 0; i < n; i++ {
		a, b := ref[i], got[i]
		if a.Type != b.Type {
			return fmt.Sprintf("%s event #%d: type ref=%q got=%q", where, i, a.Type, b.Type)
		}
		m := len(a.Attributes)
		if len(b.Attributes) < m {
			m = len(b.Attributes)
		}
		for j := 0; j < m; j++ {
			x, y := a.Attributes[j], b.Attributes[j]
			if x.Key != y.Key {
				return fmt.Sprintf("%s event #%d (%s) attribute #%d: key ref=%q got=%q", where, i, a.Type, j, x.Key, y.Key)
			}
			if x.Value != y.Value {
				return fmt.Sprintf("%s event #%d (%s) attribute %q: ref=%q got=%q", where, i, a.Type, x.Key, c17Short(x.Value), c17Short(y.Value))
			}
		}
		if len(a.Attributes) != len(b.Attributes) {
			return fmt.Sprintf("%s event #%d (%s): %d attributes in ref, %d in replica", where, i, a.Type, len(a.Attributes), len(b.Attributes))
		}
	}
	if len(ref) != len(got) {
		extra := ""
		if len(ref) > n {
			extra = " first extra in ref: " + ref[n].Type
		} else {
			extra = " first extra in replica: " + got[n].Type
		}
		return fmt.Sprintf("%s: %d events in ref, %d in replica;%s", where, len(ref), len(got), extra)
	}
	return ""
}

func c17EventsEqual(a, b []abci.Event) bool { return c17EventDiff("", a, b) == "" }

// c17Compare compares a replica's response with the reference (both canonical).
func c17Compare(ref, got *abci.ResponseFinalizeBlock) (what []string, detail string) {
	add := func(w, d string) {
		for _, x := range what {
			if x == w {
				return
			}
		}
		what = append(what, w)
		if detail == "" {
			detail = d
		}
	}
	if len(ref.TxResults) != len(got.TxResults) {
		add("tx-result", fmt.Sprintf("%d tx results in ref, %d in replica", len(ref.TxResults), len(got.TxResults)))
	} else {
		for i := range ref.TxResults {
			a, b := ref.TxResults[i], got.TxResults[i]
			switch {
			case a.Code != b.Code || a.Codespace != b.Codespace:
				add("tx-result", fmt.Sprintf("tx #%d: code ref=%s/%d got=%s/%d", i, a.Codespace, a.Code, b.Codespace, b.Code))
			case !bytes.Equal(a.Data, b.Data):
				add("tx-result", fmt.Sprintf("tx #%d: data ref=%s got=%s", i, c17Short(hex.EncodeToString(a.Data)), c17Short(hex.EncodeToString(b.Data))))
			case a.GasWanted != b.GasWanted || a.GasUsed != b.GasUsed:
				add("tx-result", fmt.Sprintf("tx #%d: gas wanted/used ref=%d/%d got=%d/%d", i, a.GasWanted, a.GasUsed, b.GasWanted, b.GasUsed))
			}
		}
		for i := range ref.TxResults {
			if d := c17EventDiff(fmt.Sprintf("tx #%d", i), ref.TxResults[i].Events, got.TxResults[i].Events); d != "" {
				add("tx-events", d)
				break
			}
		}
	}
	if d := c17EventDiff("block", ref.Events, got.Events); d != "" {
		add("block-events", d)
	}
	if len(ref.ValidatorUpdates) != len(got.ValidatorUpdates) {
		add("validator-updates", fmt.Sprintf("%d validator updates in ref, %d in replica", len(ref.ValidatorUpdates), len(got.ValidatorUpdates)))
	} else {
		for i := range ref.ValidatorUpdates {
			x, _ := ref.ValidatorUpdates[i].Marshal()
			y, _ := got.ValidatorUpdates[i].Marshal()
			if !bytes.Equal(x, y) {
				add("validator-updates", fmt.Sprintf("validator update #%d: ref=%s got=%s", i, c17Short(ref.ValidatorUpdates[i].String()), c17Short(got.ValidatorUpdates[i].String())))
				break
			}
		}
	}
	ra, _ := c17MarshalCP(ref)
	ga, _ := c17MarshalCP(got)
	if !bytes.Equal(ra, ga) {
		add("consensus-param-updates", fmt.Sprintf("ref=%v got=%v", ref.ConsensusParamUpdates, got.ConsensusParamUpdates))
	}
	if !bytes.Equal(ref.AppHash, got.AppHash) {
		add("app-hash", fmt.Sprintf("app hash ref=%X got=%X", ref.AppHash, got.AppHash))
	}
	// belt and braces: the canonical encodings must be byte-identical
	if len(what) == 0 {
		a, _ := ref.Marshal()
		b, _ := got.Marshal()
		if !bytes.Equal(a, b) {
			add("tx-result", "canonical response encodings differ")
		}
	}
	return what, detail
}

func c17MarshalCP(r *abci.ResponseFinalizeBlock) ([]byte, error) {
	if r.ConsensusParamUpdates == nil {
		return nil, nil
	}
	return r.ConsensusParamUpdates.Marshal()
}

// c17Truncate keeps blocks [0, upto].
func (t *C17Transcript) c17Truncate(upto int) *C17Transcript {
	c := *t
	if upto+1 < len(t.Blocks) {
		c.Blocks = append([]C17Block(nil), t.Blocks[:upto+1]...)
		c.Halted = false
	}
	return &c
}

func c17EngineOf(prop string) string {
	if e := EngineFor(prop); e != nil {
		return strings.ToLower(e.Name())
	}
	return "none"
}
