package sim

import (
	"bytes"
	"fmt"
	"sort"
	"strings"
	"time"

	authtypes "github.com/cosmos/cosmos-sdk/x/auth/types"
	transfertypes "github.com/cosmos/ibc-go/v8/modules/apps/transfer/types"
	"github.com/ethereum/go-ethereum/common"

	fxtypes "github.com/functionx/fx-core/v8/types"
	cctypes "github.com/functionx/fx-core/v8/x/crosschain/types"
	erc20types "github.com/functionx/fx-core/v8/x/erc20/types"
)

// ---------------------------------------------------------------------------------------
// C19 oracles.
//
//  inbound-credit        success ack  => exactly the amount was credited (ERC-20 to a hex
//                        receiver for a registered denom, native balance for FX), to nobody else
//  error-ack-no-effects  error ack    => nothing but IBC core's receipt/ack keys changed
//  memo-caller           a memo call ran exactly once with CALLER = f(port/channel, sender),
//                        never a local key / module / contract address, injective
//  refund-exactly-once   error ack / timeout of an EVM-started transfer restores the ERC-20
//                        balance once; duplicates, replays and reordered settles change nothing
//  relayer-cannot-forge  forged acks, tampered packets, early timeouts are rejected
//  relation-removed      (Finish) no tracking record of a settled packet is left
//  refund-on-failure     (Finish) with an honest relayer and no faults every EVM-started
//                        transfer that failed or timed out can be settled (bounded liveness)

func (st *IbcSt) tokenName(t common.Address) string {
	switch {
	case t == st.WFX:
		return "WFX"
	case st.HasToken && t == st.Token:
		return "own-erc20"
	}
	return "pair-erc20"
}

// ibcClasses names the step by the most significant thing that happened in it (one class, so
// that finding ids stay stable when unrelated txs share the block).
func ibcClasses(facts *ibcStepFacts) string {
	set := map[string]bool{}
	for _, f := range facts.Txs {
		set[f.Class] = true
	}
	for _, c := range []string{"settle-ack-err", "settle-timeout", "settle-ack-ok", "ack-noop", "timeout-noop", "recv-ok", "recv-err", "recv-noop",
		"ack-accepted", "timeout-accepted", "recv-accepted", "eth-crosschain", "xfer", "eth-deposit", "eth-mint", "ack-fail", "timeout-fail", "recv-fail", "eth-crosschain-fail", "xfer-fail"} {
		if set[c] {
			return c
		}
	}
	return "block"
}

func (e IbcEngine) Check(r *Run, s *Step, o *Outcome) []Violation {
	st := ibcState(r)
	w := r.W
	if o != nil && o.Halt != nil {
		r.Foreign = "halt:" + o.Halt.Site
		return nil
	}
	facts := st.Last
	if facts == nil || s.Kind != "block" {
		return nil
	}
	var vs []Violation
	vs = append(vs, facts.Viol...)
	classes := ibcClasses(facts)
	hasRecvOK, hasSettle := false, false
	for _, f := range facts.Txs {
		switch {
		case f.Class == "recv-ok":
			hasRecvOK = true
		case strings.HasPrefix(f.Class, "settle-"), strings.HasSuffix(f.Class, "-noop"):
			hasSettle = true
		}
		if strings.HasSuffix(f.Class, "-accepted") {
			vs = append(vs, Violation{Invariant: "relayer-cannot-forge", Site: f.Tx.K + ":" + f.Class,
				Message: fmt.Sprintf("%s for packet %s was accepted although %s", f.Tx.K, f.Pkt.ID, f.MustFail)})
		}
	}

	// ---- memo calls
	if st.calleeIsContract(w) {
		expect := facts.CalleeCount
		var last *ibcTxFact
		for i := range facts.Txs {
			f := &facts.Txs[i]
			if f.Class == "recv-ok" && f.Memo != nil && f.Memo.To == st.Callee {
				expect++
				last = f
			}
		}
		got := st.calleeCount(w)
		if got != expect {
			vs = append(vs, Violation{Invariant: "memo-caller", Site: "call-count:" + classes,
				Message: fmt.Sprintf("recorder contract ran %d times in this block, %d successfully acknowledged memo calls target it", got-facts.CalleeCount, expect-facts.CalleeCount)})
		} else if last != nil {
			p := last.Pkt
			caller := st.calleeCaller(w)
			want := ibcIntermediate(p.Pkt.SourcePort, p.Pkt.SourceChannel, p.Data.Sender)
			key := p.Pkt.SourcePort + "/" + p.Pkt.SourceChannel + "|" + p.Data.Sender
			r.Probe("memo-call-executed")
			if caller != want {
				vs = append(vs, Violation{Invariant: "memo-caller", Site: "derivation",
					Message: fmt.Sprintf("memo call of packet %s ran with CALLER %s, expected sha256(sha256(%q)||%q)[12:] = %s", p.ID, caller.Hex(), p.Pkt.SourcePort+"/"+p.Pkt.SourceChannel, p.Data.Sender, want.Hex())})
			}
			if who := st.localOwner(w, caller); who != "" {
				vs = append(vs, Violation{Invariant: "memo-caller", Site: "impersonation",
					Message: fmt.Sprintf("memo call of packet %s ran with CALLER %s which is the local account %s", p.ID, caller.Hex(), who)})
			}
			if prev, ok := st.Callers[caller]; ok && prev != key {
				vs = append(vs, Violation{Invariant: "memo-caller", Site: "collision",
					Message: fmt.Sprintf("CALLER %s is shared by %q and %q", caller.Hex(), prev, key)})
			}
			st.Callers[caller] = key
		}
	}

	// ---- ledgers
	inv := "erc20-ledger"
	switch {
	case hasRecvOK:
		inv = "inbound-credit"
	case hasSettle:
		inv = "refund-exactly-once"
	}
	full := st.Sweep || r.StepNo%8 == 0
	vs = append(vs, st.checkLedgers(r, facts, inv, classes, full)...)

	// ---- rejected / error-acknowledged relays leave no trace
	if facts.RelayOnly && facts.Pre != nil {
		quiet, anyErrAck := true, false
		signers := map[string]bool{}
		for _, f := range facts.Txs {
			switch f.Class {
			case "recv-err":
				anyErrAck = true
			case "recv-fail", "recv-noop", "ack-fail", "ack-noop", "timeout-fail", "timeout-noop", "not-built":
			default:
				quiet = false
			}
			if f.Tx != nil {
				signers[string(w.KeyByName(f.Tx.S).Acc())] = true
			}
		}
		if quiet {
			d := FilterDiff(Diff(facts.Pre, w.Dump()), func(e DiffEntry) bool { return ibcNoise(e, signers) })
			if len(d) > 0 {
				inv := "rejected-relay-no-effects"
				if anyErrAck {
					inv = "error-ack-no-effects"
					r.Probe("error-ack-dump-compared")
				}
				var sb strings.Builder
				for i, e := range d {
					if i == 4 {
						fmt.Fprintf(&sb, " … (%d keys)", len(d))
						break
					}
					sb.WriteString(" " + e.String())
				}
				vs = append(vs, Violation{Invariant: inv, Site: classes, Message: "state changed although every relay in the block was rejected, a no-op or answered with an error acknowledgement:" + sb.String()})
			} else if anyErrAck {
				r.Probe("error-ack-dump-compared")
			}
		}
	}
	return st.only(vs)
}

// only: in C18 mode nothing but the C18 oracles is reported.
func (st *IbcSt) only(vs []Violation) []Violation {
	if !st.C18 {
		var out []Violation
		for _, v := range vs {
			if v.Invariant != "tolerated-failure" { // C19 judges the same situation with memo-caller@call-count
				out = append(out, v)
			}
		}
		return out
	}
	var out []Violation
	for _, v := range vs {
		if v.Invariant == "tolerated-failure" || v.Invariant == "error-ack-no-effects" {
			out = append(out, v)
		}
		if v.Invariant == "inbound-credit" {
			// a packet whose conversion to ERC-20 failed (token pair switched off) but which was acknowledged as
			// success has left the partial effects of the failed step behind: same ledger oracle as C19
			v.Invariant, v.Site = "tolerated-failure", "ibc/ledger/"+v.Site
			out = append(out, v)
		}
	}
	return out
}

// checkLedgers compares the expected balances with the app. Every step judges the addresses
// the step names (signers, receivers, senders, memo-call senders and targets) and the system
// accounts, plus the total supplies; every 8th step and the end of the run sweep all
// addresses that ever took part (supply == sum over them, so a credit to anybody else shows).
func (st *IbcSt) checkLedgers(r *Run, facts *ibcStepFacts, inv, classes string, full bool) []Violation {
	w := r.W
	var vs []Violation
	ctx := w.Ctx()
	holders := st.Holders
	if !full {
		holders = nil
		seen := map[common.Address]bool{}
		for _, h := range append(append([]common.Address{}, st.System...), facts.Touched...) {
			if !seen[h] && st.holderSet[h] {
				seen[h] = true
				holders = append(holders, h)
			}
		}
	}
	for _, t := range st.Tokens {
		var sum = ibcBig("0")
		for _, h := range holders {
			want := st.ERC[t][h]
			got := ibcErc20Balance(w, ctx, t, h)
			sum.Add(sum, got)
			if want.Cmp(got) != 0 {
				vs = append(vs, Violation{Invariant: inv, Site: classes + ":" + st.tokenName(t),
					Message: fmt.Sprintf("ERC-20 %s balance of %s is %s, expected %s (%s)", t.Hex(), st.holderName(w, h), got, want, ibcDescribe(facts))})
				st.ERC[t][h] = got
			}
		}
		supply := ibcErc20Supply(w, ctx, t)
		if supply.Cmp(st.Supply[t]) != 0 {
			vs = append(vs, Violation{Invariant: inv, Site: classes + ":" + st.tokenName(t) + ":supply",
				Message: fmt.Sprintf("ERC-20 %s total supply is %s, expected %s (%s)", t.Hex(), supply, st.Supply[t], ibcDescribe(facts))})
			st.Supply[t] = supply
		} else if full && supply.Cmp(sum) != 0 {
			vs = append(vs, Violation{Invariant: inv, Site: classes + ":" + st.tokenName(t) + ":untracked-holder",
				Message: fmt.Sprintf("ERC-20 %s total supply %s differs from the sum %s over all %d addresses taking part in the run: somebody else was credited (%s)", t.Hex(), supply, sum, len(st.Holders), ibcDescribe(facts))})
		}
	}
	for _, h := range holders {
		got := w.App.BankKeeper.GetBalance(ctx, h.Bytes(), fxtypes.DefaultDenom).Amount.BigInt()
		if want := st.FX[h]; want.Cmp(got) != 0 {
			vs = append(vs, Violation{Invariant: inv, Site: classes + ":FX",
				Message: fmt.Sprintf("native FX balance of %s is %s, expected %s (%s)", st.holderName(w, h), got, want, ibcDescribe(facts))})
			st.FX[h] = got
		}
	}
	return vs
}

func ibcDescribe(facts *ibcStepFacts) string {
	var l []string
	for _, f := range facts.Txs {
		if f.Tx == nil {
			continue
		}
		s := f.Tx.K + "=" + f.Class
		if f.Pkt != nil {
			s += "[" + f.Pkt.ID + "]"
		}
		if f.Credit != "" {
			s += " expecting " + f.Credit
		}
		l = append(l, s)
	}
	return strings.Join(l, "; ")
}

// ibcNoise: keys that every block changes, the signer's sequence and IBC core's own
// bookkeeping of a received packet.
func ibcNoise(e DiffEntry, signers map[string]bool) bool {
	switch e.Store {
	case "ibc":
		k := string(e.Key)
		return strings.HasPrefix(k, "receipts/") || strings.HasPrefix(k, "acks/") || strings.HasPrefix(k, "nextSequenceRecv/") ||
			strings.HasPrefix(k, "clients/09-localhost/")
	case "acc":
		return len(e.Key) > 1 && e.Key[0] == 0x01 && signers[string(e.Key[1:])]
	case "slashing", "feemarket", "mint":
		return true
	case "staking":
		return len(e.Key) > 0 && e.Key[0] == 0x50 // historical info
	case "distribution":
		return bytes.Equal(e.Key, []byte{0x01}) // previous proposer
	}
	return false
}

func (st *IbcSt) holderName(w *World, a common.Address) string {
	if n := st.localOwner(w, a); n != "" {
		return n + " " + a.Hex()
	}
	return a.Hex()
}

// localOwner names the local key, module account or contract that owns address a ("" = none).
func (st *IbcSt) localOwner(w *World, a common.Address) string {
	var names []string
	for n, k := range w.keys {
		if k.Hex() == a {
			names = append(names, n)
		}
	}
	sort.Strings(names)
	if len(names) > 0 {
		return names[0]
	}
	for _, m := range []string{"fee_collector", "distribution", "mint", "bonded_tokens_pool", "not_bonded_tokens_pool", "gov", "transfer", "evm", "erc20", "eth", "bsc", "polygon", "avalanche", "tron", "arbitrum", "optimism", "layer2"} {
		if common.BytesToAddress(authtypes.NewModuleAddress(m)) == a {
			return "module:" + m
		}
	}
	switch {
	case a == cctypes.GetAddress():
		return "crosschain-precompile"
	case a == st.WFX:
		return "WFX"
	case st.HasCallee && a == st.Callee:
		return "recorder-contract"
	case st.HasToken && a == st.Token:
		return "own-erc20"
	}
	return ""
}

// ---------------------------------------------------------------------------------------
// Finish: faults off, an honest relayer settles everything that can be settled; then the
// tracking records and the refunds are judged.

func (e IbcEngine) Finish(r *Run) []Violation {
	st := ibcState(r)
	w := r.W
	if w == nil || w.Halt != nil {
		return nil
	}
	failLog := map[string]string{}
	failKind := map[string]string{}
	step := func(s Step) ([]Violation, *Outcome) {
		o := e.Apply(r, &s)
		return e.Check(r, &s, o), o
	}
	// faults off includes governance: token pairs that were switched off are switched on again,
	// a refund that was refused while its pair was disabled is a retryable refusal
	pairs := w.App.Erc20Keeper.GetAllTokenPairs(w.Ctx())
	sort.Slice(pairs, func(i, j int) bool { return pairs[i].Erc20Address < pairs[j].Erc20Address })
	for _, p := range pairs {
		if !p.Enabled {
			if vs, _ := step(Step{Kind: "gov", DtMs: 5000, A: A("what", "toggle", "token", p.Erc20Address)}); len(vs) > 0 || r.Foreign != "" {
				return vs
			}
		}
	}
	for round := 0; round < 6; round++ {
		progress := false
		for _, id := range st.Order {
			p := st.Pkts[id]
			if p.Settled != "" {
				continue
			}
			kind := "ibc_recv"
			switch {
			case p.Recvd:
				kind = "ibc_ack"
			case ibcElapsed(p, w.Height+1, w.Now.Add(5*time.Second)):
				kind = "ibc_timeout"
			}
			t := Tx{K: kind, S: ibcRelayer, A: A("pkt", id)}
			if kind == "ibc_recv" {
				t.Gas = ibcRelayGas
			}
			vs, o := step(ibcBlk(5000, t))
			if len(vs) > 0 || r.Foreign != "" {
				return vs
			}
			if len(o.Txs) == 1 && o.Txs[0].Res.OK() {
				progress = true
				delete(failLog, id)
			} else if len(o.Txs) == 1 && o.Txs[0].Res != nil {
				failLog[id] = o.Txs[0].Res.String()
				failKind[id] = kind
			}
		}
		if progress {
			continue
		}
		// nothing moved: let the clock pass the time-outs of packets that cannot be received
		var maxTT uint64
		for _, id := range st.Order {
			p := st.Pkts[id]
			if p.Settled == "" && !p.Recvd && p.Pkt.TimeoutTimestamp > maxTT {
				maxTT = p.Pkt.TimeoutTimestamp
			}
		}
		if maxTT <= uint64(w.Now.UnixNano()) {
			break
		}
		dt := time.Duration(maxTT-uint64(w.Now.UnixNano())) + time.Second
		if vs, _ := step(Step{Kind: "block", DtMs: dt.Milliseconds(), N: 1}); len(vs) > 0 || r.Foreign != "" {
			return vs
		}
	}

	// final sweep over every address that took part
	st.Sweep = true
	if vs, _ := step(Step{Kind: "block", DtMs: 5000, N: 1}); len(vs) > 0 || r.Foreign != "" {
		return vs
	}
	st.Sweep = false

	// observation only (ICS-20 conservation is not part of C19's text): vouchers in circulation
	// versus the FX escrowed for them on the peer channel
	if st.C18 {
		return nil
	}
	for _, ch := range st.Chans {
		sup := w.App.BankKeeper.GetSupply(w.Ctx(), ibcV(ch)).Amount
		esc := w.App.BankKeeper.GetBalance(w.Ctx(), transfertypes.GetEscrowAddress(ibcPort, ibcPeer(ch)), fxtypes.DefaultDenom).Amount
		if sup.GT(esc) {
			r.Probe("observation:voucher-supply-exceeds-escrow")
		}
	}

	var vs []Violation
	seenID := map[string]bool{}
	add := func(v Violation) {
		if !seenID[v.ID()] { // one finding per id is enough (each has its own replay anyway)
			seenID[v.ID()] = true
			vs = append(vs, v)
		}
	}
	// 1. tracking records of settled packets
	for _, kv := range w.Prefix(w.Ctx(), erc20types.StoreKey, erc20types.KeyPrefixIBCTransfer) {
		id := string(kv[0][1:])
		p := st.Pkts[id]
		if p == nil {
			r.Probe("relation-of-unknown-packet")
			open := 0
			for _, q := range st.Pkts {
				if q.FromEVM && q.Settled == "" {
					open++
				}
			}
			if open == 0 {
				add(Violation{Invariant: "relation-removed", Site: "finish:record-of-no-open-transfer",
					Message: fmt.Sprintf("IBC transfer relation %q (erc20 store prefix 0x04) exists although every EVM-started transfer of the run is settled and none has this (channel/sequence) id", id)})
			}
			continue
		}
		r.Probe("relation-checked")
		if p.Settled == "" {
			continue
		}
		add(Violation{Invariant: "relation-removed", Site: "finish:" + p.Settled,
			Message: fmt.Sprintf("IBC transfer relation %q (erc20 store prefix 0x04) still exists although packet %s (EVM sender %s, token %s, amount %s) was settled by %s at step %d", id, id, p.EvmFrom, p.Token, p.Data.Amount, p.Settled, p.SettledAt)})
	}
	// 2. EVM-started transfers that failed or timed out must be refundable
	for _, id := range st.Order {
		p := st.Pkts[id]
		if p.Settled != "" {
			if p.FromEVM {
				r.Probe("evm-packet-settled-" + p.Settled)
			}
			continue
		}
		k := failKind[id]
		if k != "ibc_ack" && k != "ibc_timeout" {
			r.Probe("finish-unsettled:" + k)
			continue
		}
		outcome := "timeout"
		if k == "ibc_ack" {
			outcome = "ack-err"
			if p.AckOK {
				outcome = "ack-ok"
			}
		}
		if !p.FromEVM || p.Origin {
			r.Probe("finish-stuck-cosmos-packet:" + outcome)
			continue
		}
		add(Violation{Invariant: "refund-on-failure", Site: "finish:" + outcome + "-rejected",
			Message: fmt.Sprintf("packet %s started from the EVM by %s (%s of token %s) cannot be settled: the honest %s is rejected with %s — the sender is never refunded", id, p.EvmFrom, p.Data.Amount, p.Token, k, failLog[id])})
	}
	return vs
}
