package sim

import (
	"fmt"
	"math/big"
	"sort"
	"strconv"
	"strings"

	sdkmath "cosmossdk.io/math"
)

// Args is the concrete, JSON-stable argument bag of an action.
type Args map[string]string

func (a Args) Str(k string) string { return a[k] }
func (a Args) Has(k string) bool   { _, ok := a[k]; return ok }
func (a Args) Int(k string) int {
	n, _ := strconv.Atoi(a[k])
	return n
}
func (a Args) U64(k string) uint64 {
	n, _ := strconv.ParseUint(a[k], 10, 64)
	return n
}
func (a Args) I64(k string) int64 {
	n, _ := strconv.ParseInt(a[k], 10, 64)
	return n
}
func (a Args) Big(k string) *big.Int {
	n, ok := new(big.Int).SetString(a[k], 10)
	if !ok {
		return big.NewInt(0)
	}
	return n
}
func (a Args) SdkInt(k string) sdkmath.Int { return sdkmath.NewIntFromBigInt(a.Big(k)) }
func (a Args) Bool(k string) bool          { return a[k] == "1" || a[k] == "true" }

func (a Args) String() string {
	var ks []string
	for k := range a {
		ks = append(ks, k)
	}
	sort.Strings(ks)
	var sb strings.Builder
	for i, k := range ks {
		if i > 0 {
			sb.WriteByte(' ')
		}
		v := a[k]
		if len(v) > 24 {
			v = v[:24] + "…"
		}
		fmt.Fprintf(&sb, "%s=%s", k, v)
	}
	return sb.String()
}

func A(kv ...interface{}) Args {
	a := Args{}
	for i := 0; i+1 < len(kv); i += 2 {
		a[fmt.Sprint(kv[i])] = fmt.Sprint(kv[i+1])
	}
	return a
}

// Tx is one transaction intent inside a block step. It is signed at delivery with the
// signer's then-current sequence.
type Tx struct {
	K   string   `json:"k"`             // action kind
	S   string   `json:"s"`             // signer key "role/idx"
	A   Args     `json:"a,omitempty"`   // concrete arguments
	Gas uint64   `json:"gas,omitempty"` // gas limit (0 = default)
	F   []string `json:"f,omitempty"`   // transport faults: dup-bytes, dup-msg
}

// Step is one scheduler decision. Kind "block" executes N blocks (the first carrying
// Txs); other kinds are engine specific (external chain, relayer, faults).
type Step struct {
	Kind string `json:"kind"`
	DtMs int64  `json:"dt_ms,omitempty"`
	N    int    `json:"n,omitempty"` // number of blocks (>=1), only the first has txs
	Txs  []Tx   `json:"txs,omitempty"`
	A    Args   `json:"a,omitempty"`
}

func (s Step) Shape() string {
	var sb strings.Builder
	sb.WriteString(s.Kind)
	if s.A != nil && s.A["op"] != "" {
		sb.WriteString(":" + s.A["op"])
	}
	for _, t := range s.Txs {
		sb.WriteString("," + t.K)
	}
	return sb.String()
}

func ParseKeyName(s string) (string, int) {
	i := strings.LastIndex(s, "/")
	if i < 0 {
		return s, 0
	}
	n, _ := strconv.Atoi(s[i+1:])
	return s[:i], n
}

func KeyName(role string, idx int) string { return fmt.Sprintf("%s/%d", role, idx) }

func (w *World) KeyByName(s string) *Key {
	r, i := ParseKeyName(s)
	return w.Key(r, i)
}
