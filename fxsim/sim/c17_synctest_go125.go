//go:build go1.25

package sim

// R4: the whole replica (app construction included) runs inside a testing/synctest bubble,
// where time.Now() starts at 2000-01-01T00:00:00Z and only moves when every goroutine of the
// bubble is durably blocked. Any wall-clock read that reaches state, results or events makes
// this replica diverge from the reference. synctest.Test needs a *testing.T, which a normal
// binary obtains through testing.Main.

import (
	"fmt"
	"os"
	"testing"
	"testing/synctest"
)

const c17SynctestAvailable = true

func c17RunInBubble(f func() *C17ReplicaResult) {
	os.Args = os.Args[:1]
	testing.Init()
	tests := []testing.InternalTest{{Name: "C17Bubble", F: func(t *testing.T) {
		synctest.Test(t, func(t *testing.T) {
			res := f()
			c17PrintResult(res) // inside the bubble: survives a teardown problem of the bubble
			os.Stdout.Sync()
		})
		fmt.Println("C17BUBBLE closed")
	}}}
	testing.Main(func(pat, str string) (bool, error) { return true, nil }, tests, nil, nil) // exits
}
