package sim

import (
	"encoding/binary"
	"sort"

	sdkmath "cosmossdk.io/math"
	sdk "github.com/cosmos/cosmos-sdk/types"

	cctypes "github.com/functionx/fx-core/v8/x/crosschain/types"
)

// ChainView is a decoded copy of one crosschain module's store, read from the raw KV
// prefixes (not through the keeper's own getters).
type AttView struct {
	Nonce    uint64
	Hash     string
	Observed bool
	Votes    []string
	Height   uint64
	Claim    cctypes.ExternalClaim
}

type ChainView struct {
	Name           string
	Oracles        map[string]cctypes.Oracle // by oracle bech32
	OracleList     []cctypes.Oracle
	ByBridger      map[string]string // bridger bech32 -> oracle bech32
	ByExternal     map[string]string // external addr -> oracle bech32
	Approved       []string
	TotalPower     sdkmath.Int
	LastObs        uint64
	ObsExtH        uint64
	ObsFxH         uint64
	OracleNonce    map[string]uint64 // explicit per-oracle cursor (only if stored)
	Atts           []AttView
	OracleSets     []cctypes.OracleSet
	SetConfirms    map[uint64]map[string]cctypes.MsgOracleSetConfirm // nonce -> oracle bech32
	LatestSet      uint64
	LastSlashedSet uint64
	LastObsSet     *cctypes.OracleSet
	Pool           []cctypes.OutgoingTransferTx
	Batches        []cctypes.OutgoingTxBatch
	BatchBlocks    []cctypes.OutgoingTxBatch
	BatchConfirms  map[string]map[string]cctypes.MsgConfirmBatch // token|nonce -> oracle
	Calls          []cctypes.OutgoingBridgeCall
	CallIdx        map[string]bool
	CallConfirms   map[uint64]map[string]cctypes.MsgBridgeCallConfirm
	CallFromMsg    map[uint64]bool
	Pending        map[uint64]cctypes.ExternalClaim
	Seq            map[string]uint64
	BridgeDenoms   map[string]string
	Params         cctypes.Params
}

func (v *ChainView) OnlinePower() sdkmath.Int {
	t := sdkmath.ZeroInt()
	for _, o := range v.OracleList {
		if o.Online {
			t = t.Add(o.GetPower())
		}
	}
	return t
}

func be64(b []byte) uint64 {
	if len(b) < 8 {
		return 0
	}
	return binary.BigEndian.Uint64(b[:8])
}

func (w *World) ViewChain(ctx sdk.Context, name string) *ChainView {
	cdc := w.App.AppCodec()
	v := &ChainView{Name: name, Oracles: map[string]cctypes.Oracle{}, ByBridger: map[string]string{}, ByExternal: map[string]string{},
		OracleNonce: map[string]uint64{}, SetConfirms: map[uint64]map[string]cctypes.MsgOracleSetConfirm{},
		BatchConfirms: map[string]map[string]cctypes.MsgConfirmBatch{}, CallIdx: map[string]bool{},
		CallConfirms: map[uint64]map[string]cctypes.MsgBridgeCallConfirm{}, CallFromMsg: map[uint64]bool{},
		Pending: map[uint64]cctypes.ExternalClaim{}, Seq: map[string]uint64{}, BridgeDenoms: map[string]string{}, TotalPower: sdkmath.ZeroInt()}
	key := w.App.GetKVStoreKey()[name]
	it := ctx.KVStore(key).Iterator(nil, nil)
	defer it.Close()
	for ; it.Valid(); it.Next() {
		k, val := it.Key(), it.Value()
		if len(k) == 0 {
			continue
		}
		body := k[1:]
		switch k[0] {
		case 0x12:
			var o cctypes.Oracle
			cdc.MustUnmarshal(val, &o)
			v.Oracles[o.OracleAddress] = o
			v.OracleList = append(v.OracleList, o)
		case 0x13:
			v.ByExternal[string(body)] = sdk.AccAddress(val).String()
		case 0x14:
			v.ByBridger[sdk.AccAddress(body).String()] = sdk.AccAddress(val).String()
		case 0x15:
			var os cctypes.OracleSet
			cdc.MustUnmarshal(val, &os)
			v.OracleSets = append(v.OracleSets, os)
		case 0x16:
			var c cctypes.MsgOracleSetConfirm
			cdc.MustUnmarshal(val, &c)
			n := be64(body)
			if v.SetConfirms[n] == nil {
				v.SetConfirms[n] = map[string]cctypes.MsgOracleSetConfirm{}
			}
			v.SetConfirms[n][sdk.AccAddress(body[8:]).String()] = c
		case 0x17:
			var a cctypes.Attestation
			cdc.MustUnmarshal(val, &a)
			av := AttView{Nonce: be64(body), Hash: string(body[8:]), Observed: a.Observed, Votes: a.Votes, Height: a.Height}
			if cl, err := cctypes.UnpackAttestationClaim(cdc, &a); err == nil {
				av.Claim = cl
			}
			v.Atts = append(v.Atts, av)
		case 0x18:
			var t cctypes.OutgoingTransferTx
			cdc.MustUnmarshal(val, &t)
			v.Pool = append(v.Pool, t)
		case 0x20:
			var b cctypes.OutgoingTxBatch
			cdc.MustUnmarshal(val, &b)
			v.Batches = append(v.Batches, b)
		case 0x21:
			var b cctypes.OutgoingTxBatch
			cdc.MustUnmarshal(val, &b)
			v.BatchBlocks = append(v.BatchBlocks, b)
		case 0x22:
			var c cctypes.MsgConfirmBatch
			cdc.MustUnmarshal(val, &c)
			id := batchID(c.TokenContract, c.Nonce)
			if v.BatchConfirms[id] == nil {
				v.BatchConfirms[id] = map[string]cctypes.MsgConfirmBatch{}
			}
			// key: token | nonce(8) | oracle(20)
			if len(body) >= 20 {
				v.BatchConfirms[id][sdk.AccAddress(body[len(body)-20:]).String()] = c
			}
		case 0x23:
			v.OracleNonce[sdk.AccAddress(body).String()] = be64(val)
		case 0x24:
			v.LastObs = be64(val)
		case 0x25:
			v.Seq[string(body)] = be64(val)
		case 0x28:
			v.LastSlashedSet = be64(val)
		case 0x29:
			v.LatestSet = be64(val)
		case 0x32:
			var h cctypes.LastObservedBlockHeight
			cdc.MustUnmarshal(val, &h)
			v.ObsExtH, v.ObsFxH = h.ExternalBlockHeight, h.BlockHeight
		case 0x33:
			var os cctypes.OracleSet
			cdc.MustUnmarshal(val, &os)
			v.LastObsSet = &os
		case 0x38:
			var p cctypes.ProposalOracle
			cdc.MustUnmarshal(val, &p)
			v.Approved = p.Oracles
		case 0x39:
			var ip sdk.IntProto
			cdc.MustUnmarshal(val, &ip)
			v.TotalPower = ip.Int
		case 0x40:
			cdc.MustUnmarshal(val, &v.Params)
		case 0x45:
			var c cctypes.MsgBridgeCallConfirm
			cdc.MustUnmarshal(val, &c)
			n := be64(body)
			if v.CallConfirms[n] == nil {
				v.CallConfirms[n] = map[string]cctypes.MsgBridgeCallConfirm{}
			}
			v.CallConfirms[n][sdk.AccAddress(body[8:]).String()] = c
		case 0x48:
			var c cctypes.OutgoingBridgeCall
			cdc.MustUnmarshal(val, &c)
			v.Calls = append(v.Calls, c)
		case 0x49:
			v.CallIdx[string(body)] = true
		case 0x51:
			v.CallFromMsg[be64(body)] = true
		case 0x54:
			var cl cctypes.ExternalClaim
			if err := cdc.UnmarshalInterface(val, &cl); err == nil {
				v.Pending[be64(body)] = cl
			}
		case 0x60:
			v.BridgeDenoms[string(body)] = string(val)
		}
	}
	sort.Slice(v.Pool, func(i, j int) bool { return v.Pool[i].Id < v.Pool[j].Id })
	return v
}

func batchID(token string, nonce uint64) string {
	return token + "|" + sdkmath.NewIntFromUint64(nonce).String()
}

func (v *ChainView) SortedPending() []uint64 {
	var ns []uint64
	for n := range v.Pending {
		ns = append(ns, n)
	}
	sort.Slice(ns, func(i, j int) bool { return ns[i] < ns[j] })
	return ns
}

// EffectiveOracleNonce mirrors the documented rule for an oracle without a stored cursor.
func (v *ChainView) EffectiveOracleNonce(oracle string) uint64 {
	if n, ok := v.OracleNonce[oracle]; ok {
		return n
	}
	if v.LastObs >= 1 {
		return v.LastObs - 1
	}
	return 0
}
