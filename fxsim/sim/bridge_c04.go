package sim

import (
	"bytes"
	"encoding/hex"
	"fmt"
	"regexp"
	"sort"
	"strings"

	sdkmath "cosmossdk.io/math"
	sdk "github.com/cosmos/cosmos-sdk/types"
	authtypes "github.com/cosmos/cosmos-sdk/x/auth/types"
	"github.com/ethereum/go-ethereum/common"

	channeltypes "github.com/cosmos/ibc-go/v8/modules/core/04-channel/types"

	fxtypes "github.com/functionx/fx-core/v8/types"
	cctypes "github.com/functionx/fx-core/v8/x/crosschain/types"
	erc20types "github.com/functionx/fx-core/v8/x/erc20/types"
)

// C04 — bridge solvency / conservation.
//
// Bridged coin group (module-owned pair "usdt" with one bridge denom per chain):
//   userHeld(G) + inflight(G) == credited(G) − executedOut(G)
// where userHeld = supply of base and bridge denoms not sitting in bridge custody
// (crosschain module accounts, erc20 escrow) plus ERC-20 supply held outside modules;
// inflight = pool + batches + outgoing bridge calls; credited = deposits whose effects were
// executed; executedOut = withdrawals observed as executed on the external chain.
// FX (also minted, staked, burnt elsewhere): the equation is stated on the eth module's
// escrow account: escrow == R0 − credited + inflight + executedOut.

var digitRun = regexp.MustCompile(`[0-9]+[0-9A-Fa-fx]*`)

type c04Group struct {
	base             string
	credited         sdkmath.Int
	execOut          sdkmath.Int
	ibcOut           sdkmath.Int // left over IBC: packets IBC core committed (voucher burnt / coin escrowed by ICS-20)
	perChainCredited map[string]sdkmath.Int
	perChainOut      map[string]sdkmath.Int
}

type c04Model struct {
	groups  map[string]*c04Group // by base denom
	balPre  map[string]sdkmath.Int
	modPre  map[string]sdkmath.Int // balances of the transfer module account before the step
	escrow0 sdkmath.Int
	inited  bool
	donated map[string]sdkmath.Int
}

func newC04(st *BridgeSt) *c04Model {
	m := &c04Model{groups: map[string]*c04Group{}, balPre: map[string]sdkmath.Int{}, donated: map[string]sdkmath.Int{}}
	for _, b := range []string{"FX", "usdt"} {
		m.groups[b] = &c04Group{base: b, credited: sdkmath.ZeroInt(), execOut: sdkmath.ZeroInt(), ibcOut: sdkmath.ZeroInt(), perChainCredited: map[string]sdkmath.Int{}, perChainOut: map[string]sdkmath.Int{}}
	}
	return m
}

func addTo(m map[string]sdkmath.Int, k string, v sdkmath.Int) {
	if cur, ok := m[k]; ok {
		m[k] = cur.Add(v)
	} else {
		m[k] = v
	}
}

func getOr0(m map[string]sdkmath.Int, k string) sdkmath.Int {
	if v, ok := m[k]; ok {
		return v
	}
	return sdkmath.ZeroInt()
}

// trackedAccounts: every account whose balances the step-delta oracle follows.
func trackedAccounts(r *Run) []*Key {
	st := bst(r)
	var ks []*Key
	for i := 0; i < st.NUsers; i++ {
		ks = append(ks, r.W.Key("user", i))
	}
	ks = append(ks, r.W.Key("adv", 0), r.W.Key("adv", 1))
	return ks
}

func (m *c04Model) before(r *Run, s *Step) {
	w := r.W
	ctx := w.Ctx()
	if !m.inited {
		m.escrow0 = w.App.BankKeeper.GetBalance(ctx, authtypes.NewModuleAddress("eth"), "FX").Amount
		m.inited = true
	}
	m.balPre = map[string]sdkmath.Int{}
	for _, k := range trackedAccounts(r) {
		for _, c := range w.App.BankKeeper.GetAllBalances(ctx, k.Acc()) {
			m.balPre[k.Bech()+"|"+c.Denom] = c.Amount
		}
	}
	m.modPre = map[string]sdkmath.Int{}
	for _, c := range w.App.BankKeeper.GetAllBalances(ctx, authtypes.NewModuleAddress(ibcPort)) {
		m.modPre[c.Denom] = c.Amount
	}
}

// finish: bounded liveness after the run - an observed deposit that names an open IBC route (and, for a coin
// that leaves as an alias voucher, finds enough vouchers in stock) can be credited: executing its parked claim
// succeeds. Judged on a branch with the real keeper; nothing else about parked claims is demanded.
func (m *c04Model) finish(r *Run, c *bridgeChecks) []Violation {
	var vs []Violation
	vc := r.Cfg.World.IbcVoucher
	if vc == nil {
		return nil
	}
	st := bst(r)
	w := r.W
	seen := map[string]bool{}
	for _, ch := range st.Chains {
		v := w.ViewChain(w.Ctx(), ch.Name)
		for _, n := range v.SortedPending() {
			cl, ok := v.Pending[n].(*cctypes.MsgSendToFxClaim)
			if !ok || cl.TargetIbc == "" {
				continue
			}
			tg, _ := hex.DecodeString(cl.TargetIbc)
			ft := fxtypes.ParseFxTarget(string(tg))
			tk := ch.tokenByContract(cl.TokenContract)
			if tk == nil || !ft.IsIBC() || ft.SourcePort != ibcPort || ft.SourceChannel != vc.Chan {
				continue
			}
			if _, err := sdk.AccAddressFromBech32(cl.Receiver); err != nil {
				continue
			}
			if tk.Base != "FX" {
				stock := w.App.BankKeeper.GetBalance(w.Ctx(), authtypes.NewModuleAddress(ibcPort), bridgeVoucherDenom(vc)).Amount
				if stock.LT(cl.Amount) {
					r.Probe("parked-deposit:voucher-stock-short")
					continue
				}
				if pair, ok := w.App.Erc20Keeper.GetTokenPair(w.Ctx(), tk.Base); !ok || !pair.Enabled {
					continue
				}
			}
			var err error
			func() {
				defer func() {
					if rec := recover(); rec != nil {
						err = fmt.Errorf("panic: %v", rec)
					}
				}()
				err = ch.keeper(w).ExecuteClaim(w.Branch(), n)
			}()
			r.Probe("parked-deposit:tried-on-branch")
			if err != nil && !seen[tk.Symbol] {
				seen[tk.Symbol] = true
				vs = append(vs, viol("deposit-creditable", "send_to_fx/"+tk.Symbol+"/open-ibc-route", "%s: observed deposit %d of %s %s for %s with target %s is parked and cannot be executed although the route is open: %s", ch.Name, n, cl.Amount, tk.Symbol, cl.Receiver, tg, firstLine(err.Error())))
			}
		}
	}
	return vs
}

func (m *c04Model) balBefore(acc sdk.AccAddress, denom string) sdkmath.Int {
	return getOr0(m.balPre, acc.String()+"|"+denom)
}

func (c *ChainSt) tokenByContract(contract string) *TokenInfo {
	for _, t := range c.Tokens {
		if ExtAddrStr(c.Name, t.Contract) == contract {
			return t
		}
	}
	return nil
}

func (c *ChainSt) tokenByBase(base string) *TokenInfo {
	for _, t := range c.Tokens {
		if t.Base == base {
			return t
		}
	}
	return nil
}

// inflight sums pool, batches and outgoing bridge calls of a chain per base denom.
func inflightOf(ch *ChainSt, v *ChainView) map[string]sdkmath.Int {
	out := map[string]sdkmath.Int{}
	add := func(contract string, amt sdkmath.Int) {
		if t := ch.tokenByContract(contract); t != nil {
			addTo(out, t.Base, amt)
		}
	}
	for _, p := range v.Pool {
		add(p.Token.Contract, p.Token.Amount.Add(p.Fee.Amount))
	}
	for _, b := range v.Batches {
		for _, t := range b.Transactions {
			add(t.Token.Contract, t.Token.Amount.Add(t.Fee.Amount))
		}
	}
	for _, bc := range v.Calls {
		for _, t := range bc.Tokens {
			add(t.Contract, t.Amount)
		}
	}
	return out
}

func (m *c04Model) check(r *Run, c *bridgeChecks, s *Step, o *Outcome) []Violation {
	var vs []Violation
	st := bst(r)
	w := r.W
	ctx := w.Ctx()
	moved := false
	// ---- account what this step credited / executed out
	for _, ch := range st.Chains {
		pre, post := c.pre[ch.Name], c.post[ch.Name]
		// executed pending claims: deposits credited, bridge call results
		for _, t := range okTxs(o, "execute_claim") {
			if t.Tx.A.Str("chain") != ch.Name {
				continue
			}
			cl, ok := pre.Pending[t.Tx.A.U64("n")]
			if !ok {
				continue
			}
			moved = true
			switch m2 := cl.(type) {
			case *cctypes.MsgSendToFxClaim:
				if tk := ch.tokenByContract(m2.TokenContract); tk != nil {
					g := m.groups[tk.Base]
					g.credited = g.credited.Add(m2.Amount)
					addTo(g.perChainCredited, ch.Name, m2.Amount)
				}
			case *cctypes.MsgBridgeCallClaim:
				for i, tc := range m2.TokenContracts {
					if tk := ch.tokenByContract(tc); tk != nil {
						g := m.groups[tk.Base]
						g.credited = g.credited.Add(m2.Amounts[i])
						addTo(g.perChainCredited, ch.Name, m2.Amounts[i])
					}
				}
			case *cctypes.MsgBridgeCallResultClaim:
				if m2.Success {
					for _, bc := range pre.Calls {
						if bc.Nonce == m2.Nonce {
							for _, tkn := range bc.Tokens {
								if tk := ch.tokenByContract(tkn.Contract); tk != nil {
									g := m.groups[tk.Base]
									g.execOut = g.execOut.Add(tkn.Amount)
									addTo(g.perChainOut, ch.Name, tkn.Amount)
								}
							}
						}
					}
				}
			}
		}
		// batches observed as executed in this step
		for _, a := range post.Atts {
			if !a.Observed || a.Nonce <= pre.LastObs || a.Claim == nil {
				continue
			}
			if cl, ok := a.Claim.(*cctypes.MsgSendToExternalClaim); ok {
				for _, b := range pre.Batches {
					if b.TokenContract == cl.TokenContract && b.BatchNonce == cl.BatchNonce {
						if tk := ch.tokenByContract(b.TokenContract); tk != nil {
							g := m.groups[tk.Base]
							for _, t := range b.Transactions {
								g.execOut = g.execOut.Add(t.Token.Amount).Add(t.Fee.Amount)
								addTo(g.perChainOut, ch.Name, t.Token.Amount.Add(t.Fee.Amount))
							}
							moved = true
						}
					}
				}
			}
		}
	}
	// value that left over IBC in this step: every packet announced by a successful transaction whose
	// commitment IBC core really stores (state of another module, not of the bridge)
	if vc := r.Cfg.World.IbcVoucher; vc != nil && o != nil {
		for i := range o.Txs {
			t := &o.Txs[i]
			if t.Res == nil || !t.Res.OK() {
				continue
			}
			for _, p := range ibcPacketsFromEvents(t.Res) {
				if !p.RawOK {
					continue
				}
				com := w.App.IBCKeeper.ChannelKeeper.GetPacketCommitment(ctx, p.Pkt.SourcePort, p.Pkt.SourceChannel, p.Pkt.Sequence)
				if !bytes.Equal(com, channeltypes.CommitPacket(w.App.AppCodec(), p.Pkt)) {
					r.Probe("ibc-packet-event-without-commitment")
					continue
				}
				amt, ok := sdkmath.NewIntFromString(p.Data.Amount)
				if !ok {
					continue
				}
				switch p.Data.Denom {
				case "transfer/" + vc.Chan + "/" + vc.Base:
					m.groups["usdt"].ibcOut = m.groups["usdt"].ibcOut.Add(amt)
					r.Probe("deposit-forwarded-over-ibc:usdt")
					moved = true
				case "FX":
					m.groups["FX"].ibcOut = m.groups["FX"].ibcOut.Add(amt)
					r.Probe("deposit-forwarded-over-ibc:FX")
				}
			}
		}
	}
	if r.Cfg.World.IbcVoucher != nil && o != nil {
		for i := range o.Txs {
			t := &o.Txs[i]
			if t.Tx == nil || t.Res == nil || t.Tx.K != "execute_claim" || t.Res.OK() {
				continue
			}
			if ch := st.chain(t.Tx.A.Str("chain")); ch != nil {
				if cl, ok := c.pre[ch.Name].Pending[t.Tx.A.U64("n")].(*cctypes.MsgSendToFxClaim); ok && cl.TargetIbc != "" {
					tg, _ := hex.DecodeString(cl.TargetIbc)
					sym := "?"
					if tk := ch.tokenByContract(cl.TokenContract); tk != nil {
						sym = tk.Symbol
					}
					reason := t.Res.Log + " " + t.Res.VmError
					reason = digitRun.ReplaceAllString(reason, "N")
					if len(reason) > 60 {
						reason = reason[:60]
					}
					r.Probe("ibc-target-exec-refused:" + sym + ":" + string(tg) + ":" + reason)
				}
			}
		}
	}
	if len(okTxs(o, "send_to_external"))+len(okTxs(o, "cancel_send"))+len(okTxs(o, "bridge_call"))+len(okTxs(o, "increase_fee")) > 0 {
		moved = true
	}
	if moved {
		r.Nontrivial = true
	}
	// ---- group balance: bridged coin
	modules := []sdk.AccAddress{authtypes.NewModuleAddress(erc20types.ModuleName), authtypes.NewModuleAddress(ibcPort)}
	for _, n := range AllChains {
		modules = append(modules, authtypes.NewModuleAddress(n))
	}
	if g := m.groups["usdt"]; g != nil {
		denoms := []string{"usdt"}
		for _, ch := range st.Chains {
			if tk := ch.tokenByBase("usdt"); tk != nil {
				denoms = append(denoms, cctypes.NewBridgeDenom(ch.Name, ExtAddrStr(ch.Name, tk.Contract)))
			}
		}
		if vc := r.Cfg.World.IbcVoucher; vc != nil {
			denoms = append(denoms, bridgeVoucherDenom(vc)) // the IBC voucher is one more representation of the coin
		}
		held := sdkmath.ZeroInt()
		for _, d := range denoms {
			held = held.Add(w.App.BankKeeper.GetSupply(ctx, d).Amount)
			for _, ma := range modules {
				held = held.Sub(w.App.BankKeeper.GetBalance(ctx, ma, d).Amount)
			}
		}
		if pair, ok := w.App.Erc20Keeper.GetTokenPair(ctx, "usdt"); ok {
			tok := common.HexToAddress(pair.Erc20Address)
			ts := sdkmath.NewIntFromBigInt(w.ERC20TotalSupply(ctx, tok))
			for _, ma := range modules {
				ts = ts.Sub(sdkmath.NewIntFromBigInt(w.ERC20Balance(ctx, tok, common.BytesToAddress(ma))))
			}
			held = held.Add(ts)
		}
		infl := sdkmath.ZeroInt()
		for _, ch := range st.Chains {
			infl = infl.Add(getOr0(inflightOf(ch, c.post[ch.Name]), "usdt"))
		}
		want := g.credited.Sub(g.execOut).Sub(g.ibcOut)
		if !held.Add(infl).Equal(want) {
			vs = append(vs, viol("group-balance", c04Site(s, o)+"/module-coin", "usdt: held %s + inflight %s != credited %s - executed-out %s - sent on over IBC %s", held, infl, g.credited, g.execOut, g.ibcOut))
		}
		r.State(fmt.Sprintf("usdt:h%d/i%d", sign3(held), sign3(infl)))
	}
	// ---- FX escrow on eth
	if ch := st.chain("eth"); ch != nil && ch.tokenByBase("FX") != nil {
		g := m.groups["FX"]
		esc := w.App.BankKeeper.GetBalance(ctx, authtypes.NewModuleAddress("eth"), "FX").Amount
		infl := getOr0(inflightOf(ch, c.post["eth"]), "FX")
		want := m.escrow0.Sub(g.credited).Add(infl).Add(g.execOut)
		if !esc.Equal(want) {
			vs = append(vs, viol("group-balance", c04Site(s, o)+"/FX-escrow", "eth module holds %s FX, expected %s (R0 %s - credited %s + inflight %s + executed-out %s)", esc, want, m.escrow0, g.credited, infl, g.execOut))
		}
	}
	// ---- step-delta for single-tx blocks (fees are zero, so deltas are exact)
	if s.Kind == "block" && deliveredCount(o) == 1 && s.N <= 1 {
		for _, t := range o.Txs {
			if t.Res == nil || t.Tx == nil {
				continue
			}
			vs = append(vs, m.stepDelta(r, c, &t)...)
		}
	}
	// ---- a deposit that travels on over IBC moves exactly its amount: out of the transfer module's voucher
	// stock (alias voucher) or as the coin itself (FX), and touches nothing else the transfer module holds
	if vc := r.Cfg.World.IbcVoucher; vc != nil && s.Kind == "block" && deliveredCount(o) == 1 && s.N <= 1 {
		for _, t := range okTxs(o, "execute_claim") {
			ch := st.chain(t.Tx.A.Str("chain"))
			if ch == nil {
				continue
			}
			cl, ok := c.pre[ch.Name].Pending[t.Tx.A.U64("n")].(*cctypes.MsgSendToFxClaim)
			if !ok || cl.TargetIbc == "" {
				continue
			}
			tg, _ := hex.DecodeString(cl.TargetIbc)
			tk := ch.tokenByContract(cl.TokenContract)
			if tk == nil || !fxtypes.ParseFxTarget(string(tg)).IsIBC() {
				continue
			}
			r.Probe("ibc-leg-exact:" + tk.Symbol)
			tm := authtypes.NewModuleAddress(ibcPort)
			vd := bridgeVoucherDenom(vc)
			for _, d := range []string{"FX", "usdt", vd} {
				pre := getOr0(m.modPre, d)
				post := w.App.BankKeeper.GetBalance(ctx, tm, d).Amount
				want := pre
				if d == vd && tk.Base == "usdt" {
					want = pre.Sub(cl.Amount)
				}
				if !post.Equal(want) {
					vs = append(vs, viol("ibc-leg-exact", "execute_claim/"+tk.Symbol+"/transfer-module-"+denomKind(d), "deposit %d of %s %s with target %s: the transfer module account held %s %s before and %s after, expected %s", cl.EventNonce, cl.Amount, tk.Symbol, tg, pre, d, post, want))
				}
			}
			sent := sdkmath.ZeroInt()
			for _, p := range ibcPacketsFromEvents(t.Res) {
				if a, ok := sdkmath.NewIntFromString(p.Data.Amount); ok && p.RawOK && bytes.Equal(w.App.IBCKeeper.ChannelKeeper.GetPacketCommitment(ctx, p.Pkt.SourcePort, p.Pkt.SourceChannel, p.Pkt.Sequence), channeltypes.CommitPacket(w.App.AppCodec(), p.Pkt)) {
					sent = sent.Add(a)
				}
			}
			if !sent.Equal(cl.Amount) {
				vs = append(vs, viol("ibc-leg-exact", "execute_claim/"+tk.Symbol+"/packet-amount", "deposit %d of %s %s with target %s was executed, IBC core committed packets over %s", cl.EventNonce, cl.Amount, tk.Symbol, tg, sent))
			}
		}
	}
	// ---- withdrawable
	for _, t := range o.Txs {
		if t.Tx == nil || t.Res == nil || t.Tx.K != "send_to_external" || t.Res.OK() {
			continue
		}
		if !strings.Contains(t.Res.Log, "insufficient funds") {
			continue
		}
		ch := st.chain(t.Tx.A.Str("chain"))
		if ch == nil {
			continue
		}
		denom := t.Tx.A.Str("denom")
		need := t.Tx.A.SdkInt("amount").Add(t.Tx.A.SdkInt("fee"))
		if m.balBefore(w.KeyByName(t.Tx.S).Acc(), denom).LT(need) || deliveredCount(o) != 1 {
			continue // the sender itself could not cover it (or we cannot attribute)
		}
		g := m.groups[denom]
		if g == nil {
			continue
		}
		outstanding := getOr0(g.perChainCredited, ch.Name).Sub(getOr0(g.perChainOut, ch.Name)).Sub(getOr0(inflightOf(ch, c.pre[ch.Name]), denom))
		if denom == "FX" || need.LTE(outstanding) {
			site, why := "send/"+denom+"/module-short", ""
			if tk := ch.tokenByBase(denom); tk != nil && denom != "FX" {
				// attribute the shortfall: bridge tokens of this chain parked in the erc20 module after the refund
				// of an outgoing bridge call (the refund converts through the erc20 module, the way out does not)
				bd := cctypes.NewBridgeDenom(ch.Name, ExtAddrStr(ch.Name, tk.Contract))
				have := w.App.BankKeeper.GetBalance(ctx, authtypes.NewModuleAddress(ch.Name), bd).Amount
				stranded := w.App.BankKeeper.GetBalance(ctx, authtypes.NewModuleAddress("erc20"), bd).Amount
				refunded := false
				for _, cr := range c.c05.ch[ch.Name].calls {
					if cr.State == "refunded" {
						for _, t2 := range cr.Rec.Tokens {
							if t2.Contract == ExtAddrStr(ch.Name, tk.Contract) && t2.Amount.IsPositive() {
								refunded = true
							}
						}
					}
				}
				if refunded && stranded.IsPositive() && need.Sub(have).LTE(stranded) {
					site += "/stock-stranded-in-erc20-module-by-bridge-call-refund"
					why = fmt.Sprintf("; the %s module holds %s %s, %s more sit in the erc20 module since an outgoing bridge call with this token was refunded", ch.Name, have, bd, stranded)
				}
			}
			vs = append(vs, viol("withdrawable", site, "%s: send of %s %s by a holder with sufficient balance refused for lack of funds (outstanding through this chain: %s)%s", ch.Name, need, denom, outstanding, why))
		} else {
			r.Probe("withdraw-through-chain-without-backing-refused")
		}
	}
	return vs
}

func sign3(i sdkmath.Int) int {
	if i.IsNegative() {
		return -1
	}
	if i.IsZero() {
		return 0
	}
	return 1
}

func c04Site(s *Step, o *Outcome) string {
	if s.Kind != "block" {
		return s.Kind + ":" + s.A.Str("op") + s.A.Str("what")
	}
	var ks []string
	seen := map[string]bool{}
	for _, t := range o.Txs {
		if t.Tx != nil && t.Res.OK() && !seen[t.Tx.K] {
			seen[t.Tx.K] = true
			ks = append(ks, t.Tx.K)
		}
	}
	sort.Strings(ks)
	if len(ks) == 0 {
		return "block:empty"
	}
	return "block:" + strings.Join(ks, "+")
}

// stepDelta: in a block with exactly one delivered tx, only the accounts the operation
// names change, by exactly the named amounts.
func (m *c04Model) stepDelta(r *Run, c *bridgeChecks, t *TxOutcome) []Violation {
	var vs []Violation
	w := r.W
	ctx := w.Ctx()
	st := bst(r)
	expect := map[string]sdkmath.Int{} // bech|denom -> delta
	ch := st.chain(t.Tx.A.Str("chain"))
	signer := w.KeyByName(t.Tx.S)
	if t.Res.OK() {
		switch t.Tx.K {
		case "send_to_external":
			addTo(expect, signer.Bech()+"|"+t.Tx.A.Str("denom"), t.Tx.A.SdkInt("amount").Add(t.Tx.A.SdkInt("fee")).Neg())
		case "increase_fee":
			addTo(expect, signer.Bech()+"|"+t.Tx.A.Str("denom"), t.Tx.A.SdkInt("fee").Neg())
		case "bridge_call":
			coins, _ := sdk.ParseCoinsNormalized(t.Tx.A.Str("coins"))
			for _, cn := range coins {
				addTo(expect, signer.Bech()+"|"+cn.Denom, cn.Amount.Neg())
			}
		case "cancel_send":
			if ch != nil {
				for _, p := range c.pre[ch.Name].Pool {
					if p.Id == t.Tx.A.U64("id") {
						if tk := ch.tokenByContract(p.Token.Contract); tk != nil {
							addTo(expect, signer.Bech()+"|"+tk.Base, p.Token.Amount.Add(p.Fee.Amount))
						}
					}
				}
			}
		case "execute_claim":
			if ch == nil {
				return nil
			}
			cl, ok := c.pre[ch.Name].Pending[t.Tx.A.U64("n")]
			if !ok {
				return nil
			}
			switch m2 := cl.(type) {
			case *cctypes.MsgSendToFxClaim:
				tgt, _ := hex.DecodeString(m2.TargetIbc)
				if tk := ch.tokenByContract(m2.TokenContract); tk != nil && m2.TargetIbc == "" {
					addTo(expect, m2.Receiver+"|"+tk.Base, m2.Amount)
				} else if tk != nil && tk.Base != "FX" && r.Cfg.World.IbcVoucher != nil && fxtypes.ParseFxTarget(string(tgt)).IsIBC() {
					// credited and sent on over IBC in the same transaction: no tracked balance moves
					r.Probe("step-delta:deposit-forwarded-over-ibc")
				} else {
					return nil
				}
			case *cctypes.MsgBridgeCallClaim:
				// tokens go to the receiver as ERC-20 (or as a refund bridge call): bank balances of tracked accounts must not move
			case *cctypes.MsgBridgeCallResultClaim:
				return nil // refunds are judged by C05/C06
			}
		default:
			return nil
		}
	} else if t.Tx.K == "claim" || t.Tx.K == "confirm" {
		return nil
	}
	for _, k := range trackedAccounts(r) {
		seen := map[string]bool{}
		for _, cn := range w.App.BankKeeper.GetAllBalances(ctx, k.Acc()) {
			seen[cn.Denom] = true
			d := cn.Amount.Sub(m.balBefore(k.Acc(), cn.Denom))
			want := getOr0(expect, k.Bech()+"|"+cn.Denom)
			if !d.Equal(want) {
				vs = append(vs, viol("step-delta", t.Tx.K+"/"+denomKind(cn.Denom), "%s %s: balance of %s in %s changed by %s, expected %s", t.Tx.S, t.Tx.K, k.Name(), cn.Denom, d, want))
			}
		}
		for key, want := range expect {
			parts := strings.SplitN(key, "|", 2)
			if parts[0] == k.Bech() && !seen[parts[1]] {
				// the whole balance was consumed
				d := m.balBefore(k.Acc(), parts[1]).Neg()
				if !d.Equal(want) {
					vs = append(vs, viol("step-delta", t.Tx.K+"/"+denomKind(parts[1]), "%s %s: balance of %s in %s changed by %s, expected %s", t.Tx.S, t.Tx.K, k.Name(), parts[1], d, want))
				}
			}
		}
	}
	if len(expect) > 0 {
		r.Probe("step-delta:" + t.Tx.K)
	}
	return vs
}

// fxNoise: FX balances of users do not move by themselves (no staking in this engine).
func (m *c04Model) fxNoise(r *Run, k *Key) bool { return false }

func denomKind(d string) string {
	switch {
	case d == "FX":
		return "FX"
	case strings.HasPrefix(d, "ibc/"):
		return "ibc-voucher"
	case len(d) > 20:
		return "bridge-denom"
	}
	return "base-coin"
}
