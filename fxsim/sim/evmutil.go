package sim

import (
	"math/big"

	sdk "github.com/cosmos/cosmos-sdk/types"
	authtypes "github.com/cosmos/cosmos-sdk/x/auth/types"
	"github.com/ethereum/go-ethereum/common"

	erc20types "github.com/functionx/fx-core/v8/x/erc20/types"
)

// Read-only EVM queries (selectors written out by hand; results decoded as one word).

var erc20ModuleHex = common.BytesToAddress(authtypes.NewModuleAddress(erc20types.ModuleName))

func (w *World) evmRO(ctx sdk.Context, to common.Address, data []byte) ([]byte, error) {
	cctx, _ := ctx.CacheContext()
	res, err := w.App.EvmKeeper.CallEVMWithoutGas(cctx, erc20ModuleHex, &to, nil, data, false)
	if err != nil {
		return nil, err
	}
	return res.Ret, nil
}

func (w *World) ERC20Balance(ctx sdk.Context, token, holder common.Address) *big.Int {
	data := append([]byte{0x70, 0xa0, 0x82, 0x31}, word(holder.Bytes())...)
	ret, err := w.evmRO(ctx, token, data)
	if err != nil || len(ret) < 32 {
		return big.NewInt(0)
	}
	return new(big.Int).SetBytes(ret[:32])
}

func (w *World) ERC20TotalSupply(ctx sdk.Context, token common.Address) *big.Int {
	ret, err := w.evmRO(ctx, token, []byte{0x18, 0x16, 0x0d, 0xdd})
	if err != nil || len(ret) < 32 {
		return big.NewInt(0)
	}
	return new(big.Int).SetBytes(ret[:32])
}

func (w *World) ERC20Allowance(ctx sdk.Context, token, owner, spender common.Address) *big.Int {
	data := append([]byte{0xdd, 0x62, 0xed, 0x3e}, word(owner.Bytes())...)
	data = append(data, word(spender.Bytes())...)
	ret, err := w.evmRO(ctx, token, data)
	if err != nil || len(ret) < 32 {
		return big.NewInt(0)
	}
	return new(big.Int).SetBytes(ret[:32])
}
