package sim

import (
	"fmt"
	"sort"
	"strings"
	"time"

	sdkmath "cosmossdk.io/math"
	sdk "github.com/cosmos/cosmos-sdk/types"
	distrtypes "github.com/cosmos/cosmos-sdk/x/distribution/types"
	govv1 "github.com/cosmos/cosmos-sdk/x/gov/types/v1"
	stakingtypes "github.com/cosmos/cosmos-sdk/x/staking/types"

	fxtypes "github.com/functionx/fx-core/v8/types"
	cctypes "github.com/functionx/fx-core/v8/x/crosschain/types"
	erc20types "github.com/functionx/fx-core/v8/x/erc20/types"
	fxgovtypes "github.com/functionx/fx-core/v8/x/gov/types"
)

// c15Model: deposit ledger + per-type rule oracles. The only model state carried across
// steps is the sum of tracked donations; everything else is (pre-state, step, post-state).
type c15Model struct {
	on        bool
	donations sdkmath.Int
	pre       *govView
	preBal    map[string]sdkmath.Int // tracked accounts (bech32) -> FX
	tracked   []string               // bech32, sorted
	preNow    time.Time
	// Violations of the per-type rules (threshold / period / quorum of the message type) are
	// reported once per id and run (the framework lets a run continue behind recorded findings).
	seen map[string]bool
}

func newC15(r *Run) *c15Model {
	m := &c15Model{on: r.Prop == "C15", donations: sdkmath.ZeroInt()}
	w := r.W
	seen := map[string]bool{}
	add := func(a string) {
		if !seen[a] {
			seen[a] = true
			m.tracked = append(m.tracked, a)
		}
	}
	for i := 0; i < r.Cfg.World.Users; i++ {
		add(w.Key("user", i).Bech())
	}
	for i := 0; i < r.Cfg.World.Validators; i++ {
		add(w.Key("val", i).Bech())
	}
	sort.Strings(m.tracked)
	return m
}

func (m *c15Model) fxBal(w *World, ctx sdk.Context, bech string) sdkmath.Int {
	return w.App.BankKeeper.GetBalance(ctx, sdk.MustAccAddressFromBech32(bech), fxtypes.DefaultDenom).Amount
}

func (m *c15Model) before(r *Run, s *Step) {
	if !m.on {
		return
	}
	ctx := r.W.Ctx()
	m.pre = readGovView(r.W, ctx)
	m.preNow = r.W.Now
	m.preBal = map[string]sdkmath.Int{}
	for _, a := range m.tracked {
		m.preBal[a] = m.fxBal(r.W, ctx, a)
	}
}

// gTxEffects: exact FX balance deltas caused by a successful tx of the engine's alphabet.
// dirty = the account's delta cannot be predicted (reward payouts).
func gTxEffects(w *World, t *Tx, inflation bool, add func(bech string, d sdkmath.Int), dirty func(bech string)) {
	signer := gmustAddr(w, t.S).String()
	switch t.K {
	case "g_send":
		if d := t.A.Str("denom"); d == "" || d == fxtypes.DefaultDenom {
			add(signer, t.A.SdkInt("amount").Neg())
			add(gmustAddr(w, t.A.Str("to")).String(), t.A.SdkInt("amount"))
		}
	case "g_delegate":
		add(signer, t.A.SdkInt("amount").Neg())
		if inflation {
			dirty(signer)
		}
	case "g_redelegate":
		if inflation {
			dirty(signer)
		}
	case "g_undelegate", "g_withdraw", "g_migrate":
		dirty(signer)
	case "g_submit":
		add(signer, t.A.SdkInt("deposit").Neg())
	case "g_deposit":
		add(signer, t.A.SdkInt("amount").Neg())
	case "g_fundpool":
		add(signer, t.A.SdkInt("amount").Neg())
	}
}

func init() {
	RegisterTx("g_fundpool", func(w *World, t *Tx) (*Built, error) {
		return &Built{Msgs: []sdk.Msg{gFundPool(w, t)}}, nil
	})
}

func (m *c15Model) check(r *Run, s *Step, o *Outcome) []Violation {
	if !m.on || m.pre == nil {
		return nil
	}
	w := r.W
	ctx := w.Ctx()
	pre, post := m.pre, readGovView(w, ctx)
	var vs []Violation
	bad := func(inv, site, f string, a ...interface{}) { vs = append(vs, gviol(inv, site, f, a...)) }
	later := func(inv, site, f string, a ...interface{}) {
		v := gviol(inv, site, f, a...)
		if m.seen == nil {
			m.seen = map[string]bool{}
		}
		if !m.seen[v.ID()] {
			m.seen[v.ID()] = true
			vs = append(vs, v)
		}
	}
	inflation := !r.Cfg.World.NoInflation

	// ---- per-tx bookkeeping: balance effects, donations, running deposit totals
	effects := map[string]sdkmath.Int{}
	dirtySet := map[string]bool{}
	add := func(a string, d sdkmath.Int) {
		if cur, ok := effects[a]; ok {
			effects[a] = cur.Add(d)
		} else {
			effects[a] = d
		}
	}
	running := map[uint64]sdkmath.Int{} // proposal -> total deposit after the txs so far
	for id, p := range pre.Props {
		running[id] = p.Total
	}
	activatedAt := map[uint64]sdkmath.Int{} // total deposit at the tx that started the voting period
	txVotes := map[uint64]map[string]govv1.WeightedVoteOptions{}
	govAddr := gmustAddr(w, "mod:gov").String()
	if o != nil {
		for i := range o.Txs {
			t := o.Txs[i]
			if t.Tx != nil && t.Built && !t.Res.OK() && t.Tx.K == "g_submit" && t.Tx.A.Bool("mixed") {
				r.Probe("c15-mixed-types-rejected")
			}
			if t.Tx == nil || !t.Res.OK() {
				continue
			}
			gTxEffects(w, t.Tx, inflation, add, func(a string) { dirtySet[a] = true })
			switch t.Tx.K {
			case "g_send":
				if to := gmustAddr(w, t.Tx.A.Str("to")).String(); to == govAddr && (t.Tx.A.Str("denom") == "" || t.Tx.A.Str("denom") == fxtypes.DefaultDenom) {
					m.donations = m.donations.Add(t.Tx.A.SdkInt("amount"))
					r.Probe("c15-donation")
				}
			case "g_submit":
				var id uint64
				if ids := t.Res.EventAttr("submit_proposal", "proposal_id"); len(ids) > 0 {
					fmt.Sscan(ids[0], &id)
				}
				running[id] = t.Tx.A.SdkInt("deposit")
				if len(t.Res.EventAttr("submit_proposal", "voting_period_start")) > 0 {
					activatedAt[id] = running[id]
				}
				if t.Tx.A.Bool("mixed") {
					bad("one-message-type", "submit/mixed-types-accepted", "proposal %d with messages of different types was accepted (%s)", id, t.Tx.A.Str("spec"))
				}
			case "g_deposit":
				id := t.Tx.A.U64("id")
				if cur, ok := running[id]; ok {
					running[id] = cur.Add(t.Tx.A.SdkInt("amount"))
				}
				if len(t.Res.EventAttr("proposal_deposit", "voting_period_start")) > 0 {
					activatedAt[id] = running[id]
				}
			case "g_vote":
				id := t.Tx.A.U64("id")
				if txVotes[id] == nil {
					txVotes[id] = map[string]govv1.WeightedVoteOptions{}
				}
				txVotes[id][gmustAddr(w, t.Tx.S).String()] = gParseOpts(t.Tx.A.Str("opts"))
			}
		}
	}

	// ---- conservation: module balance == stored deposits (+ tracked donations) == sum of TotalDeposit of open proposals
	sumDeposits, sumOpen := sdkmath.ZeroInt(), sdkmath.ZeroInt()
	for _, id := range post.IDs {
		p := post.Props[id]
		pd := sdkmath.ZeroInt()
		for _, a := range sortedKeysG(p.Deposits) {
			pd = pd.Add(p.Deposits[a])
		}
		sumDeposits = sumDeposits.Add(pd)
		if p.Open() {
			sumOpen = sumOpen.Add(p.Total)
			if !pd.Equal(p.Total) {
				bad("deposit-conservation", "proposal/total-vs-deposits", "proposal %d (%s): TotalDeposit %s but stored deposits sum to %s", id, p.Status, p.Total, pd)
			}
		} else if pd.IsPositive() {
			bad("deposit-conservation", "proposal/closed-with-deposits", "proposal %d is %s but still has %s of stored deposits", id, p.Status, pd)
		}
		if ts := uniqStrings(p.Types); len(ts) > 1 {
			bad("one-message-type", "stored-proposal/mixed-types", "proposal %d carries message types %v", id, ts)
		}
	}
	govFX := post.GovBal.AmountOf(fxtypes.DefaultDenom)
	if !govFX.Equal(sumDeposits.Add(m.donations)) {
		bad("deposit-conservation", "gov-account/balance-vs-deposits", "gov module account holds %s, stored deposits %s + tracked donations %s", govFX, sumDeposits, m.donations)
	}
	if !sumDeposits.Equal(sumOpen) {
		bad("deposit-conservation", "gov-store/deposits-vs-open-totals", "stored deposits %s, TotalDeposit of open proposals %s", sumDeposits, sumOpen)
	}

	// ---- transitions
	ids := map[uint64]bool{}
	for id := range pre.Props {
		ids[id] = true
	}
	for id := range post.Props {
		ids[id] = true
	}
	var all []uint64
	for id := range ids {
		all = append(all, id)
	}
	sort.Slice(all, func(i, j int) bool { return all[i] < all[j] })
	var ends []c15End
	for _, id := range all {
		a, b := pre.Props[id], post.Props[id]
		// the voting window of a proposal is fixed when voting starts, and a decided proposal stays decided
		if a != nil && b != nil {
			if a.Expedited && !b.Expedited {
				r.Probe("c15-expedited-converted-to-regular") // the SDK extends the window of a failed expedited proposal
			} else if a.VStart != nil && a.VEnd != nil && (b.VStart == nil || b.VEnd == nil || !a.VStart.Equal(*b.VStart) || !a.VEnd.Equal(*b.VEnd)) {
				later("voting-period", "window-changed-after-activation", "proposal %d (%s): voting window %v..%v changed to %v..%v after voting had started", id, a.Type(), a.VStart, a.VEnd, b.VStart, b.VEnd)
			}
			final := func(st govv1.ProposalStatus) bool {
				return st == govv1.StatusPassed || st == govv1.StatusRejected || st == govv1.StatusFailed
			}
			if final(a.Status) && a.Status != b.Status {
				later("outcome-final", "status-changed-after-decision", "proposal %d (%s) was %s and is now %s", id, a.Type(), a.Status, b.Status)
			}
		}
		wasDeposit := a == nil || a.Status == govv1.StatusDepositPeriod
		// activation
		if b != nil && wasDeposit && b.Status != govv1.StatusDepositPeriod && b.VStart != nil {
			r.Nontrivial = true
			r.Probe("c15-activated")
			req := gRequired(b, pre.Params, pre.Custom)
			at, ok := activatedAt[id]
			if !ok {
				at = running[id] // no attribution possible: total after all deposits of the step
			}
			r.State(fmt.Sprintf("act:%s:%v", shortType(b.Type()), sdkmath.LegacyNewDecFromInt(at).GTE(req)))
			if sdkmath.LegacyNewDecFromInt(at).LT(req.TruncateDec()) {
				// one site per cause, not per message type: the share rule of spends vs. the plain minimum
				site := "activation/below-default-minimum"
				if _, isSpend := b.SpendTotal(); isSpend && at.GTE(gRequired(&gProp{Expedited: b.Expedited}, pre.Params, nil).TruncateInt()) {
					site = "activation/spend-share-ignored"
				}
				later("activation-threshold", site, "proposal %d (%s) entered voting with total deposit %s, required for its type: %s (default min %s)", id, b.Type(), at, req, sdk.NewCoins(pre.Params.MinDeposit...))
			}
			// voting period of its type at activation
			var want *time.Duration
			cp, hasCustom := pre.Custom[b.Type()]
			switch {
			case hasCustom && b.Expedited:
				want = nil // ambiguous: not judged
			case hasCustom:
				want = cp.VotingPeriod
			case b.Expedited:
				want = pre.Params.ExpeditedVotingPeriod
			default:
				want = pre.Params.VotingPeriod
			}
			// an expedited proposal that failed within the same step was converted: not judged
			if want != nil && b.VEnd != nil && (a == nil || a.Expedited == b.Expedited) && !(a == nil && !b.Open()) {
				got := b.VEnd.Sub(*b.VStart)
				r.State(fmt.Sprintf("period:%s:custom=%v", shortType(b.Type()), hasCustom))
				if got != *want {
					site := "activation/wrong-period"
					if hasCustom && got == *pre.Params.VotingPeriod {
						site = "activation/custom-period-of-type-ignored"
					}
					later("voting-period", site, "proposal %d (%s): voting period %s, configured for its type at activation: %s (custom params present: %v, default %s)", id, b.Type(), got, *want, hasCustom, *pre.Params.VotingPeriod)
				}
			}
			if b.VStart.Before(m.preNow) || b.VStart.After(w.Now) {
				bad("voting-period", "activation/start-time", "proposal %d: voting start %s outside the step (%s, %s]", id, b.VStart, m.preNow, w.Now)
			}
		}
		// end of life
		wasOpen := a == nil || a.Open()
		if wasOpen && (b == nil || !b.Open()) && !(a == nil && b == nil) {
			last := a
			if last == nil {
				last = b
			}
			e := c15End{p: last, deposits: map[string]sdkmath.Int{}, total: running[id], status: "DELETED"}
			if b != nil {
				e.status = strings.TrimPrefix(b.Status.String(), "PROPOSAL_STATUS_")
				e.p = b
				if a != nil {
					e.p.Votes = a.Votes
				}
			}
			if a != nil {
				for k, v := range a.Deposits {
					e.deposits[k] = v
				}
			}
			ends = append(ends, e)
		}
	}
	// deposits made in this very step to proposals that ended in it
	if o != nil {
		for i := range o.Txs {
			t := o.Txs[i]
			if t.Tx == nil || !t.Res.OK() {
				continue
			}
			var id uint64
			var amt sdkmath.Int
			switch t.Tx.K {
			case "g_deposit":
				id, amt = t.Tx.A.U64("id"), t.Tx.A.SdkInt("amount")
			case "g_submit":
				if l := t.Res.EventAttr("submit_proposal", "proposal_id"); len(l) > 0 {
					fmt.Sscan(l[0], &id)
				}
				amt = t.Tx.A.SdkInt("deposit")
			default:
				continue
			}
			for ei := range ends {
				if ends[ei].p.ID == id && amt.IsPositive() {
					a := gmustAddr(w, t.Tx.S).String()
					if cur, ok := ends[ei].deposits[a]; ok {
						ends[ei].deposits[a] = cur.Add(amt)
					} else {
						ends[ei].deposits[a] = amt
					}
				}
			}
		}
	}

	// ---- refund or burn, exactly once: residual balance deltas must be explained by a
	// refund/burn assignment of the proposals that ended in this step
	residual := map[string]sdkmath.Int{}
	for _, a := range m.tracked {
		if dirtySet[a] {
			continue
		}
		d := m.fxBal(w, ctx, a).Sub(m.preBal[a])
		if e, ok := effects[a]; ok {
			d = d.Sub(e)
		}
		residual[a] = d
	}
	supplyDelta := post.Supply.Sub(pre.Supply)
	if len(ends) > 0 {
		r.Nontrivial = true
	}
	if len(ends) <= 10 {
		found := false
		var fate int
		for mask := 0; mask < 1<<len(ends) && !found; mask++ { // bit set = refunded
			exp := map[string]sdkmath.Int{}
			burned := sdkmath.ZeroInt()
			for i, e := range ends {
				if mask&(1<<i) != 0 {
					for a, v := range e.deposits {
						if cur, ok := exp[a]; ok {
							exp[a] = cur.Add(v)
						} else {
							exp[a] = v
						}
					}
				} else {
					for _, v := range e.deposits {
						burned = burned.Add(v)
					}
				}
			}
			ok := true
			for _, a := range m.tracked {
				if dirtySet[a] {
					continue
				}
				want := sdkmath.ZeroInt()
				if v, has := exp[a]; has {
					want = v
				}
				if !residual[a].Equal(want) {
					ok = false
					break
				}
			}
			if ok && !inflation && !supplyDelta.Equal(burned.Neg()) {
				ok = false
			}
			if ok {
				found, fate = true, mask
			}
		}
		if !found {
			var sb strings.Builder
			for _, e := range ends {
				fmt.Fprintf(&sb, " proposal %d -> %s deposits %v;", e.p.ID, e.status, fmtAmounts(e.deposits))
			}
			site := "proposal-end/refund-or-burn"
			if len(ends) == 0 {
				site = "no-proposal-ended/balance-drift"
			}
			bad("deposit-exactly-once", site, "no refund/burn assignment explains the step: residual balance deltas %v, supply delta %s (inflation=%v);%s", fmtAmounts(nonZero(residual)), supplyDelta, inflation, sb.String())
		} else {
			for i, e := range ends {
				f := "burn"
				if fate&(1<<i) != 0 {
					f = "refund"
				}
				if len(e.deposits) > 0 {
					r.Probe("c15-end-" + strings.ToLower(e.status) + "-" + f)
					r.State("end:" + e.status + ":" + f)
				}
			}
		}
	}

	// ---- quorum of its type (one-directional: turnout < quorum => not passed) and atomicity
	for _, e := range ends {
		st := e.status
		if st != "PASSED" && st != "FAILED" && st != "REJECTED" {
			continue
		}
		p := e.p
		votes := map[string]govv1.WeightedVoteOptions{}
		for a, v := range p.Votes {
			votes[a] = v
		}
		for a, v := range txVotes[p.ID] {
			votes[a] = v
		}
		turnout, ok := gTurnout(w, ctx, votes)
		if ok {
			q := func(params govv1.Params, custom map[string]fxgovtypes.CustomParams) sdkmath.LegacyDec {
				s := params.Quorum
				if cp, has := custom[p.Type()]; has {
					s = cp.Quorum
				}
				d, err := sdkmath.LegacyNewDecFromStr(s)
				if err != nil {
					return sdkmath.LegacyZeroDec()
				}
				return d
			}
			quorum := sdkmath.LegacyMinDec(q(pre.Params, pre.Custom), q(post.Params, post.Custom))
			// proposals that ended earlier in the same step may have set (or removed) the custom params of this
			// type before this one was tallied: every value that was in force at some point bounds the quorum
			for _, e2 := range ends {
				if e2.status != "PASSED" || e2.p == nil || e2.p.ID == p.ID {
					continue
				}
				for _, m2 := range e2.p.Msgs {
					if cm, ok := m2.(*fxgovtypes.MsgUpdateCustomParams); ok && cm.MsgUrl == p.Type() {
						qs := cm.CustomParams.Quorum
						if qs == "" {
							qs = pre.Params.Quorum
						}
						if d, err := sdkmath.LegacyNewDecFromStr(qs); err == nil {
							quorum = sdkmath.LegacyMinDec(quorum, d)
							r.Probe("c15-quorum-set-by-proposal-of-the-same-step")
						}
					}
				}
			}
			_, hasCustom := pre.Custom[p.Type()]
			r.Probe("c15-tally")
			r.State(fmt.Sprintf("tally:%s:custom=%v:below=%v:%s", shortType(p.Type()), hasCustom, turnout.LT(quorum), st))
			eps := sdkmath.LegacyNewDecWithPrec(1, 9)
			if (st == "PASSED" || st == "FAILED") && turnout.Add(eps).LT(quorum) {
				site := "tally/below-default-quorum"
				if dq, err := sdkmath.LegacyNewDecFromStr(pre.Params.Quorum); err == nil && hasCustom && turnout.GTE(dq) {
					site = "tally/custom-quorum-of-type-ignored"
				}
				later("quorum-of-type", site, "proposal %d (%s) passed the tally with turnout %s below the quorum %s configured for its type (default quorum %s, custom params present: %v)", p.ID, p.Type(), turnout, quorum, pre.Params.Quorum, hasCustom)
			}
		}
		if st == "PASSED" || st == "FAILED" {
			vs = append(vs, m.atomicity(r, p, st, ends, pre, post)...)
		}
	}
	return vs
}

// c15End is a proposal that left the open states in the current step.
type c15End struct {
	p        *gProp // last view of it (post if it still exists, else pre)
	deposits map[string]sdkmath.Int
	total    sdkmath.Int
	status   string
}

// atomicity: every uniquely marked target of a passed proposal changed; none of a failed one.
// Targets touched by another proposal that ended in the same step are not judged.
func (m *c15Model) atomicity(r *Run, p *gProp, status string, ends []c15End, pre, post *govView) []Violation {
	w := r.W
	ctx := w.Ctx()
	var vs []Violation
	targetOf := func(msg sdk.Msg) string {
		switch mm := msg.(type) {
		case *cctypes.MsgUpdateParams:
			return "ccparams/" + mm.ChainName
		case *erc20types.MsgUpdateParams:
			return "erc20params"
		case *fxgovtypes.MsgUpdateStore:
			var ks []string
			for _, u := range mm.UpdateStores {
				ks = append(ks, u.Space+"/"+u.Key)
			}
			return "store/" + strings.Join(ks, "+")
		}
		return ""
	}
	contested := map[string]int{}
	for _, e := range ends {
		for _, msg := range e.p.Msgs {
			if t := targetOf(msg); t != "" {
				for _, part := range strings.Split(strings.TrimPrefix(t, "store/"), "+") {
					contested[part]++
				}
			}
		}
	}
	applied, notApplied := 0, 0
	var detail []string
	judge := func(name string, isApplied bool) {
		if isApplied {
			applied++
		} else {
			notApplied++
		}
		detail = append(detail, fmt.Sprintf("%s applied=%v", name, isApplied))
	}
	for i, msg := range p.Msgs {
		switch mm := msg.(type) {
		case *distrMsgSpend:
			rc := sdk.MustAccAddressFromBech32(mm.Recipient)
			bal := w.App.BankKeeper.GetBalance(ctx, rc, fxtypes.DefaultDenom).Amount
			judge(fmt.Sprintf("msg%d spend", i), bal.Equal(mm.Amount.AmountOf(fxtypes.DefaultDenom)) && bal.IsPositive())
			if !bal.IsZero() && !bal.Equal(mm.Amount.AmountOf(fxtypes.DefaultDenom)) {
				vs = append(vs, gviol("all-or-nothing", "execution/spend-amount", "proposal %d msg %d: recipient holds %s, requested %s", p.ID, i, bal, mm.Amount))
			}
		case *cctypes.MsgUpdateParams:
			if contested[strings.TrimPrefix(targetOf(msg), "store/")] > 1 {
				continue
			}
			if k, ok := gccKeeper(w, mm.ChainName); ok {
				judge(fmt.Sprintf("msg%d ccparams/%s", i, mm.ChainName), k.GetParams(ctx).SignedWindow == mm.Params.SignedWindow)
			}
		case *erc20types.MsgUpdateParams:
			if contested["erc20params"] > 1 {
				continue
			}
			judge(fmt.Sprintf("msg%d erc20params", i), w.App.Erc20Keeper.GetParams(ctx).IbcTimeout == mm.Params.IbcTimeout)
		case *fxgovtypes.MsgUpdateStore:
			for j, u := range mm.UpdateStores {
				if contested[u.Space+"/"+u.Key] > 1 {
					continue
				}
				judge(fmt.Sprintf("msg%d store[%d]", i, j), gstoreGet(w, u.Space, u.Key) == u.Value)
			}
		}
	}
	if applied+notApplied == 0 {
		return vs
	}
	r.Probe(fmt.Sprintf("c15-atomicity-%s-msgs%d", strings.ToLower(status), len(p.Msgs)))
	switch {
	case status == "PASSED" && notApplied > 0:
		vs = append(vs, gviol("all-or-nothing", "execution/passed-but-not-all-applied", "proposal %d PASSED: %s", p.ID, strings.Join(detail, "; ")))
	case status == "FAILED" && applied > 0:
		vs = append(vs, gviol("all-or-nothing", "execution/failed-but-partly-applied", "proposal %d FAILED: %s", p.ID, strings.Join(detail, "; ")))
	}
	return vs
}

func gParseOpts(s string) govv1.WeightedVoteOptions {
	var out govv1.WeightedVoteOptions
	for _, p := range strings.Split(s, "|") {
		var o int
		wt := "1"
		if i := strings.Index(p, ":"); i > 0 {
			fmt.Sscan(p[:i], &o)
			wt = p[i+1:]
		} else {
			fmt.Sscan(p, &o)
		}
		out = append(out, &govv1.WeightedVoteOption{Option: govv1.VoteOption(o), Weight: wt})
	}
	return out
}

// gTurnout recomputes the share of bonded stake that took part in a vote from the staking
// records: voters' delegations to bonded validators plus, for validators whose operator
// voted, the shares not overridden by voting delegators.
func gTurnout(w *World, ctx sdk.Context, votes map[string]govv1.WeightedVoteOptions) (sdkmath.LegacyDec, bool) {
	sk := w.App.StakingKeeper
	total, err := sk.TotalBondedTokens(ctx)
	if err != nil || !total.IsPositive() {
		return sdkmath.LegacyZeroDec(), false
	}
	type vinfo struct {
		tokens     sdkmath.Int
		shares     sdkmath.LegacyDec
		deductions sdkmath.LegacyDec
	}
	vals := map[string]*vinfo{}
	_ = sk.IterateBondedValidatorsByPower(ctx, func(_ int64, v stakingtypes.ValidatorI) bool {
		vals[v.GetOperator()] = &vinfo{tokens: v.GetBondedTokens(), shares: v.GetDelegatorShares(), deductions: sdkmath.LegacyZeroDec()}
		return false
	})
	power := sdkmath.LegacyZeroDec()
	for _, voter := range sortedKeysG(votes) {
		addr := sdk.MustAccAddressFromBech32(voter)
		_ = sk.IterateDelegations(ctx, addr, func(_ int64, d stakingtypes.DelegationI) bool {
			if v, ok := vals[d.GetValidatorAddr()]; ok && v.shares.IsPositive() {
				v.deductions = v.deductions.Add(d.GetShares())
				power = power.Add(d.GetShares().MulInt(v.tokens).Quo(v.shares))
			}
			return false
		})
	}
	for _, op := range sortedKeysG(vals) {
		v := vals[op]
		va, err := sdk.ValAddressFromBech32(op)
		if err != nil {
			continue
		}
		if _, voted := votes[sdk.AccAddress(va).String()]; voted && v.shares.IsPositive() {
			power = power.Add(v.shares.Sub(v.deductions).MulInt(v.tokens).Quo(v.shares))
		}
	}
	return power.Quo(sdkmath.LegacyNewDecFromInt(total)), true
}

func shortType(url string) string {
	if url == "" {
		return "text"
	}
	if i := strings.LastIndex(url, "."); i >= 0 {
		// keep the module so that the three MsgUpdateParams stay distinct
		parts := strings.Split(strings.TrimPrefix(url, "/"), ".")
		if len(parts) >= 3 {
			return parts[len(parts)-3] + "." + parts[len(parts)-1]
		}
		return url[i+1:]
	}
	return url
}

func uniqStrings(l []string) []string {
	seen := map[string]bool{}
	var out []string
	for _, s := range l {
		if !seen[s] {
			seen[s] = true
			out = append(out, s)
		}
	}
	sort.Strings(out)
	return out
}

func nonZero(m map[string]sdkmath.Int) map[string]sdkmath.Int {
	out := map[string]sdkmath.Int{}
	for k, v := range m {
		if !v.IsZero() {
			out[k] = v
		}
	}
	return out
}

func fmtAmounts(m map[string]sdkmath.Int) string {
	var sb strings.Builder
	sb.WriteString("{")
	for i, k := range sortedKeysG(m) {
		if i > 0 {
			sb.WriteString(" ")
		}
		short := k
		if len(short) > 10 {
			short = short[len(short)-6:]
		}
		fmt.Fprintf(&sb, "%s:%s", short, m[k])
	}
	sb.WriteString("}")
	return sb.String()
}

type distrMsgSpend = distrtypes.MsgCommunityPoolSpend

func gFundPool(w *World, t *Tx) sdk.Msg {
	return distrtypes.NewMsgFundCommunityPool(sdk.NewCoins(sdk.NewCoin(fxtypes.DefaultDenom, t.A.SdkInt("amount"))), gmustAddr(w, t.S).String())
}
