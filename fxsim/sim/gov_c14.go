package sim

import (
	"bytes"
	"fmt"
	"sort"
	"strings"
	"time"

	sdkmath "cosmossdk.io/math"
	sdk "github.com/cosmos/cosmos-sdk/types"
	authtypes "github.com/cosmos/cosmos-sdk/x/auth/types"
	vestexported "github.com/cosmos/cosmos-sdk/x/auth/vesting/exported"
	distrkeeper "github.com/cosmos/cosmos-sdk/x/distribution/keeper"
	distrtypes "github.com/cosmos/cosmos-sdk/x/distribution/types"
	stakingkeeper "github.com/cosmos/cosmos-sdk/x/staking/keeper"
	stakingtypes "github.com/cosmos/cosmos-sdk/x/staking/types"

	fxtypes "github.com/functionx/fx-core/v8/types"
	migratetypes "github.com/functionx/fx-core/v8/x/migrate/types"
)

// ---------------------------------------------------------------------------------------
// C14 model

type c14Pair struct {
	From, To   string // key names
	FromAddr   sdk.AccAddress
	ToAddr     sdk.AccAddress
	GovAtStart bool      // source or target was involved in an open proposal when it was accepted
	SrcBal     sdk.Coins // source balances right after the migration
}

type c14Judge struct { // computed on the pre-state for one g_migrate tx of the step
	txIdx      int
	from, to   string
	mustRefuse []string // reasons named by the property
	legit      []string // refusals that may happen but are not demanded
	branchOK   bool     // accepted by the handler on a branch
	gov        bool
}

type c14Model struct {
	pairs   []c14Pair
	used    map[string]bool // address bytes (as string) that took part in an accepted migration
	judges  []c14Judge
	pending []Violation // raised since the last Check (once per id and run)
	seen    map[string]bool
	baseInv map[string]bool // invariants already broken at init (ignored)
	// generator memory
	nextTgt  int
	funded   []string // target keys that hold funds
	legVal   map[int]bool
	opTgt    bool
	extraLeg []int // legacy keys created during the run (vesting accounts made by MsgCreateVestingAccount)
}

func newC14(r *Run) *c14Model {
	c := &c14Model{used: map[string]bool{}, baseInv: map[string]bool{}, legVal: map[int]bool{}}
	for _, b := range c14Invariants(r.W, r.W.Branch()) {
		c.baseInv[b] = true
		r.Probe("c14-invariant-broken-at-init:" + b)
	}
	return c
}

// later records a violation once per id and run; Check / Finish hand them to the framework
// (which lets a run continue behind findings recorded in known_findings.jsonl).
func (c *c14Model) later(r *Run, inv, site, f string, a ...interface{}) {
	v := gviol(inv, site, f, a...)
	if c.seen == nil {
		c.seen = map[string]bool{}
	}
	if !c.seen[v.ID()] {
		c.seen[v.ID()] = true
		c.pending = append(c.pending, v)
	}
}

func (c *c14Model) flush() []Violation {
	vs := c.pending
	c.pending = nil
	return vs
}

// ---------------------------------------------------------------------------------------
// portfolios

type c14Portfolio struct {
	Bal     sdk.Coins
	Staking []string          // canonical lines of delegations / unbonding / redelegation entries (without the owner)
	Rewards map[string]string // validator -> pending rewards
}

func c14Read(w *World, ctx sdk.Context, addr sdk.AccAddress) *c14Portfolio {
	sk := w.App.StakingKeeper
	p := &c14Portfolio{Bal: w.App.BankKeeper.GetAllBalances(ctx, addr), Rewards: map[string]string{}}
	dels, _ := sk.GetDelegatorDelegations(ctx, addr, 1000)
	q := distrkeeper.NewQuerier(w.App.DistrKeeper)
	for _, d := range dels {
		p.Staking = append(p.Staking, fmt.Sprintf("del %s shares=%s", d.ValidatorAddress, d.Shares))
		func() {
			defer func() {
				if rec := recover(); rec != nil {
					p.Rewards[d.ValidatorAddress] = fmt.Sprintf("panic: %v", rec)
				}
			}()
			res, err := q.DelegationRewards(ctx, &distrtypes.QueryDelegationRewardsRequest{DelegatorAddress: addr.String(), ValidatorAddress: d.ValidatorAddress})
			if err != nil {
				p.Rewards[d.ValidatorAddress] = "error: " + err.Error()
			} else {
				p.Rewards[d.ValidatorAddress] = res.Rewards.String()
			}
		}()
	}
	ubds, _ := sk.GetUnbondingDelegations(ctx, addr, 1000)
	for _, u := range ubds {
		for _, e := range u.Entries {
			p.Staking = append(p.Staking, fmt.Sprintf("ubd %s h=%d t=%s init=%s bal=%s id=%d hold=%d", u.ValidatorAddress, e.CreationHeight, e.CompletionTime.UTC().Format(time.RFC3339Nano), e.InitialBalance, e.Balance, e.UnbondingId, e.UnbondingOnHoldRefCount))
		}
	}
	reds, _ := sk.GetRedelegations(ctx, addr, 1000)
	for _, rd := range reds {
		for _, e := range rd.Entries {
			p.Staking = append(p.Staking, fmt.Sprintf("red %s>%s h=%d t=%s init=%s shares=%s id=%d hold=%d", rd.ValidatorSrcAddress, rd.ValidatorDstAddress, e.CreationHeight, e.CompletionTime.UTC().Format(time.RFC3339Nano), e.InitialBalance, e.SharesDst, e.UnbondingId, e.UnbondingOnHoldRefCount))
		}
	}
	sort.Strings(p.Staking)
	return p
}

func (p *c14Portfolio) hasStaking() bool { return len(p.Staking) > 0 }

func (p *c14Portfolio) shape() string {
	n := map[string]int{}
	for _, l := range p.Staking {
		n[l[:3]]++
	}
	return fmt.Sprintf("denoms%d/del%d/ubd%d/red%d", len(p.Bal), n["del"], n["ubd"], n["red"])
}

// c14Totals: quantities a migration must not change.
func c14Totals(w *World, ctx sdk.Context) []string {
	var out []string
	w.App.BankKeeper.IterateTotalSupply(ctx, func(c sdk.Coin) bool {
		out = append(out, "supply "+c.String())
		return false
	})
	vals, _ := w.App.StakingKeeper.GetAllValidators(ctx)
	for _, v := range vals {
		out = append(out, fmt.Sprintf("val %s tokens=%s shares=%s status=%s", v.OperatorAddress, v.Tokens, v.DelegatorShares, v.Status))
	}
	for _, m := range []string{stakingtypes.BondedPoolName, stakingtypes.NotBondedPoolName, distrtypes.ModuleName, "gov"} {
		out = append(out, fmt.Sprintf("pool %s %s", m, w.App.BankKeeper.GetAllBalances(ctx, authtypes.NewModuleAddress(m))))
	}
	if fp, err := w.App.DistrKeeper.FeePool.Get(ctx); err == nil {
		out = append(out, "community "+fp.CommunityPool.String())
	}
	sort.Strings(out)
	return out
}

// c14Invariants runs every registered crisis invariant on ctx and returns the broken ones.
func c14Invariants(w *World, ctx sdk.Context) []string {
	var broken []string
	for _, ir := range w.App.CrisisKeeper.Routes() {
		name := ir.ModuleName + "/" + ir.Route
		func() {
			defer func() {
				if rec := recover(); rec != nil {
					broken = append(broken, name+" (panic)")
				}
			}()
			cc, _ := ctx.CacheContext()
			if _, stop := ir.Invar(cc); stop {
				broken = append(broken, name)
			}
		}()
	}
	return broken
}

// c14Residue scans the staking, distribution and bank stores for the address (raw bytes or
// bech32 text) in any key or value. Result: "store/0x<first key byte>" -> count.
func c14Residue(d Dump, addr sdk.AccAddress) map[string]int {
	out := map[string]int{}
	raw, txt := addr.Bytes(), []byte(addr.String())
	for _, store := range []string{"staking", "distribution", "bank"} {
		for k, v := range d[store] {
			kb := []byte(k)
			if bytes.Contains(kb, raw) || bytes.Contains(v, raw) || bytes.Contains(v, txt) || bytes.Contains(kb, txt) {
				out[fmt.Sprintf("%s/0x%02x", store, kb[0])]++
			}
		}
	}
	return out
}

// c14GovInvolvement lists the roles addr has in proposals that are still open.
func c14GovInvolvement(v *govView, addr sdk.AccAddress) []string {
	var out []string
	a := addr.String()
	for _, id := range v.IDs {
		p := v.Props[id]
		if !p.Open() {
			continue
		}
		stage := "deposit-period"
		if p.Status.String() == "PROPOSAL_STATUS_VOTING_PERIOD" {
			stage = "voting-period"
		}
		if p.Proposer == a {
			out = append(out, "proposer/"+stage)
		}
		if _, ok := p.Deposits[a]; ok {
			out = append(out, "depositor/"+stage)
		}
		if _, ok := p.Votes[a]; ok {
			out = append(out, "voter/"+stage)
		}
	}
	return out
}

// ---------------------------------------------------------------------------------------
// before: judge every migrate tx of the step on the pre-state (and on a branch)

func (c *c14Model) before(r *Run, s *Step) {
	c.judges = nil
	if s.Kind != "block" {
		return
	}
	w := r.W
	for i := range s.Txs {
		t := &s.Txs[i]
		if t.K != "g_migrate" {
			continue
		}
		func() {
			defer func() {
				if rec := recover(); rec != nil { // malformed key names in an edited replay
					_ = rec
				}
			}()
			c.judges = append(c.judges, c.judge(r, s, i, t))
		}()
	}
	_ = w
}

func (c *c14Model) judge(r *Run, s *Step, idx int, t *Tx) c14Judge {
	w := r.W
	ctx := w.Ctx()
	j := c14Judge{txIdx: idx, from: t.S, to: t.A.Str("to")}
	from := gmustAddr(w, t.S)
	toKey := w.KeyByName(t.A.Str("to"))
	to := toKey.Acc()
	sk := w.App.StakingKeeper
	// --- refusals the property demands
	if c.used[string(from)] {
		j.mustRefuse = append(j.mustRefuse, "source-already-in-a-migration")
	}
	if c.used[string(to)] {
		j.mustRefuse = append(j.mustRefuse, "target-already-in-a-migration")
	}
	if _, err := sk.GetValidator(ctx, sdk.ValAddress(from)); err == nil {
		j.mustRefuse = append(j.mustRefuse, "source-is-validator-operator")
	}
	if _, err := sk.GetValidator(ctx, sdk.ValAddress(to)); err == nil {
		j.mustRefuse = append(j.mustRefuse, "target-is-validator-operator")
	}
	if c14Read(w, ctx, to).hasStaking() {
		j.mustRefuse = append(j.mustRefuse, "target-has-staking-records")
	}
	gv := readGovView(w, ctx)
	for _, role := range uniqStrings(c14GovInvolvement(gv, from)) {
		j.mustRefuse = append(j.mustRefuse, "source-open-proposal-"+role)
		j.gov = true
	}
	for _, role := range uniqStrings(c14GovInvolvement(gv, to)) {
		j.mustRefuse = append(j.mustRefuse, "target-open-proposal-"+role)
		j.gov = true
	}
	switch {
	case t.A.Has("sigkey") && (strings.HasPrefix(t.A.Str("sigkey"), "leg/") || !bytes.Equal(w.KeyByName(t.A.Str("sigkey")).Acc(), to)):
		j.mustRefuse = append(j.mustRefuse, "signature-by-another-key")
	case t.A.Has("sigfrom") && t.A.Has("sigto") && bytes.Equal(gmustAddr(w, t.A.Str("sigfrom")), to) && bytes.Equal(gmustAddr(w, t.A.Str("sigto")), from):
		j.mustRefuse = append(j.mustRefuse, "signature-over-swapped-pair")
	case t.A.Has("sigfrom") && !bytes.Equal(gmustAddr(w, t.A.Str("sigfrom")), from), t.A.Has("sigto") && !bytes.Equal(gmustAddr(w, t.A.Str("sigto")), to):
		j.mustRefuse = append(j.mustRefuse, "signature-over-another-pair")
	}
	// --- refusals that are fine but not demanded
	if acc := w.App.AccountKeeper.GetAccount(ctx, from); acc == nil || acc.GetPubKey() == nil {
		j.legit = append(j.legit, "source-without-public-key")
	} else if acc.GetPubKey().Type() != "secp256k1" {
		j.legit = append(j.legit, "source-key-type")
	}
	if bytes.Equal(from, to) {
		j.legit = append(j.legit, "same-account")
	}
	if len(j.mustRefuse) > 0 || len(j.legit) > 0 {
		return j
	}
	// --- differential execution on a branch (what the handler does to this state)
	built, err := safeBuild(txBuilders["g_migrate"], w, t)
	if err != nil || len(built.Msgs) != 1 {
		return j
	}
	msg := built.Msgs[0].(*migratetypes.MsgMigrateAccount)
	if msg.ValidateBasic() != nil {
		return j
	}
	dt := time.Duration(s.DtMs) * time.Millisecond
	bctx := gAtTime(w.Branch(), w.Now.Add(dt), w.Height+1)
	invBefore := map[string]bool{}
	for _, b := range c14Invariants(w, bctx) {
		invBefore[b] = true
	}
	src0, dst0 := c14Read(w, bctx, from), c14Read(w, bctx, to)
	tot0 := c14Totals(w, bctx)
	idx0 := c14IndexCheck(w, bctx)
	// what a slash of each validator the source has redelegated / unbonded from would do now
	slash0 := map[string]string{}
	for _, l := range src0.Staking {
		f := strings.Fields(l)
		if f[0] == "red" || f[0] == "ubd" {
			va := strings.Split(f[1], ">")[0]
			if _, done := slash0[va]; !done {
				if v, err := c14SlashView(w, bctx, va, from); err == nil {
					slash0[va] = v
				}
			}
		}
	}
	h := w.App.MsgServiceRouter().Handler(msg)
	cc, write := bctx.CacheContext()
	if _, err := safeHandle(h, cc, msg); err != nil {
		r.Probe("c14-branch-refused-valid")
		if va, ok := w.App.AccountKeeper.GetAccount(bctx, from).(vestexported.VestingAccount); ok && !va.LockedCoins(bctx.BlockTime()).IsZero() {
			r.Probe("c14-refused-vesting-source-with-locked-coins")
		}
		return j
	}
	write()
	j.branchOK = true
	r.Probe("c14-branch-accepted")
	r.State("portfolio:" + src0.shape() + "/target-used=" + fmt.Sprint(!dst0.Bal.IsZero()))
	if _, isVesting := w.App.AccountKeeper.GetAccount(bctx, from).(vestexported.VestingAccount); isVesting {
		r.Probe("c14-accepted-vesting-source")
	}
	src1, dst1 := c14Read(w, bctx, from), c14Read(w, bctx, to)
	// portfolio(target) after == portfolio(source) before (+ target's own balances)
	if !dst1.Bal.Equal(src0.Bal.Add(dst0.Bal...)) {
		c.later(r, "portfolio-transfer", "balances", "target holds %s after migration, expected source %s + own %s", dst1.Bal, src0.Bal, dst0.Bal)
	}
	if strings.Join(dst1.Staking, "\n") != strings.Join(src0.Staking, "\n") {
		c.later(r, "portfolio-transfer", "staking-records", "staking records of the target after migration differ from the source's before:\n target: %v\n source: %v", dst1.Staking, src0.Staking)
	}
	for _, val := range sortedKeysG(src0.Rewards) {
		if dst1.Rewards[val] != src0.Rewards[val] {
			c.later(r, "portfolio-transfer", "pending-rewards", "pending rewards at %s: source had %s, target has %s", val, src0.Rewards[val], dst1.Rewards[val])
		}
	}
	if !src1.Bal.IsZero() || src1.hasStaking() {
		c.later(r, "portfolio-transfer", "source-not-empty", "source still holds %s / %v", src1.Bal, src1.Staking)
	}
	if t0, t1 := strings.Join(tot0, "\n"), strings.Join(c14Totals(w, bctx), "\n"); t0 != t1 {
		c.later(r, "totals-unchanged", "migration", "totals changed:\n before: %s\n after: %s", t0, t1)
	}
	// staking indexes consistent in both directions
	idx1 := c14IndexCheck(w, bctx)
	for _, k := range sortedKeysG(idx1) {
		if _, before := idx0[k]; !before {
			c.later(r, "staking-index", k, "after migrating %s (portfolio %s): %s", from, src0.shape(), idx1[k])
		}
	}
	// a late slash of a validator the source redelegated / unbonded from hits the target exactly
	// like it would have hit the source
	for _, va := range sortedKeysG(slash0) {
		r.Probe("c14-slash-differential")
		if v, err := c14SlashView(w, bctx, va, to); err != nil || v != slash0[va] {
			c.later(r, "slash-after-migration", "redelegation-or-unbonding-escapes-slash", "slashing %s for an old infraction: without migration the source would end with [%s], after migration the target ends with [%s] (err=%v)", va, slash0[va], v, err)
		}
	}
	// raw residue
	res := c14Residue(w.DumpCtx(bctx), from)
	for _, k := range sortedKeysG(res) {
		c.later(r, "no-residue", k+" residue", "%d record(s) under %s still contain the source address %s after migration to %s (source portfolio %s)", res[k], k, from, toKey.Hex().Hex(), src0.shape())
	}
	// the by-validator view must show the target, not the source
	sq := stakingkeeper.NewQuerier(w.App.StakingKeeper.Keeper)
	for _, l := range src0.Staking {
		if !strings.HasPrefix(l, "del ") {
			continue
		}
		val := strings.Fields(l)[1]
		res, err := sq.ValidatorDelegations(bctx, &stakingtypes.QueryValidatorDelegationsRequest{ValidatorAddr: val})
		found := false
		if err == nil {
			for _, d := range res.DelegationResponses {
				if d.Delegation.DelegatorAddress == to.String() {
					found = true
				}
			}
		}
		if err != nil || !found {
			c.later(r, "portfolio-transfer", "validator-delegations-query", "after migration the delegations-of-validator query for %s does not list the target (err=%v)", val, err)
		}
	}
	// crisis invariants
	for _, b := range c14Invariants(w, bctx) {
		if !invBefore[b] && !c.baseInv[b] {
			c.later(r, "crisis-invariant", b, "invariant %s is broken after migrating %s (portfolio %s)", b, from, src0.shape())
		}
	}
	// bounded liveness on the branch: the target can withdraw and undelegate, and everything matures to it
	c.branchLiveness(r, bctx, from, to, dst1)
	return j
}

func (c *c14Model) branchLiveness(r *Run, bctx sdk.Context, from, to sdk.AccAddress, dst *c14Portfolio) {
	w := r.W
	sk := w.App.StakingKeeper
	route := func(m sdk.Msg) error {
		cc, write := bctx.CacheContext()
		_, err := safeHandle(w.App.MsgServiceRouter().Handler(m), cc, m)
		if err == nil {
			write()
		}
		return err
	}
	dels, _ := sk.GetDelegatorDelegations(bctx, to, 1000)
	for _, d := range dels {
		if err := route(distrtypes.NewMsgWithdrawDelegatorReward(to.String(), d.ValidatorAddress)); err != nil {
			c.later(r, "liveness-after-migration", "withdraw-rewards", "target cannot withdraw rewards at %s: %v", d.ValidatorAddress, firstLineG(err.Error()))
		}
		va, _ := sdk.ValAddressFromBech32(d.ValidatorAddress)
		val, err := sk.GetValidator(bctx, va)
		if err != nil {
			continue
		}
		amt := val.TokensFromShares(d.Shares).TruncateInt()
		if !amt.IsPositive() {
			continue
		}
		// entries are limited per pair; skip the undelegation when the limit is reached
		if ubd, err := sk.GetUnbondingDelegation(bctx, to, va); err == nil {
			if p, _ := sk.GetParams(bctx); len(ubd.Entries) >= int(p.MaxEntries) {
				continue
			}
		}
		if err := route(stakingtypes.NewMsgUndelegate(to.String(), d.ValidatorAddress, sdk.NewCoin(fxtypes.DefaultDenom, amt))); err != nil {
			c.later(r, "liveness-after-migration", "undelegate", "target cannot undelegate %s from %s: %v", amt, d.ValidatorAddress, firstLineG(err.Error()))
		}
	}
	// everything unbonding now: jump past the unbonding time and run the staking end blocker
	expect := sdkmath.ZeroInt()
	ubds, _ := sk.GetUnbondingDelegations(bctx, to, 1000)
	for _, u := range ubds {
		for _, e := range u.Entries {
			expect = expect.Add(e.Balance)
		}
	}
	unb, _ := sk.UnbondingTime(bctx)
	fctx := gAtTime(bctx, bctx.BlockTime().Add(unb+time.Hour), bctx.BlockHeight()+10)
	bal0 := w.App.BankKeeper.GetBalance(fctx, to, fxtypes.DefaultDenom).Amount
	srcBal0 := w.App.BankKeeper.GetBalance(fctx, from, fxtypes.DefaultDenom).Amount
	var ebErr error
	func() {
		defer func() {
			if rec := recover(); rec != nil {
				ebErr = fmt.Errorf("panic: %v", rec)
			}
		}()
		_, ebErr = sk.EndBlocker(fctx)
	}()
	if ebErr != nil {
		c.later(r, "liveness-after-migration", "maturation/end-blocker-error", "staking end blocker fails after the migration: %v", firstLineG(ebErr.Error()))
		return
	}
	got := w.App.BankKeeper.GetBalance(fctx, to, fxtypes.DefaultDenom).Amount.Sub(bal0)
	left, _ := sk.GetUnbondingDelegations(fctx, to, 1000)
	leftRed, _ := sk.GetRedelegations(fctx, to, 1000)
	if len(left) > 0 || len(leftRed) > 0 || !got.Equal(expect) {
		c.later(r, "liveness-after-migration", "maturation/not-to-target", "after the unbonding time the target received %s of %s unbonding; %d unbonding and %d redelegation records did not mature (source received %s)", got, expect, len(left), len(leftRed),
			w.App.BankKeeper.GetBalance(fctx, from, fxtypes.DefaultDenom).Amount.Sub(srcBal0))
	} else if expect.IsPositive() {
		r.Probe("c14-branch-matured-to-target")
	}
}

// gAtTime moves a (branch) context to another block time / height. The SDK keeps the time
// twice (cometbft header and core header info; the staking queues read the latter).
func gAtTime(ctx sdk.Context, t time.Time, h int64) sdk.Context {
	hi := ctx.HeaderInfo()
	hi.Time, hi.Height = t.UTC(), h
	return ctx.WithBlockTime(t).WithBlockHeight(h).WithHeaderInfo(hi)
}

func firstLineG(s string) string {
	if i := strings.Index(s, "\n"); i >= 0 {
		s = s[:i]
	}
	if len(s) > 200 {
		s = s[:200]
	}
	return s
}

// ---------------------------------------------------------------------------------------
// check (after the step)

func (c *c14Model) check(r *Run, s *Step, o *Outcome) []Violation {
	w := r.W
	ctx := w.Ctx()
	if o != nil {
		for _, j := range c.judges {
			if j.txIdx >= len(o.Txs) || o.Txs[j.txIdx].Tx == nil || o.Txs[j.txIdx].Tx.K != "g_migrate" {
				continue
			}
			oc := o.Txs[j.txIdx]
			if !oc.Built {
				continue
			}
			ok := oc.Res.OK()
			switch {
			case len(j.mustRefuse) > 0:
				r.Nontrivial = true
				for _, reason := range j.mustRefuse {
					r.Probe("c14-must-refuse:" + reason)
				}
				r.State(fmt.Sprintf("refuse:%s:accepted=%v", j.mustRefuse[0], ok))
				if ok {
					site := j.mustRefuse[0]
					if i := strings.Index(site, "open-proposal-"); i >= 0 { // one site per proposal queue, the role goes into the message
						site = "open-proposal/" + site[strings.LastIndex(site, "/")+1:]
					}
					c.later(r, "refusal", site, "MsgMigrateAccount %s -> %s was accepted although: %s", j.from, j.to, strings.Join(j.mustRefuse, ", "))
				}
			case len(j.legit) > 0:
				r.Probe("c14-legit-refusal:" + j.legit[0])
			case ok:
				r.Nontrivial = true
				r.Probe("c14-accepted")
			default:
				r.Probe("c14-refused-without-demanded-reason")
			}
			if ok {
				from, to := gmustAddr(w, j.from), w.KeyByName(j.to).Acc()
				c.used[string(from)], c.used[string(to)] = true, true
				srcBal := w.App.BankKeeper.GetAllBalances(ctx, from)
				c.pairs = append(c.pairs, c14Pair{From: j.from, To: j.to, FromAddr: from, ToAddr: to, GovAtStart: j.gov, SrcBal: srcBal})
				if !srcBal.IsZero() && !j.gov {
					c.later(r, "portfolio-transfer", "source-not-empty", "source %s still holds %s after the block of its migration", j.from, srcBal)
				}
				// residue in committed state (covers interplay with the other txs of the block)
				res := c14Residue(w.Dump(), from)
				for _, k := range sortedKeysG(res) {
					c.later(r, "no-residue", k+" residue", "%d record(s) under %s still contain the source address %s after the migration block", res[k], k, from)
				}
			}
		}
	}
	// every step: nothing of a migrated target is stuck past its completion time, and
	// nothing matures to a migrated source
	for _, p := range c.pairs {
		c.stuck(r, ctx, p)
	}
	if len(c.pairs) > 0 {
		idx := c14IndexCheck(w, ctx)
		for _, k := range sortedKeysG(idx) {
			c.later(r, "staking-index", k, "committed state after step (with %d migrations so far): %s", len(c.pairs), idx[k])
		}
	}
	return c.flush()
}

func (c *c14Model) stuck(r *Run, ctx sdk.Context, p c14Pair) {
	w := r.W
	sk := w.App.StakingKeeper
	ubds, _ := sk.GetUnbondingDelegations(ctx, p.ToAddr, 1000)
	for _, u := range ubds {
		for _, e := range u.Entries {
			if !e.CompletionTime.After(w.Now) && e.UnbondingOnHoldRefCount == 0 {
				c.later(r, "liveness-after-migration", "maturation/unbonding-entry-stuck", "unbonding entry of migrated target %s at %s completed at %s but is still there at %s", p.To, u.ValidatorAddress, e.CompletionTime, w.Now)
			}
		}
	}
	reds, _ := sk.GetRedelegations(ctx, p.ToAddr, 1000)
	for _, rd := range reds {
		for _, e := range rd.Entries {
			if !e.CompletionTime.After(w.Now) && e.UnbondingOnHoldRefCount == 0 {
				c.later(r, "liveness-after-migration", "maturation/redelegation-entry-stuck", "redelegation entry of migrated target %s completed at %s but is still there at %s", p.To, e.CompletionTime, w.Now)
			}
		}
	}
	if !p.GovAtStart {
		if now := w.App.BankKeeper.GetAllBalances(ctx, p.FromAddr); !now.Equal(p.SrcBal) {
			c.later(r, "liveness-after-migration", "maturation/funds-arrive-at-source", "balance of migrated source %s changed from %s to %s", p.From, p.SrcBal, now)
		}
	}
}

// finish: real continuation after the run: clock past the unbonding time; migrated targets
// withdraw and undelegate; clock again; everything must have matured to the targets.
func (c *c14Model) finish(r *Run) []Violation {
	w := r.W
	if len(c.pairs) > 0 && w.Halt == nil {
		unb := time.Duration(r.Cfg.World.UnbondingSec)*time.Second + time.Minute
		step := func(txs []Tx) bool {
			br := govDeliver(w, txs, unb, 1)
			if br.Halt != nil {
				c.later(r, "liveness-after-migration", "halt/"+br.Halt.Site, "block processing halts after migrations: %s", firstLineG(br.Halt.Msg))
				return false
			}
			for _, oc := range br.Out {
				if oc.Built && !oc.Res.OK() {
					c.later(r, "liveness-after-migration", "target-tx/"+oc.Tx.K, "migrated target %s cannot %s: %s", oc.Tx.S, oc.Tx.K, oc.Res.String())
				}
			}
			return true
		}
		if step(nil) {
			var txs []Tx
			for _, p := range c.pairs {
				c.stuck(r, w.Ctx(), p)
				dels, _ := w.App.StakingKeeper.GetDelegatorDelegations(w.Ctx(), p.ToAddr, 1000)
				for _, d := range dels {
					for vi := range w.Vals {
						if w.Key("val", vi).Val().String() == d.ValidatorAddress {
							va := w.Key("val", vi).Val()
							val, err := w.App.StakingKeeper.GetValidator(w.Ctx(), va)
							if err != nil {
								continue
							}
							amt := val.TokensFromShares(d.Shares).TruncateInt()
							if amt.IsPositive() {
								txs = append(txs, Tx{K: "g_undelegate", S: p.To, A: A("val", vi, "amount", amt.String())})
							}
							break // one undelegation per target and block keeps sequences simple
						}
					}
					break
				}
			}
			if step(txs) && step(nil) {
				for _, p := range c.pairs {
					c.stuck(r, w.Ctx(), p)
				}
				r.Probe("c14-finish-liveness")
				for _, b := range c14Invariants(w, w.Branch()) {
					if !c.baseInv[b] {
						c.later(r, "crisis-invariant", b, "invariant %s is broken at the end of a run with %d migrations", b, len(c.pairs))
					}
				}
			}
		}
	}
	return c.flush()
}

// ---------------------------------------------------------------------------------------
// generator

func (c *c14Model) legNames(r *Run, onlyFresh bool) []string {
	var out []string
	idx := make([]int, 0, gst(r).NLeg+len(c.extraLeg))
	for i := 0; i < gst(r).NLeg; i++ {
		idx = append(idx, i)
	}
	idx = append(idx, c.extraLeg...)
	for _, i := range idx {
		n := KeyName("leg", i)
		if onlyFresh && (c.used[string(gsign(r.W, n).Addr)] || c.legVal[i]) {
			continue
		}
		out = append(out, n)
	}
	return out
}

func (c *c14Model) setupSteps(r *Run) []Step {
	st := gst(r)
	rng := r.Rng
	var first, dels []Tx
	for i := 0; i < st.NLeg; i++ {
		n := KeyName("leg", i)
		if i > 0 && rng.IntN(8) == 0 {
			continue // never signs: no public key on chain (refusal that is not demanded)
		}
		first = append(first, Tx{K: "g_send", S: n, A: A("to", "user/0", "amount", "1")})
		for k := rng.IntN(4); k > 0; k-- {
			dels = append(dels, Tx{K: "g_delegate", S: n, A: A("val", rng.IntN(st.NVal), "amount", FX(int64(100+rng.IntN(50_000))).String())})
		}
	}
	return []Step{{Kind: "block", DtMs: 5000, N: 1, Txs: first}, {Kind: "block", DtMs: 5000, N: 1, Txs: dels}, {Kind: "block", DtMs: 6000, N: 2 + rng.IntN(5)}}
}

// genStake: delegations, unbondings, redelegations and withdrawals by sources, users and
// migrated targets; companions make other delegators share completion times.
func (c *c14Model) genStake(r *Run) (Step, bool) {
	st := gst(r)
	w := r.W
	rng := r.Rng
	var actors []string
	actors = append(actors, c.legNames(r, true)...)
	actors = append(actors, c.legNames(r, true)...) // weight
	for i := 0; i < st.NUser; i++ {
		actors = append(actors, KeyName("user", i))
	}
	for _, p := range c.pairs {
		actors = append(actors, p.To, p.To)
	}
	actors = append(actors, c.funded...)
	if len(actors) == 0 {
		return Step{}, false
	}
	var txs []Tx
	seen := map[string]bool{}
	n := 1 + rng.IntN(3)
	val := rng.IntN(st.NVal)
	for i := 0; i < n; i++ {
		a := actors[rng.IntN(len(actors))]
		if seen[a] {
			continue
		}
		seen[a] = true
		if i > 0 && rng.IntN(2) == 0 {
			val = rng.IntN(st.NVal) // otherwise the companion uses the same validator (shared queue slots)
		}
		addr := gmustAddr(w, a)
		dels, _ := w.App.StakingKeeper.GetDelegatorDelegations(w.Ctx(), addr, 100)
		op := rng.IntN(10)
		if len(dels) == 0 || op < 3 {
			txs = append(txs, Tx{K: "g_delegate", S: a, A: A("val", val, "amount", FX(int64(10+rng.IntN(20_000))).String())})
			continue
		}
		d := dels[rng.IntN(len(dels))]
		for _, dd := range dels { // prefer the step's validator when the actor delegates to it
			if dd.ValidatorAddress == w.Key("val", val).Val().String() {
				d = dd
			}
		}
		vi := 0
		for k := range w.Vals {
			if w.Key("val", k).Val().String() == d.ValidatorAddress {
				vi = k
			}
		}
		// amounts: a fraction of the delegation, sometimes all of it
		va, _ := sdk.ValAddressFromBech32(d.ValidatorAddress)
		v, err := w.App.StakingKeeper.GetValidator(w.Ctx(), va)
		if err != nil {
			continue
		}
		all := v.TokensFromShares(d.Shares).TruncateInt()
		amt := all.QuoRaw(int64(2 + rng.IntN(8)))
		if rng.IntN(6) == 0 {
			amt = all
		}
		if !amt.IsPositive() {
			continue
		}
		switch {
		case op < 6:
			txs = append(txs, Tx{K: "g_undelegate", S: a, A: A("val", vi, "amount", amt.String())})
		case op < 8 && st.NVal > 1:
			txs = append(txs, Tx{K: "g_redelegate", S: a, A: A("val", vi, "dst", (vi+1+rng.IntN(st.NVal-1))%st.NVal, "amount", amt.String())})
		default:
			txs = append(txs, Tx{K: "g_withdraw", S: a, A: A("val", vi)})
		}
	}
	if len(txs) == 0 {
		return Step{}, false
	}
	return Step{Kind: "block", DtMs: gdt(r), N: 1 + rng.IntN(2), Txs: txs}, true
}

// genMigrate: a migration attempt (valid or one of the variants that must be refused), or
// the preparation of a "used" target.
func (c *c14Model) genMigrate(r *Run) (Step, bool) {
	st := gst(r)
	rng := r.Rng
	blk := func(txs ...Tx) Step { return Step{Kind: "block", DtMs: gdt(r), N: 1, Txs: txs} }
	if fresh := c.legNames(r, true); !c.opTgt && len(fresh) > 0 && rng.IntN(6) == 0 {
		// once per run at most: a target key that operates a validator but holds no staking record any more - it
		// created the validator, somebody else delegated to it, it withdrew its whole self-delegation and the
		// unbonding period passed. Still a validator operator: a migration to it must be refused.
		c.opTgt = true
		c.nextTgt++
		n := KeyName("tgt", c.nextTgt)
		c.funded = append(c.funded, n)
		self := FX(int64(1000 + rng.IntN(3000)))
		st.Setup = append(st.Setup,
			blk(Tx{K: "g_create_validator", S: n, A: A("amount", self.String())}),
			blk(Tx{K: "g_delegate", S: KeyName("user", rng.IntN(st.NUser)), A: A("valof", n, "amount", FX(int64(1+rng.IntN(50))).String())}),
			blk(Tx{K: "g_undelegate", S: n, A: A("valof", n, "amount", self.String())}),
			Step{Kind: "block", DtMs: (r.Cfg.World.UnbondingSec + 30) * 1000, N: 2},
			blk(Tx{K: "g_migrate", S: fresh[rng.IntN(len(fresh))], A: A("to", n)}))
		r.Probe("c14-operator-without-staking-records-as-target")
		return blk(Tx{K: "g_send", S: KeyName("user", rng.IntN(st.NUser)), A: A("to", n, "denom", fxtypes.DefaultDenom, "amount", self.MulRaw(2).String())}), true
	}
	if rng.IntN(5) == 0 || (len(c.funded) == 0 && rng.IntN(2) == 0) {
		// once per run at most: a legacy account becomes a validator operator (must be refused as source)
		if fresh := c.legNames(r, true); len(c.legVal) == 0 && len(fresh) > 1 && rng.IntN(3) == 0 {
			n := fresh[rng.IntN(len(fresh))]
			_, i := ParseKeyName(n)
			c.legVal[i] = true
			return blk(Tx{K: "g_create_validator", S: n, A: A("amount", FX(int64(100+rng.IntN(5000))).String())}), true
		}
		// a new legacy vesting account (delayed or continuous, ending soon or late); its first tx publishes its key
		if rng.IntN(3) == 0 && len(c.extraLeg) < 3 {
			i := st.NLeg + 10 + len(c.extraLeg)
			c.extraLeg = append(c.extraLeg, i)
			n := KeyName("leg", i)
			end := r.W.Now.Unix() + int64([]int{30, 300, 3000, 1_000_000}[rng.IntN(4)])
			first := Tx{K: "g_delegate", S: n, A: A("val", rng.IntN(st.NVal), "amount", FX(int64(1+rng.IntN(50))).String())}
			if rng.IntN(2) == 0 {
				first = Tx{K: "g_send", S: n, A: A("to", "user/0", "amount", "1")}
			}
			st.Setup = append(st.Setup, blk(first))
			return blk(Tx{K: "g_create_vesting", S: KeyName("user", rng.IntN(st.NUser)), A: A("to", n, "amount", FX(int64(10+rng.IntN(100_000))).String(), "end", end, "delayed", rng.IntN(2))}), true
		}
		// prepare a used target: funds; later it may stake (then it must be refused) or take part in governance
		c.nextTgt++
		n := KeyName("tgt", c.nextTgt)
		c.funded = append(c.funded, n)
		denom, amt := fxtypes.DefaultDenom, FX(int64(1000+rng.IntN(100_000))).String()
		if rng.IntN(4) == 0 {
			denom, amt = govExtraDenoms[0], fmt.Sprint(1+rng.IntN(500))
		}
		// follow-up: the target deposits on / votes for an open proposal
		if gv := readGovView(r.W, r.W.Ctx()); denom == fxtypes.DefaultDenom && rng.IntN(2) == 0 {
			var open []*gProp
			for _, id := range gv.IDs {
				if gv.Props[id].Open() {
					open = append(open, gv.Props[id])
				}
			}
			if len(open) > 0 {
				p := open[rng.IntN(len(open))]
				t := Tx{K: "g_deposit", S: n, A: A("id", p.ID, "amount", FX(int64(1+rng.IntN(5))).String())}
				if p.VStart != nil && rng.IntN(2) == 0 {
					t = Tx{K: "g_vote", S: n, A: A("id", p.ID, "opts", "1")}
				}
				st.Setup = append(st.Setup, blk(t))
			}
		}
		return blk(Tx{K: "g_send", S: KeyName("user", rng.IntN(st.NUser)), A: A("to", n, "denom", denom, "amount", amt)}), true
	}
	fresh := c.legNames(r, true)
	var src string
	switch x := rng.IntN(20); {
	case x < 15 && len(fresh) > 0:
		src = fresh[rng.IntN(len(fresh))]
	case x < 17 && len(c.pairs) > 0: // an address that already took part (either role as source is only possible for legacy keys)
		src = c.pairs[rng.IntN(len(c.pairs))].From
	case x < 18:
		src = KeyName("user", rng.IntN(st.NUser))
	case x < 19:
		src = KeyName("val", rng.IntN(st.NVal))
		for _, i := range sortedInts(c.legVal) {
			src = KeyName("leg", i)
		}
	default:
		if len(fresh) == 0 {
			return Step{}, false
		}
		src = fresh[rng.IntN(len(fresh))]
	}
	var to string
	switch x := rng.IntN(20); {
	case x < 9:
		c.nextTgt++
		to = KeyName("tgt", c.nextTgt)
	case x < 14 && len(c.funded) > 0:
		to = c.funded[rng.IntN(len(c.funded))]
	case x < 16:
		to = KeyName("user", rng.IntN(st.NUser))
	case x < 17 && len(c.pairs) > 0:
		p := c.pairs[rng.IntN(len(c.pairs))]
		to = p.To
		if rng.IntN(2) == 0 {
			to = "tgt/0" // placeholder replaced below: target = an old source is impossible by key type; use old target
			to = p.To
		}
	case x < 18:
		to = KeyName("val", rng.IntN(st.NVal))
	default:
		c.nextTgt++
		to = KeyName("tgt", c.nextTgt)
	}
	a := A("to", to)
	switch rng.IntN(14) {
	case 0:
		a["sigkey"] = KeyName("user", rng.IntN(st.NUser)) // another key signs the right pair
	case 1:
		a["sigkey"] = src // the source authorises itself (its own key signs the pair)
	case 2:
		a["sigfrom"], a["sigto"] = to, src // swapped
	case 3:
		a["sigfrom"] = KeyName("user", rng.IntN(st.NUser)) // the target key authorised a different source
	case 4:
		a["sigto"] = "adv/1"
	}
	step := blk(Tx{K: "g_migrate", S: src, A: a})
	if rng.IntN(3) == 0 {
		// land the migration in exactly the block whose time reaches the completion time of one of the
		// source's unbonding / redelegation entries (mature by the clock, still queued)
		if dt, ok := c.dtToMaturity(r, src, rng.IntN(2) == 0); ok {
			step.DtMs = dt
			r.Probe("c14-migration-in-maturity-block")
		}
	}
	return step, true
}

// dtToMaturity: milliseconds from the last block time to the earliest future completion time of an
// unbonding (or redelegation) entry of the account.
func (c *c14Model) dtToMaturity(r *Run, name string, plusOne bool) (int64, bool) {
	w := r.W
	addr := sdk.AccAddress(gsign(w, name).Addr)
	var best time.Time
	consider := func(t time.Time) {
		if t.After(w.Now) && (best.IsZero() || t.Before(best)) {
			best = t
		}
	}
	ubds, _ := w.App.StakingKeeper.GetAllUnbondingDelegations(w.Ctx(), addr)
	for _, u := range ubds {
		for _, e := range u.Entries {
			consider(e.CompletionTime)
		}
	}
	reds, _ := w.App.StakingKeeper.GetRedelegations(w.Ctx(), addr, 100)
	for _, rd := range reds {
		for _, e := range rd.Entries {
			consider(e.CompletionTime)
		}
	}
	if best.IsZero() {
		return 0, false
	}
	dt := best.Sub(w.Now).Milliseconds()
	if best.Sub(w.Now) > time.Duration(dt)*time.Millisecond {
		dt++ // completion time not on a millisecond boundary: first block at or after it
	}
	if plusOne {
		dt += int64(1 + r.Rng.IntN(3))
	}
	return dt, dt > 0
}

func sortedInts(m map[int]bool) []int {
	var out []int
	for k := range m {
		out = append(out, k)
	}
	sort.Ints(out)
	return out
}

// ---------------------------------------------------------------------------------------
// staking index consistency (raw store, both directions)

// c14IndexCheck verifies, for every delegation / unbonding delegation / redelegation record,
// that its secondary index entries exist (delegations-by-validator 0x71, unbonding-by-validator
// 0x33, redelegation by source 0x35 and by destination 0x36 validator), that its entries are
// reachable through the unbonding-id index (0x38) and sit in the maturation queue slot of their
// completion time, and that no index holds more entries than there are records (an index
// entry that points to a missing record). Result: "kind" -> first example.
func c14IndexCheck(w *World, ctx sdk.Context) map[string]string {
	out := map[string]string{}
	bad := func(kind, f string, a ...interface{}) {
		if _, ok := out[kind]; !ok {
			out[kind] = fmt.Sprintf(f, a...)
		}
	}
	sk := w.App.StakingKeeper
	store := ctx.KVStore(w.App.GetKVStoreKey()["staking"])
	count := func(prefix byte) int {
		n := 0
		it := store.Iterator([]byte{prefix}, []byte{prefix + 1})
		defer it.Close()
		for ; it.Valid(); it.Next() {
			n++
		}
		return n
	}
	acc := func(s string) sdk.AccAddress { a, _ := sdk.AccAddressFromBech32(s); return a }
	val := func(s string) sdk.ValAddress { a, _ := sdk.ValAddressFromBech32(s); return a }
	dels, _ := sk.GetAllDelegations(ctx)
	for _, d := range dels {
		if !store.Has(stakingtypes.GetDelegationsByValKey(val(d.ValidatorAddress), acc(d.DelegatorAddress))) {
			bad("delegation-without-by-validator-index", "delegation %s -> %s", d.DelegatorAddress, d.ValidatorAddress)
		}
	}
	if n := count(0x71); n != len(dels) {
		bad("by-validator-delegation-index-count", "%d index entries for %d delegations", n, len(dels))
	}
	nUbd := 0
	_ = sk.IterateUnbondingDelegations(ctx, func(_ int64, u stakingtypes.UnbondingDelegation) bool {
		nUbd++
		del, va := acc(u.DelegatorAddress), val(u.ValidatorAddress)
		if !store.Has(stakingtypes.GetUBDByValIndexKey(del, va)) {
			bad("unbonding-without-by-validator-index", "unbonding %s -> %s", u.DelegatorAddress, u.ValidatorAddress)
		}
		for _, e := range u.Entries {
			if v := store.Get(stakingtypes.GetUnbondingIndexKey(e.UnbondingId)); !bytes.Equal(v, stakingtypes.GetUBDKey(del, va)) {
				bad("unbonding-id-index", "unbonding id %d of %s -> %s resolves to %x", e.UnbondingId, u.DelegatorAddress, u.ValidatorAddress, v)
			}
			slice, _ := sk.GetUBDQueueTimeSlice(ctx, e.CompletionTime)
			found := false
			for _, pr := range slice {
				if pr.DelegatorAddress == u.DelegatorAddress && pr.ValidatorAddress == u.ValidatorAddress {
					found = true
				}
			}
			if !found {
				bad("unbonding-not-in-queue", "unbonding entry of %s -> %s completing %s is not queued", u.DelegatorAddress, u.ValidatorAddress, e.CompletionTime)
			}
		}
		return false
	})
	if n := count(0x33); n != nUbd {
		bad("unbonding-by-validator-index-count", "%d index entries for %d unbonding delegations", n, nUbd)
	}
	nRed := 0
	_ = sk.IterateRedelegations(ctx, func(_ int64, rd stakingtypes.Redelegation) bool {
		nRed++
		del, src, dst := acc(rd.DelegatorAddress), val(rd.ValidatorSrcAddress), val(rd.ValidatorDstAddress)
		if !store.Has(stakingtypes.GetREDByValSrcIndexKey(del, src, dst)) {
			bad("redelegation-without-by-source-validator-index", "redelegation %s %s > %s", rd.DelegatorAddress, rd.ValidatorSrcAddress, rd.ValidatorDstAddress)
		}
		if !store.Has(stakingtypes.GetREDByValDstIndexKey(del, src, dst)) {
			bad("redelegation-without-by-destination-validator-index", "redelegation %s %s > %s", rd.DelegatorAddress, rd.ValidatorSrcAddress, rd.ValidatorDstAddress)
		}
		for _, e := range rd.Entries {
			if v := store.Get(stakingtypes.GetUnbondingIndexKey(e.UnbondingId)); !bytes.Equal(v, stakingtypes.GetREDKey(del, src, dst)) {
				bad("unbonding-id-index", "unbonding id %d of redelegation %s resolves to %x", e.UnbondingId, rd.DelegatorAddress, v)
			}
			slice, _ := sk.GetRedelegationQueueTimeSlice(ctx, e.CompletionTime)
			found := false
			for _, tr := range slice {
				if tr.DelegatorAddress == rd.DelegatorAddress && tr.ValidatorSrcAddress == rd.ValidatorSrcAddress && tr.ValidatorDstAddress == rd.ValidatorDstAddress {
					found = true
				}
			}
			if !found {
				bad("redelegation-not-in-queue", "redelegation entry of %s completing %s is not queued", rd.DelegatorAddress, e.CompletionTime)
			}
		}
		return false
	})
	if n := count(0x35); n != nRed {
		bad("redelegation-by-source-index-count", "%d index entries for %d redelegations", n, nRed)
	}
	if n := count(0x36); n != nRed {
		bad("redelegation-by-destination-index-count", "%d index entries for %d redelegations", n, nRed)
	}
	return out
}

// c14SlashView: what a slash of validator valAddr (infraction at height 1, i.e. before every
// redelegation / unbonding of the run) does on ctx: tokens burned and the owner's remaining
// stake. Used differentially: not-migrated source vs. migrated target.
func c14SlashView(w *World, ctx sdk.Context, valAddr string, owner sdk.AccAddress) (view string, err error) {
	defer func() {
		if rec := recover(); rec != nil {
			err = fmt.Errorf("panic: %v", rec)
		}
	}()
	sk := w.App.StakingKeeper
	va, _ := sdk.ValAddressFromBech32(valAddr)
	v, e := sk.GetValidator(ctx, va)
	if e != nil {
		return "", e
	}
	cons, e := v.GetConsAddr()
	if e != nil {
		return "", e
	}
	cc, _ := ctx.CacheContext()
	burned, e := sk.Slash(cc, cons, 1, v.GetConsensusPower(sdk.DefaultPowerReduction), sdkmath.LegacyNewDecWithPrec(20, 2))
	if e != nil {
		return "", e
	}
	p := c14Read(w, cc, owner)
	var lines []string
	for _, l := range p.Staking { // rewards are not part of the comparison
		lines = append(lines, l)
	}
	return fmt.Sprintf("burned=%s %s", burned, strings.Join(lines, "; ")), nil
}
