package sim

import (
	"encoding/hex"
	"encoding/json"
	"fmt"
	"math/big"
	"sort"
	"strings"

	sdkmath "cosmossdk.io/math"
	sdk "github.com/cosmos/cosmos-sdk/types"
	"github.com/ethereum/go-ethereum/common"

	cctypes "github.com/functionx/fx-core/v8/x/crosschain/types"
	stakingtypes "github.com/functionx/fx-core/v8/x/staking/types"
)

// C10 — precompiles act only for their direct caller and only in a writable call context.
// Victims (user/2, user/3) build up assets and then never sign again (except when they
// "call" an attacker's contract, which may then only spend its own assets).

var writeMethods = map[string]bool{
	"staking.delegateV2": true, "staking.undelegateV2": true, "staking.redelegateV2": true, "staking.withdraw": true,
	"staking.approveShares": true, "staking.transferShares": true, "staking.transferFromShares": true,
	"crosschain.crossChain": true, "crosschain.cancelSendToExternal": true, "crosschain.increaseBridgeFee": true,
	"crosschain.bridgeCall": true, "crosschain.executeClaim": true,
}

type portfolio struct {
	bank   map[string]sdkmath.Int
	erc20  map[string]*big.Int
	shares map[string]sdkmath.LegacyDec // by validator
	pool   map[uint64]cctypes.OutgoingTransferTx
	allow  map[string]*big.Int // val|spender
}

type c10Model struct {
	pre      map[string]*portfolio
	disabled []string
	phase    int
}

func newC10() *c10Model { return &c10Model{} }

var c10Victims = []int{2, 3}
var c10Attackers = []int{0, 1}

func (m *c10Model) snapshot(r *Run, k *Key) *portfolio {
	w := r.W
	ctx := w.Ctx()
	st := bst(r)
	p := &portfolio{bank: map[string]sdkmath.Int{}, erc20: map[string]*big.Int{}, shares: map[string]sdkmath.LegacyDec{}, pool: map[uint64]cctypes.OutgoingTransferTx{}, allow: map[string]*big.Int{}}
	for _, c := range w.App.BankKeeper.GetAllBalances(ctx, k.Acc()) {
		p.bank[c.Denom] = c.Amount
	}
	for _, d := range []string{"usdt", "FX"} {
		if pair, ok := w.App.Erc20Keeper.GetTokenPair(ctx, d); ok {
			p.erc20[d] = w.ERC20Balance(ctx, common.HexToAddress(pair.Erc20Address), k.Hex())
		}
	}
	for dk, sh := range w.allDelegations(ctx) {
		if dk.del == k.Bech() {
			p.shares[dk.val] = sh
		}
	}
	v := w.ViewChain(ctx, st.Chains[0].Name)
	for _, t := range v.Pool {
		if t.Sender == k.Bech() {
			p.pool[t.Id] = t
		}
	}
	for vi := range w.Vals {
		val := w.Key("val", vi).Val()
		spenders := []*Key{}
		for i := 0; i < st.NUsers; i++ {
			spenders = append(spenders, w.Key("user", i))
		}
		for _, sp := range spenders {
			a := w.App.StakingKeeper.GetAllowance(ctx, val, k.Acc(), sp.Acc())
			if a != nil && a.Sign() > 0 {
				p.allow[val.String()+"|"+sp.Bech()] = a
			}
		}
		for _, dp := range st.Evm.Programs {
			for _, ad := range dp.Addrs {
				a := w.App.StakingKeeper.GetAllowance(ctx, val, k.Acc(), sdk.AccAddress(ad.Bytes()))
				if a != nil && a.Sign() > 0 {
					p.allow[val.String()+"|"+sdk.AccAddress(ad.Bytes()).String()] = a
				}
			}
		}
	}
	return p
}

func (m *c10Model) before(r *Run, s *Step) {
	if r.Prop != "C10" {
		return
	}
	m.pre = map[string]*portfolio{}
	for _, vi := range c10Victims {
		k := r.W.Key("user", vi)
		m.pre[k.Bech()] = m.snapshot(r, k)
	}
}

func victimSigned(r *Run, o *Outcome, k *Key) bool {
	for _, t := range o.Txs {
		if t.Tx != nil && t.Res != nil && t.Tx.S == KeyName(k.Role, k.Idx) && !(t.Tx.A.Str("victimcall") == "1") {
			return true
		}
	}
	return false
}

func (m *c10Model) isDisabled(addr common.Address, methodID []byte) bool {
	a := strings.ToLower(addr.Hex())
	am := a + "/" + hex.EncodeToString(methodID)
	for _, d := range m.disabled {
		d = strings.ToLower(d)
		if d == a || d == am {
			return true
		}
	}
	return false
}

func (m *c10Model) check(r *Run, s *Step, o *Outcome) []Violation {
	var vs []Violation
	w := r.W
	st := bst(r)
	// governance switch bookkeeping
	if s.Kind == "gov" && s.A.Str("what") == "switch" && o.Extra["status"] == "PASSED" {
		m.disabled = nil
		if s.A.Str("list") != "" {
			m.disabled = strings.Split(s.A.Str("list"), ",")
		}
		r.Probe("switch-updated")
	}
	if m.pre == nil {
		return nil
	}
	// ---- victims' portfolios
	gifts := false
	for _, t := range o.Txs {
		if t.Tx != nil && t.Res.OK() && strings.Contains(t.Tx.A.Str("m"), "ransfer") {
			for _, vi := range c10Victims {
				if strings.Contains(t.Tx.A.Str("args"), fmt.Sprintf("$user%d", vi)) {
					gifts = true
				}
			}
		}
	}
	touched := false
	for _, t := range o.Txs {
		if t.Tx != nil && t.Res != nil && (t.Tx.K == "eth_call") {
			touched = true
		}
	}
	for _, vi := range c10Victims {
		k := w.Key("user", vi)
		if victimSigned(r, o, k) {
			continue
		}
		pre := m.pre[k.Bech()]
		post := m.snapshot(r, k)
		if touched && (len(pre.shares) > 0 || len(pre.pool) > 0) {
			r.Nontrivial = true
		}
		site := c10Site(s, o)
		for _, d := range unionKeys(pre.bank, post.bank) {
			a, b := getOr0(pre.bank, d), getOr0(post.bank, d)
			if b.LT(a) {
				vs = append(vs, viol("victim-untouched", "bank/"+site, "%s lost %s %s without signing anything", k.Name(), a.Sub(b), d))
			} else if b.GT(a) && d != "FX" && !strings.Contains(site, "execute_claim") && s.Kind != "ext" {
				r.Probe("victim-received:" + denomKind(d))
			}
		}
		for d, a := range pre.erc20 {
			if b, ok := post.erc20[d]; ok && b.Cmp(a) < 0 {
				vs = append(vs, viol("victim-untouched", "erc20/"+site, "%s lost %s %s (ERC-20) without signing anything", k.Name(), new(big.Int).Sub(a, b), d))
			}
		}
		// allowances never grow, shares leave only through allowances
		totalDec := map[string]*big.Int{}
		for key, a := range pre.allow {
			b := post.allow[key]
			if b == nil {
				b = big.NewInt(0)
			}
			val := strings.SplitN(key, "|", 2)[0]
			if totalDec[val] == nil {
				totalDec[val] = big.NewInt(0)
			}
			if b.Cmp(a) > 0 {
				vs = append(vs, viol("allowance", "grew/"+site, "allowance %s of %s grew from %s to %s without the owner signing", key, k.Name(), a, b))
			}
			totalDec[val].Add(totalDec[val], new(big.Int).Sub(a, b))
		}
		for key, b := range post.allow {
			if _, ok := pre.allow[key]; !ok && b.Sign() > 0 {
				vs = append(vs, viol("allowance", "appeared/"+site, "allowance %s of %s appeared without the owner signing", key, k.Name()))
			}
		}
		vals := map[string]bool{}
		for v := range pre.shares {
			vals[v] = true
		}
		for v := range post.shares {
			vals[v] = true
		}
		for _, val := range sortedKeys(vals) {
			a, b := pre.shares[val], post.shares[val]
			if a.IsNil() {
				a = sdkmath.LegacyZeroDec()
			}
			if b.IsNil() {
				b = sdkmath.LegacyZeroDec()
			}
			dec := totalDec[val]
			if dec == nil {
				dec = big.NewInt(0)
			}
			lost := a.Sub(b)
			if lost.IsPositive() {
				if lost.GT(sdkmath.LegacyNewDecFromBigInt(dec)) {
					vs = append(vs, viol("victim-untouched", "shares/"+site, "%s lost %s shares at %s; allowances were reduced by only %s", k.Name(), lost, val, dec))
				}
				r.Probe("shares-moved-by-allowance")
			}
			if !gifts && !lost.Equal(sdkmath.LegacyNewDecFromBigInt(dec)) && dec.Sign() > 0 {
				vs = append(vs, viol("allowance", "decrement-differs/"+site, "%s: %s shares moved at %s but allowances were reduced by %s", k.Name(), lost, val, dec))
			}
		}
		// queued withdrawals: never removed or reduced (no batches are requested in this workload)
		var ids []uint64
		for id := range pre.pool {
			ids = append(ids, id)
		}
		sort.Slice(ids, func(i, j int) bool { return ids[i] < ids[j] })
		for _, id := range ids {
			a := pre.pool[id]
			b, ok := post.pool[id]
			if !ok {
				vs = append(vs, viol("victim-untouched", "pool/"+site, "queued withdrawal %d of %s disappeared without the owner signing", id, k.Name()))
				continue
			}
			if b.DestAddress != a.DestAddress || !b.Token.Amount.Equal(a.Token.Amount) || b.Fee.Amount.LT(a.Fee.Amount) {
				vs = append(vs, viol("victim-untouched", "pool/"+site, "queued withdrawal %d of %s changed: %s -> %s", id, k.Name(), a.String(), b.String()))
			}
		}
	}
	// ---- write protection and governance switch, direct calls
	for _, t := range o.Txs {
		if t.Tx == nil || t.Res == nil || t.Tx.K != "eth_call" || t.Tx.A.Str("m") == "" || !t.Res.OK() {
			continue
		}
		full := t.Tx.A.Str("t") + "." + t.Tx.A.Str("m")
		if !writeMethods[full] {
			continue
		}
		if ab, addr, ok := abiFor(t.Tx.A.Str("t")); ok {
			if m.isDisabled(addr, ab.Methods[t.Tx.A.Str("m")].ID) {
				vs = append(vs, viol("gov-switch", "direct/"+full, "%s executed while disabled by governance (%v)", full, m.disabled))
			}
		}
	}
	if s.Kind == "run" && len(o.Txs) == 1 && o.Txs[0].Res != nil {
		pi := s.A.Int("prog")
		if pi < len(st.Evm.Programs) && st.Evm.Programs[pi].OK && o.Txs[0].Res.OK() && len(o.Txs[0].Res.Ret) == 32 {
			k := new(big.Int).SetBytes(o.Txs[0].Res.Ret)
			vs = append(vs, m.judgeProgram(r, st.Evm.Programs[pi], k)...)
		}
	}
	return vs
}

// judgeProgram: no state-changing method may succeed through STATICCALL / DELEGATECALL /
// CALLCODE, inside a static frame, or while disabled by governance.
func (m *c10Model) judgeProgram(r *Run, dp *DeployedProgram, k *big.Int) []Violation {
	var vs []Violation
	// static context: nodes reachable through a static child edge
	static := make([]bool, len(dp.Spec.Nodes))
	var walk func(n int, st bool)
	seen := map[int]bool{}
	walk = func(n int, isStatic bool) {
		if isStatic {
			static[n] = true
		}
		key := n*2 + map[bool]int{true: 1}[isStatic]
		if seen[key] {
			return
		}
		seen[key] = true
		for _, a := range dp.Spec.Nodes[n].Acts {
			if a.K == "child" && a.Child < len(dp.Spec.Nodes) {
				walk(a.Child, isStatic || a.Call == "static")
			}
		}
	}
	walk(0, false)
	for ni, nd := range dp.Spec.Nodes {
		for _, a := range nd.Acts {
			if a.K != "pre" || !writeMethods[a.T+"."+a.M] || k.Bit(a.Bit) == 0 {
				continue
			}
			full := a.T + "." + a.M
			switch {
			case a.Call == "static" || a.Call == "delegate" || a.Call == "callcode":
				vs = append(vs, viol("write-protection", full+"/"+strings.ToUpper(a.Call), "%s succeeded through %s", full, strings.ToUpper(a.Call)+"CALL"))
			case static[ni]:
				vs = append(vs, viol("write-protection", full+"/CALL-in-static-frame", "%s succeeded through a plain CALL issued inside a static frame", full))
			}
			if ab, addr, ok := abiFor(a.T); ok && m.isDisabled(addr, ab.Methods[a.M].ID) {
				vs = append(vs, viol("gov-switch", "program/"+full, "%s executed from a contract while disabled by governance (%v)", full, m.disabled))
			}
			r.Probe("program-write-kept")
		}
		for _, a := range nd.Acts {
			if a.K == "pre" && writeMethods[a.T+"."+a.M] && (a.Call != "" && a.Call != "call" || static[ni]) {
				r.Probe("readonly-attempt")
				r.Nontrivial = true
			}
		}
	}
	return vs
}

func c10Site(s *Step, o *Outcome) string {
	if s.Kind == "run" {
		return "program"
	}
	if s.Kind != "block" {
		return s.Kind
	}
	var ks []string
	seen := map[string]bool{}
	for _, t := range o.Txs {
		if t.Tx != nil && t.Res.OK() {
			n := t.Tx.K
			if t.Tx.A.Str("m") != "" {
				n = t.Tx.A.Str("t") + "." + t.Tx.A.Str("m")
			}
			if !seen[n] {
				seen[n] = true
				ks = append(ks, n)
			}
		}
	}
	sort.Strings(ks)
	if len(ks) == 0 {
		return "block"
	}
	return strings.Join(ks, "+")
}

func unionKeys(a, b map[string]sdkmath.Int) []string {
	m := map[string]bool{}
	for k := range a {
		m[k] = true
	}
	for k := range b {
		m[k] = true
	}
	return sortedKeys(m)
}

// ---- generator

func (e EvmEngine) genC10(r *Run) Step {
	st := bst(r)
	w := r.W
	m := st.Evm.c10
	blk := func(txs ...Tx) Step { return Step{Kind: "block", DtMs: 5000, N: 1, Txs: txs} }
	pc := func(signer, t, meth string, args ...string) Tx {
		return Tx{K: "pcall", S: signer, A: A("t", t, "m", meth, "args", strings.Join(args, "|")), Gas: 3_000_000}
	}
	val := func() string { return fmt.Sprintf("$valop%d", r.Rng.IntN(r.Cfg.World.Validators)) }
	m.phase++
	if m.phase <= 10 {
		// victims build up assets and grant allowances
		vi := c10Victims[r.Rng.IntN(2)]
		v := KeyName("user", vi)
		switch m.phase % 5 {
		case 0, 1:
			return blk(pc(v, "staking", "delegateV2", val(), FX(int64(100+r.Rng.IntN(900))).String()))
		case 2:
			sp := fmt.Sprintf("$user%d", c10Attackers[r.Rng.IntN(2)])
			if len(st.Evm.Programs) > 0 && r.Pct(40) {
				sp = fmt.Sprintf("$prog%d.0", r.Rng.IntN(len(st.Evm.Programs)))
			}
			return blk(pc(v, "staking", "approveShares", val(), sp, FX(int64(1+r.Rng.IntN(300))).String()))
		case 3:
			ch := st.Chains[0]
			if r.Pct(50) {
				// FX withdrawals: their fee can be topped up by anybody holding FX
				return blk(Tx{K: "send_to_external", S: v, A: A("chain", ch.Name, "denom", "FX", "amount", 10_000+r.Rng.IntN(50_000), "fee", 100+r.Rng.IntN(900), "dest", ExtAddrStr(ch.Name, w.Key("extuser", 3).Hex()))})
			}
			return blk(Tx{K: "send_to_external", S: v, A: A("chain", ch.Name, "denom", "usdt", "amount", 100+r.Rng.IntN(500), "fee", 1+r.Rng.IntN(9), "dest", ExtAddrStr(ch.Name, w.Key("extuser", 3).Hex()))})
		default:
			if m.phase == 9 {
				// the attackers hold bridged tokens in ERC-20 form too (fee top-ups on other people's transfers need them)
				var txs []Tx
				for _, ai := range c10Attackers {
					txs = append(txs, Tx{K: "convert_coin", S: KeyName("user", ai), A: A("denom", "usdt", "amount", 300+r.Rng.IntN(500), "receiver", w.Key("user", ai).Hex().Hex())})
				}
				return blk(txs...)
			}
			return blk(Tx{K: "convert_coin", S: v, A: A("denom", "usdt", "amount", 500+r.Rng.IntN(2000), "receiver", w.Key("user", vi).Hex().Hex())})
		}
	}
	if r.Pct(6) {
		if s, ok := e.bridgeTick(r); ok {
			return s
		}
	}
	att := KeyName("user", c10Attackers[r.Rng.IntN(2)])
	victim := fmt.Sprintf("$user%d", c10Victims[r.Rng.IntN(2)])
	view := w.ViewChain(w.Ctx(), st.Chains[0].Name)
	switch r.Rng.IntN(14) {
	case 13:
		// the attacker sends value over the bridge and names a victim wherever the call takes a second address
		// (refund address): only the caller may pay
		if r.Pct(50) {
			t := pc(att, "crosschain", "bridgeCall", "$chain", victim, "", "", fmt.Sprintf("$ext%d", r.Rng.IntN(5)), "", "0", "")
			t.A["value"] = fmt.Sprint(1000 + r.Rng.IntN(100000))
			return blk(t)
		}
		return blk(pc(att, "token:USDT", "approve", cctypes.GetAddress().Hex(), "1000000000"),
			pc(att, "crosschain", "bridgeCall", "$chain", victim, "$USDT", fmt.Sprint(1+r.Rng.IntN(300)), fmt.Sprintf("$ext%d", r.Rng.IntN(5)), "", "0", ""))
	case 12:
		// a validator misses blocks until it is slashed: from then on a share is worth less than a token there
		if r.Cfg.World.Validators > 1 {
			r.Fault("val-downtime")
			return Step{Kind: "block", DtMs: 6000, N: int(r.Cfg.World.SlashWindow) + 3, A: A("absent", 1+r.Rng.IntN(r.Cfg.World.Validators-1))}
		}
		return blk(pc(att, "staking", "withdraw", val()))
	case 0, 1, 2: // spender pulls shares (within or above the allowance)
		amt := FX(int64(1 + r.Rng.IntN(400)))
		if r.Pct(70) {
			// use an allowance that exists: the spender it was granted to (a key or a contract the attacker cannot
			// sign for - then it is simply refused), at its validator, for amounts around the allowance
			vi := c10Victims[r.Rng.IntN(2)]
			snap := m.snapshot(r, w.Key("user", vi))
			if keys := sortedKeys(snap.allow); len(keys) > 0 {
				key := keys[r.Rng.IntN(len(keys))]
				parts := strings.SplitN(key, "|", 2)
				for _, ai := range c10Attackers {
					if w.Key("user", ai).Bech() == parts[1] && snap.allow[key].Sign() > 0 {
						al := sdkmath.NewIntFromBigInt(snap.allow[key])
						switch r.Rng.IntN(4) {
						case 0:
							amt = al
						case 1:
							amt = al.AddRaw(1 + int64(r.Rng.IntN(1000)))
						case 2:
							amt = al.QuoRaw(2).AddRaw(1)
						default:
							amt = al.MulRaw(104).QuoRaw(100)
						}
						return blk(pc(KeyName("user", ai), "staking", "transferFromShares", parts[0], fmt.Sprintf("$user%d", vi), fmt.Sprintf("$user%d", c10Attackers[r.Rng.IntN(2)]), amt.String()))
					}
				}
			}
		}
		return blk(pc(att, "staking", "transferFromShares", val(), victim, fmt.Sprintf("$user%d", c10Attackers[r.Rng.IntN(2)]), amt.String()))
	case 3, 11: // cancel or fee-bump the victim's queued withdrawal
		for _, p := range view.Pool {
			for _, vi := range c10Victims {
				if p.Sender == w.Key("user", vi).Bech() {
					if r.Pct(45) {
						return blk(pc(att, "crosschain", "cancelSendToExternal", "$chain", fmt.Sprint(p.Id)))
					}
					if r.Pct(50) {
						// the fee of somebody else's transfer may be topped up by anybody (Cosmos message, paid in the bridge
						// denomination, which the attacker first obtains from its coins): the transfer stays its owner's
						ch := st.Chains[0]
						if p.Token.Contract == ExtAddrStr(ch.Name, tokenContract(ch.Name, "FX")) {
							return blk(Tx{K: "increase_fee", S: att, A: A("chain", ch.Name, "id", p.Id, "denom", "FX", "fee", 1+r.Rng.IntN(300))})
						}
						bd := cctypes.NewBridgeDenom(ch.Name, ExtAddrStr(ch.Name, tokenContract(ch.Name, "USDT")))
						return blk(Tx{K: "convert_denom", S: att, A: A("denom", "usdt", "amount", 5, "receiver", w.KeyByName(att).Bech(), "target", ch.Name)},
							Tx{K: "increase_fee", S: att, A: A("chain", ch.Name, "id", p.Id, "denom", bd, "fee", 1+r.Rng.IntN(3))})
					}
					return blk(pc(att, "token:USDT", "approve", cctypes.GetAddress().Hex(), "100000"), pc(att, "crosschain", "increaseBridgeFee", "$chain", fmt.Sprint(p.Id), "$USDT", "2"))
				}
			}
		}
		return blk(pc(att, "staking", "withdraw", val()))
	case 4: // governance switch with mixed-case spellings
		var list []string
		for n := 0; n < 1+r.Rng.IntN(3) && r.Pct(80); n++ {
			addr := stakingtypes.GetAddress()
			ab := stakingtypes.GetABI()
			if r.Pct(50) {
				addr = cctypes.GetAddress()
				ab = cctypes.GetABI()
			}
			spell := addr.Hex()
			if r.Pct(50) {
				spell = strings.ToLower(spell)
			} else if r.Pct(50) {
				spell = "0x" + strings.ToUpper(spell[2:])
			}
			if r.Pct(50) {
				names := sortedKeys(ab.Methods)
				mm := ab.Methods[names[r.Rng.IntN(len(names))]]
				id := hex.EncodeToString(mm.ID)
				if r.Pct(40) {
					id = strings.ToUpper(id)
				}
				spell += "/" + id
			}
			list = append(list, spell)
		}
		return Step{Kind: "gov", DtMs: 5000, A: A("what", "switch", "list", strings.Join(list, ","))}
	case 5, 6, 7: // attacker contract, possibly called by the victim itself
		p := e.genAttackProgram(r)
		bz, _ := json.Marshal(p)
		return Step{Kind: "deploy", A: A("prog", string(bz), "deployer", att, "fund_fx", FX(50).String(), "fund_usdt", 0)}
	case 8, 9, 10:
		var idx []int
		for i, p := range st.Evm.Programs {
			if p.OK {
				idx = append(idx, i)
			}
		}
		if len(idx) == 0 {
			return blk(pc(att, "staking", "withdraw", val()))
		}
		sender := att
		a := A("prog", idx[r.Rng.IntN(len(idx))], "ladder", "", "commit", 20_000_000)
		if r.Pct(40) {
			sender = KeyName("user", c10Victims[r.Rng.IntN(2)])
			a["victimcall"] = "1"
		}
		a["sender"] = sender
		return Step{Kind: "run", A: a}
	default:
		return blk(pc(att, "staking", "delegateV2", val(), FX(int64(1+r.Rng.IntN(100))).String()))
	}
}

// genAttackProgram: leaves name victims and use forbidden call kinds / static frames.
func (e EvmEngine) genAttackProgram(r *Run) Program {
	st := bst(r)
	n := 1 + r.Rng.IntN(3)
	p := Program{Nodes: make([]PNode, n)}
	bit := 0
	victim := func() string { return fmt.Sprintf("$user%d", c10Victims[r.Rng.IntN(2)]) }
	val := func() string { return fmt.Sprintf("$valop%d", r.Rng.IntN(r.Cfg.World.Validators)) }
	view := r.W.ViewChain(r.W.Ctx(), st.Chains[0].Name)
	for j := 0; j < n; j++ {
		for k := 0; k < 1+r.Rng.IntN(3); k++ {
			call := ""
			if r.Pct(45) {
				call = []string{"static", "delegate", "callcode"}[r.Rng.IntN(3)]
			}
			var a PAct
			switch r.Rng.IntN(7) {
			case 0, 1:
				a = PAct{K: "pre", T: "staking", M: "transferFromShares", Args: []string{val(), victim(), fmt.Sprintf("$node%d", j), FX(int64(1 + r.Rng.IntN(200))).String()}}
			case 2:
				a = PAct{K: "pre", T: "staking", M: "delegateV2", Args: []string{val(), unitAmount(bit, 1e15)}}
			case 3:
				a = PAct{K: "pre", T: "staking", M: "undelegateV2", Args: []string{val(), FX(1).String()}}
			case 4:
				a = PAct{K: "pre", T: "staking", M: "withdraw", Args: []string{val()}}
			case 5:
				id := uint64(1 + r.Rng.IntN(4))
				if len(view.Pool) > 0 {
					id = view.Pool[r.Rng.IntN(len(view.Pool))].Id
				}
				a = PAct{K: "pre", T: "crosschain", M: "cancelSendToExternal", Args: []string{"$chain", fmt.Sprint(id)}}
			default:
				a = PAct{K: "pre", T: "staking", M: "approveShares", Args: []string{val(), fmt.Sprintf("$user%d", c10Attackers[0]), FX(5).String()}}
			}
			a.Bit, a.Call = bit, call
			bit++
			p.Nodes[j].Acts = append(p.Nodes[j].Acts, a)
		}
		p.Nodes[j].End = "return"
	}
	for j := 1; j < n; j++ {
		ch := PAct{K: "child", Child: j}
		if r.Pct(50) {
			ch.Call = "static"
		}
		par := r.Rng.IntN(j)
		p.Nodes[par].Acts = append(p.Nodes[par].Acts, ch)
	}
	return p
}
