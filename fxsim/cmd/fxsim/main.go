package main

import (
	"encoding/json"
	"flag"
	"fmt"
	"os"
	"time"

	"fxsim/sim"
)

func main() {
	if len(os.Args) < 2 {
		fmt.Println("usage: fxsim <run|check|replay|worker> ...")
		os.Exit(2)
	}
	switch os.Args[1] {
	case "run":
		fs := flag.NewFlagSet("run", flag.ExitOnError)
		prop := fs.String("prop", "C07", "")
		seed := fs.Uint64("seed", 1, "")
		n := fs.Int("n", 1, "")
		verbose := fs.Bool("v", false, "")
		dump := fs.String("dump", "", "write the run as a replay file")
		fs.Parse(os.Args[2:])
		eng := sim.EngineFor(*prop)
		for i := 0; i < *n; i++ {
			t0 := time.Now()
			r, res := sim.Execute(eng, *prop, *seed+uint64(i), "quick")
			if *dump != "" {
				rf := r.ReplayFile(nil)
				if len(res.Violations) > 0 {
					rf = r.ReplayFile(&res.Violations[0])
				}
				sim.WriteJSON(*dump, rf)
			}
			bz, _ := json.Marshal(res)
			fmt.Printf("%s  (%v)\n", bz, time.Since(t0))
			if *verbose {
				for _, l := range sim.TraceLines(r.Steps, 400) {
					fmt.Println("   ", l)
				}
			}
		}
	default:
		os.Exit(sim.Main(os.Args[1:]))
	}
}
