#!/bin/bash
# Soak: the thorough tier of every check on the unchanged tree, one after the other (full machine),
# with a seed that differs from the registered default. usage: ./soak.sh [budget_s] [seed] [props...]
cd "$(dirname "$0")"
BUD="${1:-900}"; SEED="${2:-77001}"; shift; shift
PROPS="$@"; [ -z "$PROPS" ] && PROPS="C15 C08 C09 C05 C06 C01 C02 C03 C12 C13 C11 C14 C10 C04 C16 C18 C19 C07 C17"
mkdir -p out/soak
for p in $PROPS; do
  VERIF_SEED=$SEED VERIF_BUDGET_S=$BUD ./check.sh $p thorough > out/soak/$p.log 2>&1
  echo "$p exit=$? $(grep -c '^VIOLATION' out/soak/$p.log) viol; $(tail -1 out/soak/$p.log | cut -c1-160)"
done
