#!/bin/bash
# ./check.sh <ID> quick|thorough        run the check of one property
# ./check.sh <ID> --replay <file>       replay a recorded violation
# exit 0: held on everything explored; 1: VIOLATION printed; 2: infrastructure trouble
cd "$(dirname "$0")"
export GOFLAGS=-mod=mod GOPROXY=off GOSUMDB=off GOTOOLCHAIN=local CGO_ENABLED=1
ID="$1"; MODE="${2:-quick}"
mkdir -p bin evidence out
REPO="${VERIF_REPO:-/repo}"   # soak runs from a snapshot name another copy of the tree; the registered commands use /repo
if [ "$REPO" != "/repo" ]; then sed -i "s#=> /repo\$#=> $REPO#; s#=> /repo #=> $REPO #" fxsim/go.mod; fi
cp "$REPO/go.sum" fxsim/go.sum 2>/dev/null
# always rebuild from /repo's current working tree (Go's build cache makes this a no-op when unchanged)
if ! (cd fxsim && go build -tags verif -o ../bin/fxsim ./cmd/fxsim) > .build.$ID.log 2>&1; then
  echo "INFRA: build failed"; tail -n 40 .build.$ID.log; rm -f .build.$ID.log; exit 2
fi
rm -f .build.$ID.log
if [ "$ID" = "C17" ]; then # C17 replicas also run in a binary of the same tree built with the second toolchain
  if ! (cd fxsim && /opt/veriftools/go1.26.8/bin/go build -tags verif -o ../bin/fxsim126 ./cmd/fxsim) > .build.$ID.log 2>&1; then
    echo "INFRA: go1.26.8 build failed"; tail -n 40 .build.$ID.log; rm -f .build.$ID.log; exit 2
  fi
  rm -f .build.$ID.log
fi
if [ "$MODE" = "--replay" ]; then
  exec ./bin/fxsim replay -prop "$ID" "$3"
fi
exec ./bin/fxsim check -prop "$ID" -tier "$MODE"
