#!/bin/bash
# Build the simulator from files on disk only (offline). Compiles /repo's current tree with -tags verif.
set -e
cd "$(dirname "$0")"
export GOFLAGS=-mod=mod GOPROXY=off GOSUMDB=off GOTOOLCHAIN=local CGO_ENABLED=1
mkdir -p bin evidence out
cp /repo/go.sum fxsim/go.sum
(cd fxsim && go build -tags verif -o ../bin/fxsim ./cmd/fxsim)
echo "setup ok"
