#!/bin/bash
# Build the simulator from files on disk only (offline). Compiles /repo's current tree with -tags verif.
set -e
cd "$(dirname "$0")"
export GOFLAGS=-mod=mod GOPROXY=off GOSUMDB=off GOTOOLCHAIN=local CGO_ENABLED=1
mkdir -p bin evidence out
cp /repo/go.sum fxsim/go.sum
(cd fxsim && go build -tags verif -o ../bin/fxsim ./cmd/fxsim)
# C17 replicas also run in a binary of the same tree built with a second toolchain (other runtime and map implementation, testing/synctest)
(cd fxsim && /opt/veriftools/go1.26.8/bin/go build -tags verif -o ../bin/fxsim126 ./cmd/fxsim)
echo "setup ok"
