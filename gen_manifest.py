#!/usr/bin/env python3
# Generates MANIFEST.json from the table below (kept in one place so that it stays valid).
import json, subprocess
claimed = {
 "C01": ("bridge", "exploration", "5 C01", "seeded schedule/fault search over oracle vote interleavings on the real app; state invariants on attestation store + event history"),
 "C02": ("bridge", "exploration", "5 C02", "seeded search over stake distributions, vote orders and stake changes; exact-arithmetic recomputation of the tally; signer-vs-voter admission check incl. foreign-wrap transport fault"),
 "C07": ("bridge", "exploration", "5 C07", "seeded search over aged states (crashed confirmers, elapsed signed windows, churn, governance); FinalizeBlock/Commit panics and errors are recovered and reported as halts"),
}
notes = {
 "C01": "trusts the harness' raw-store decoding of the attestation/pending prefixes; sampling, not proof",
 "C02": "quorum is recomputed from the state committed before the block; blocks that also change stakes are skipped for the quorum oracle (counted by a probe)",
 "C07": "halts are Go panics/errors out of FinalizeBlock/Commit of the real app over MemDB; CometBFT itself is a stub",
}
na = [
 {"property_id": "C20", "reason": "pure function of input bytes and node configuration (panic-freedom of stateless validation/decoding, boolean fee-bypass rule): no schedule, clock, fault or multi-party history to simulate; needs fuzzing, a different technique (DESIGN.md section 6)"},
]
allp = ["C%02d" % i for i in range(1, 21)]
for p in allp:
    if p not in claimed and p != "C20":
        na.append({"property_id": p, "reason": "check not built yet in this revision (planned, see DESIGN.md section 5); not claimed until its oracle runs clean on the unchanged tree"})
hooks = subprocess.run(["git","-C","/repo","log","--format=%H %s"],capture_output=True,text=True).stdout.splitlines()
hook_commits = [l.split()[0] for l in hooks if "verif hook" in l]
m = {
 "version": 1,
 "setup_cmd": "./setup.sh",
 "hooks": {
  "guard": "verif",
  "enable": "go build -tags verif (fxsim/go.mod replaces github.com/functionx/fx-core/v8 => /repo, so every check compiles /repo's working tree with the tag on)",
  "baseline_off_cmd": "cd /repo && GOFLAGS=-mod=mod go test -json -vet=off -count=1 -timeout 25m ./...",
  "source_commits": hook_commits,
  "add_only": True,
 },
 "engines": [
  {"name": "bridge", "path": "fxsim/sim/bridge*.go", "serves_properties": ["C01","C02","C03","C04","C05","C06","C07","C12","C13"], "kind_free_text": "deterministic simulation: real app.App in-process; simulated oracles, external chain model, relayer, users, governance, validator faults, clock"},
 ],
 "checks": [],
 "not_applicable": na,
 "notes": "Deterministic simulation with fault injection (fxsim). One seed = one replayable run; VERIF_SEED, VERIF_TIER, VERIF_BUDGET_S, VERIF_WORKERS honoured. known_findings.jsonl lists recorded/fixed defects.",
}
for p in sorted(claimed):
    eng, lvl, ref, tech = claimed[p]
    m["checks"].append({
     "property_id": p, "engine": eng,
     "quick_cmd": "./check.sh %s quick" % p,
     "thorough_cmd": "./check.sh %s thorough" % p,
     "replay_cmd_template": "./check.sh %s --replay {path}" % p,
     "evidence_file": "/verif/evidence/%s.json" % p,
     "level_claimed": {"category": lvl, "text": "Seeded search over schedules, fault sequences and configurations of a deterministic in-process simulation of the whole application; oracles are evaluated after every step. Evidence, not proof: it samples the space the property quantifies over.", "design_ref": "DESIGN.md section " + ref},
     "level_note": notes[p],
     "technique": "deterministic simulation with fault injection: " + tech,
    })
json.dump(m, open("/verif/MANIFEST.json","w"), indent=1)
print("claimed", sorted(claimed), "na", [x["property_id"] for x in na])
