#!/usr/bin/env python3
# Generates MANIFEST.json from the table below (kept in one place so that it stays valid).
import json, subprocess
claimed = {
 "C01": ("bridge", "exploration", "5 C01", "seeded schedule/fault search over oracle vote interleavings on the real app (competing claims, early votes, offline oracles that keep voting, re-bond cycles); state invariants on attestation store + event history; a one-shot forwarder contract re-enters executeClaim from inside the bridge call being executed - what executing a parked claim creates is bounded by the claim's own amounts"),
 "C02": ("bridge", "exploration", "5 C02", "seeded search over stake distributions, vote orders and stake changes; exact-arithmetic recomputation of the tally; signer-vs-voter admission check incl. foreign-wrap transport fault and votes of offline / governance-removed oracles; claims tallied together are executed on branches and must have one effect (each voted for that very event)"),
 "C03": ("bridge", "exploration", "5 C03", "seeded Byzantine one-field claim variants (fields found by reflection) and threshold-crossing order; differential execution of every pair of variants that share an attestation on branches of the real state, full store dumps must be equal; for the event next to be observed every two-field re-split variant filed under the honest claim's attestation identity is executed next to the honest claim (a recorder contract makes data/memo/value observable); structural variants (letter case, list order) and routing-target spellings produced by the code base's own target parser; deposits with erc20 / IBC targets, an open loop-back IBC channel in a third of the runs"),
 "C04": ("bridge", "exploration", "5 C04", "seeded multi-user multi-token bridge histories; conservation equations per token group, per-step balance deltas, withdrawability, evaluated after every step on committed state; a third of the runs add an IBC voucher as one more representation of the bridged coin (alias), a loop-back channel and deposits with IBC targets: value that leaves over IBC is read from IBC core's packet commitments, the transfer module's stock moves by exactly the deposit, and after the run a parked deposit with an open route can be executed (bounded liveness on a branch); inbound bridge calls with a value to an accept-all contract; outgoing bridge calls through the precompile"),
 "C05": ("bridge", "exploration", "5 C05", "seeded send/cancel/fee-bump/batch/timeout/relay races; observational life-cycle model of every outgoing transfer and bridge call checked against raw pool/batch/call stores after every step; the refund of an outgoing bridge call (failed result or timeout) reaches its refund address exactly, in whatever representation, and nobody else; timeout-boundary scenario (external chain parked at timeout-1 / timeout / timeout-2)"),
 "C06": ("bridge", "exploration", "5 C06", "seeded external-height/observation-lag/relayer schedules (late, out of order, after cancel, two tokens racing); executable model of FxBridgeLogic.sol is the judge for never-both; timeout-proved on observed heights; a minority oracle (< 1/3 of the power) lies about external heights - the observed height never exceeds the external chain's real height; timeout-boundary scenario: the external chain is parked at exactly timeout-1 (or timeout, timeout-2), an event of that block is observed, and the object is relayed in the same external block"),
 "C08": ("evm", "exploration", "5 C08", "seeded histories of conversions (messages, precompiles, inbound claims), governance toggles and agent contracts that touch a token directly and convert it through a precompile in the same transaction; escrow-vs-supply equations per pair kind, balance sums, index consistency after every step; swarm: the externally-owned token is either a FIP20 proxy or an assembled token whose failed transfers return false; duplicate-alias registrations; conversions above the sender's balance; a third of the runs drive the withdraw-and-redeposit cycle that puts coins of the externally-owned pair into users' hands and convert them to module and user addresses; the token can destroy itself - from then on the coin supply of its pair never grows"),
 "C09": ("evm", "fault_enumeration", "5 C09", "generated agent-contract call trees (hand-assembled EVM bytecode) x revert placement x gas ladder; the return-data bitmap of the top-level call is the kept set K; the full store dump after the run must equal the dump after executing exactly the kept calls (mask replay) on a branch of the same state; query methods of the staking precompile are part of the alphabet (their effects must go the way of their frame too); share-allowance template (delegate, approve, child spends within / beyond allowance and delegation)"),
 "C10": ("evm", "exploration", "5 C10", "victims that never sign vs attacker EOAs/contracts (incl. contracts the victim calls), forbidden call kinds, static frames, governance switches; victims' portfolios must not shrink except through share allowances; validators are slashed for downtime inside runs (a share is then worth less than a token), existing allowances are used at and around their value, bridge calls name a victim as refund address"),
 "C11": ("evm", "exploration", "5 C11", "seeded staking-precompile histories incl. self transfers, zero-amount transfers, reward blocks and validator downtime slashing; per-transfer share deltas, all registered crisis invariants on a branch after every step, exit liveness at end of run"),
 "C14": ("gov", "exploration", "5 C14", "seeded source portfolios (denoms, delegations, unbonding/redelegation entries, rewards) x governance involvement at every proposal stage; accepted migrations are judged differentially (portfolio equality, raw-store residue scan, crisis invariants) and followed through maturation after clock jumps; must-refuse cases probed, incl. a target that operates a validator but holds no staking record any more (scripted once per run)"),
 "C15": ("gov", "exploration", "5 C15", "several concurrent proposals of different message types, deposits (also during voting), weighted votes, clock advance, custom per-type params changed by proposals (also malformed values, also for legacy-content proposals); deposit ledger, activation threshold, per-type voting period/quorum, voting window fixed once voting started, decided proposals stay decided, all-or-nothing multi-message execution, tracked donations"),
 "C16": ("gov", "fault_enumeration", "5 C16", "run-time enumeration of every registered message whose signer field is 'authority' x authority class x entry path (signed tx, authz exec, proposal with wrong authority, direct router call), injected into seeded histories; rejected injections must leave all stores byte-identical to a twin world; compare-and-set races for MsgUpdateStore"),
 "C17": ("c17", "exploration", "5 C17", "block transcripts recorded from runs of every engine are re-executed block by block in independent replicas (fresh processes at GOMAXPROCS 1 and 16/GOGC=1, a go1.26.8 binary, go1.26.8 inside a testing/synctest bubble with a fake wall clock, other node options, crash between FinalizeBlock and Commit with restart over goleveldb); app hash, tx results, events, validator and param updates must agree at every block"),
 "C18": ("c18", "fault_enumeration", "5 C18", "per input the failure is provoked at every distinguishable point with real inputs (callee contracts assembled per mode: actions x endings, disabled token pairs, gas-limit ladder, j-th proposal message invalid/panicking, failing event handlers); fail-late == fail-first on branches of the same state (full store dumps), designated outcome only; plus the same inputs through real transactions; 2-3 proposals ending in the same block in every order of {fails late, passes, fails first}; one run in four uses the IBC world: packets whose memo call fails in drawn ways must get an error acknowledgement and leave no effects"),
 "C19": ("ibc", "exploration", "5 C19", "09-localhost loop-back channels through real IBC core messages; seeded relayer faults (loss, duplication, reordering, forged acks, early timeouts, clock jumps); exact ledger of ERC-20/FX credits and refunds (the transfer module account's own FX included), dump equality on error acks, relation cleanup after honest drain"),
 "C12": ("bridge", "exploration", "5 C12", "honest oracles sign digests from an independent ABI encoder; Byzantine confirmations (wrong key/object/chain id/prefix/truncated/garbage/foreign signer, a correctly signed confirmation submitted by somebody else - wrapped or direct) must be rejected; every stored confirmation is re-verified and must be executable by the contract model"),
 "C13": ("bridge", "exploration", "5 C13", "seeded oracle life cycles (bond, add-delegate, redelegate, slash, governance removal, unbonding period via clock jumps, unbond); registry bijection, stake ledger, justified-slash witness, bounded liveness of unbond after faults stop"),
 "C07": ("bridge", "exploration", "5 C07", "seeded search over aged states (crashed confirmers, elapsed signed windows, churn, governance) in the bridge world and, as surrogate workloads, the gov / evm / ibc worlds (concurrent proposals incl. all-abstain tallies, precompile histories, relaying); FinalizeBlock/Commit panics and errors are recovered and reported as halts"),
}
notes = {
 "C01": "trusts the harness' raw-store decoding of the attestation/pending prefixes; sampling, not proof",
 "C02": "quorum is recomputed from the state committed before the block; blocks that also change stakes are skipped for the quorum oracle (counted by a probe)",
 "C03": "covers the variants the Byzantine actors generate (one field at a time, values that pass stateless validation); the pure injectivity half is sampled, not enumerated",
 "C04": "FX is checked on the eth module escrow account (FX is also minted/staked); bridged coin checked on user-held supply; ERC-20 side read through read-only EVM calls",
 "C05": "the model never predicts which transfers a batch selects; refund exactness is checked in single-transaction blocks",
 "C06": "the external contract is a Go model written from FxBridgeLogic.sol (height < timeout, nonce rules, signature power), not the Solidity code itself",
 "C08": "ERC-20 balances are summed over every address the run knows (users, contracts, module accounts, external receivers); an unknown holder only makes the sum smaller and is counted by a probe; the nested-state-DB defect is a recorded known finding",
 "C09": "the reference is the same contracts executed with only the kept calls enabled and no reverts; a precompile that reports success to the EVM without applying its effects behaves the same in both runs and is not caught here",
 "C10": "victim portfolios = bank balances, ERC-20 balances, delegation shares, share allowances, queued withdrawals; the CALL-inside-static-frame hole of the go-ethereum fork is a recorded known finding",
 "C11": "reward amounts are not re-derived; reward bookkeeping is judged by the SDK's own distribution/staking/bank invariants run on a branch",
 "C14": "expected values for share/reward rounding are read from real keepers on a branch; residue scan is a raw byte search for the source address in staking/distribution/bank stores",
 "C15": "turnout < quorum => not passed is checked one-directionally; deposits to the gov module account by plain bank sends are tracked as donations",
 "C16": "byte-identical is judged against a twin world running the same history without the injected message (allowed differences: signer sequence/pubkey, fee-market block gas, app hash inside staking historical info)",
 "C17": "the ABCI log/info strings are excluded (non-deterministic by definition); CometBFT itself is not run; four node-option divergences in dependencies are recorded known findings",
 "C18": "IBC boundary (d) runs in the IBC world's C18 mode (failing memo calls: revert, revert with data, invalid opcode, out of gas, value above balance); at this commit the failing event handlers fail before writing, so boundary (a) mostly guards future changes",
 "C19": "the counter-party chain is the same app (loop-back); genesis is seeded with IBC history (denom traces, escrowed vouchers) because alias vouchers cannot be created otherwise at this commit",
 "C12": "digest equality is checked on the objects that arise in runs (honest confirmation accepted <=> digests agree), not on arbitrary 2^64 values; TRON digests only via the prefix fault",
 "C13": "validator slashing makes stake comparisons inexact; those comparisons are skipped once the oracle's validator has been slashed",
 "C07": "halts are Go panics/errors out of FinalizeBlock/Commit of the real app over MemDB; CometBFT itself is a stub",
}
na = [
 {"property_id": "C20", "reason": "pure function of input bytes and node configuration (panic-freedom of stateless validation/decoding, boolean fee-bypass rule): no schedule, clock, fault or multi-party history to simulate; needs fuzzing, a different technique (DESIGN.md section 6)"},
]
allp = ["C%02d" % i for i in range(1, 21)]
for p in allp:
    if p not in claimed and p != "C20":
        na.append({"property_id": p, "reason": "check not built yet in this revision (planned, see DESIGN.md section 5); not claimed until its oracle runs clean on the unchanged tree"})
hooks = subprocess.run(["git","-C","/repo","log","--format=%H %s"],capture_output=True,text=True).stdout.splitlines()
hook_commits = [l.split()[0] for l in hooks if "verif hook" in l]
m = {
 "version": 1,
 "setup_cmd": "./setup.sh",
 "hooks": {
  "guard": "verif",
  "enable": "go build -tags verif (fxsim/go.mod replaces github.com/functionx/fx-core/v8 => /repo, so every check compiles /repo's working tree with the tag on)",
  "baseline_off_cmd": "cd /repo && GOFLAGS=-mod=mod go test -json -vet=off -count=1 -timeout 25m ./...",
  "source_commits": hook_commits,
  "add_only": True,
 },
 "engines": [
  {"name": "bridge", "path": "fxsim/sim/bridge*.go", "serves_properties": ["C01","C02","C03","C04","C05","C06","C07","C12","C13"], "kind_free_text": "deterministic simulation: real app.App in-process; simulated oracles, external chain model, relayer, users, governance, validator faults, clock"},
  {"name": "evm", "path": "fxsim/sim/evm*.go", "serves_properties": ["C08","C09","C10","C11"], "kind_free_text": "deterministic simulation: generated EVM programs (own assembler) against both precompiles on top of a bridge world; gas-limit and revert fault injection; branch execution through the real EVM keeper"},
  {"name": "gov", "path": "fxsim/sim/gov_*.go", "serves_properties": ["C14","C15","C16"], "kind_free_text": "deterministic simulation: governance / migration histories with seeded actors, clock jumps and authority-injection faults on the real app"},
  {"name": "c17", "path": "fxsim/sim/c17_*.go", "serves_properties": ["C17"], "kind_free_text": "replica runner: process, runtime, fake-clock, node-option and crash/restart faults over recorded block transcripts of all engines"},
  {"name": "c18", "path": "fxsim/sim/c18_*.go", "serves_properties": ["C18"], "kind_free_text": "deterministic simulation on a bridge world: failure-point enumeration inside tolerated-failure boundaries (inbound bridge call, observed event handler, proposal messages) via generated callee contracts and governance switches, differential execution on branches"},
  {"name": "ibc", "path": "fxsim/sim/ibc_*.go", "serves_properties": ["C19"], "kind_free_text": "deterministic simulation: loop-back IBC channels (09-localhost) on the real app, seeded relayer with loss/duplication/reordering/timeouts"},
 ],
 "checks": [],
 "not_applicable": na,
 "notes": "Deterministic simulation with fault injection (fxsim). One seed = one replayable run; VERIF_SEED, VERIF_TIER, VERIF_BUDGET_S, VERIF_WORKERS honoured. known_findings.jsonl lists recorded/fixed defects.",
}
for p in sorted(claimed):
    eng, lvl, ref, tech = claimed[p]
    m["checks"].append({
     "property_id": p, "engine": eng,
     "quick_cmd": "./check.sh %s quick" % p,
     "thorough_cmd": "./check.sh %s thorough" % p,
     "replay_cmd_template": "./check.sh %s --replay {path}" % p,
     "evidence_file": "/verif/evidence/%s.json" % p,
     "level_claimed": {"category": lvl, "text": "Seeded search over schedules, fault sequences and configurations of a deterministic in-process simulation of the whole application; oracles are evaluated after every step. Evidence, not proof: it samples the space the property quantifies over.", "design_ref": "DESIGN.md section " + ref},
     "level_note": notes[p],
     "technique": "deterministic simulation with fault injection: " + tech,
    })
json.dump(m, open("/verif/MANIFEST.json","w"), indent=1)
print("claimed", sorted(claimed), "na", [x["property_id"] for x in na])
