#!/bin/bash
# Determinism self-test: every (property, seed) is run in several fresh processes at
# GOMAXPROCS 1/4/16; the complete run summaries (shape hash, app hash, probes, faults,
# abstract states, violations) must be byte-identical.
# usage: ./selftest_determinism.sh "C01 C07" 20
cd "$(dirname "$0")"
PROPS="${1:-C01 C02 C07}"; N="${2:-12}"
F=$(mktemp); fail=0
for p in $PROPS; do
  for s in $(seq 1 $N); do
    ref=""
    for g in 1 4 16 1; do
      out=$(GOMAXPROCS=$g ./bin/fxsim run -prop $p -seed $((s*7919)) | sed 's/  ([0-9.a-zµ]*)$//' | md5sum)
      if [ -z "$ref" ]; then ref="$out"; elif [ "$ref" != "$out" ]; then echo "NONDETERMINISTIC prop=$p seed=$((s*7919)) gomaxprocs=$g"; echo x >> $F; fi
    done
  done &
done
wait
[ -s $F ] && fail=1; rm -f $F
[ $fail = 0 ] && echo "determinism ok: $PROPS x $N seeds x 4 processes"
exit $fail
